/-
Mathematical lemmas used as ghost lemmas by the pyvc kernels (vf/kernels). They talk about lists and integers only (no model of einx):
each is instantiated in a verification condition on sequences that the VC generator produced from the real source, and is stated there
as an implication whose premises the SMT solver must discharge.  This file is re-checked by `lean` (with Mathlib) by `./check --lemmas`.
-/
import Mathlib.Data.List.Perm.Basic
import Mathlib.Data.List.Nodup
import Mathlib.Data.List.Dedup
import Mathlib.Algebra.BigOperators.Intervals
import Mathlib.Algebra.Order.BigOperators.Group.Finset

/-- L1 (pigeonhole, both directions): two duplicate-free lists with the same members have the same length. -/
theorem nodup_same_members_same_length {α : Type} (l₁ l₂ : List α)
    (h₁ : l₁.Nodup) (h₂ : l₂.Nodup) (h : ∀ a, a ∈ l₁ ↔ a ∈ l₂) : l₁.length = l₂.length :=
  ((List.perm_ext_iff_of_nodup h₁ h₂).mpr h).length_eq

/-- L2 (pigeonhole, one direction): a duplicate-free list whose members all lie in `l₂` is no longer than `l₂`. -/
theorem nodup_subset_length_le {α : Type} [DecidableEq α] (l₁ l₂ : List α)
    (h₁ : l₁.Nodup) (h : ∀ a, a ∈ l₁ → a ∈ l₂) : l₁.length ≤ l₂.length :=
  (List.subperm_of_subset h₁ h).length_le

/-- L3 (sum congruence): sums of two integer sequences that agree on the first `n` positions are equal.
    (`seqsum a n` of the engine is `∑ k in range n, a k`: `Finset.sum_range_zero`, `Finset.sum_range_succ` are its two defining axioms.) -/
theorem seqsum_congr (f g : ℕ → ℤ) (n : ℕ) (h : ∀ k, k < n → f k = g k) :
    (Finset.range n).sum f = (Finset.range n).sum g :=
  Finset.sum_congr rfl (fun k hk => h k (Finset.mem_range.mp hk))

/-- L4 (unit steps): a sequence whose consecutive entries differ by exactly one is `f 0 + j` at every position `j`. -/
theorem unit_steps_closed_form (f : ℕ → ℤ) (m : ℕ) (h : ∀ i, i + 1 < m → f (i + 1) = f i + 1) :
    ∀ j, j < m → f j = f 0 + j := by
  intro j
  induction j with
  | zero => intro _; simp
  | succ k ih =>
    intro hk
    have h1 : f (k + 1) = f k + 1 := h k hk
    have h2 : f k = f 0 + k := ih (Nat.lt_of_succ_lt hk)
    rw [h1, h2]; push_cast; exact Int.add_assoc _ _ _

/-- L5 (monotone counting): partial sums of a sequence of non-negative integers are monotone in the upper bound.
    (`cnt i = ∑ k in range i, ind k` counts the marked positions below `i`.) -/
theorem partial_sums_monotone (ind : ℕ → ℤ) (h : ∀ k, 0 ≤ ind k) (i j : ℕ) (hij : i ≤ j) :
    (Finset.range i).sum ind ≤ (Finset.range j).sum ind :=
  Finset.sum_le_sum_of_subset_of_nonneg (Finset.range_mono hij) (fun k _ _ => h k)

/-- L6 (ancestor-or-self is a preorder): over a forest of finite depth (`parent` strictly decreases the depth `d`), any relation that satisfies the
    recursive equation of `Scope.is_predecessor_of` (a is b, or b has a parent and a is a predecessor of it) is reflexive and transitive.
    (Used by C04.P.common_scope, which assumes exactly these two facts about `is_predecessor_of`; the equation itself is C04.P.is_predecessor.) -/
theorem ancestor_or_self_refl {α : Type} (parent : α → Option α) (anc : α → α → Prop)
    (heq : ∀ a b, anc a b ↔ a = b ∨ ∃ c, parent b = some c ∧ anc a c) : ∀ a, anc a a :=
  fun a => (heq a a).2 (Or.inl rfl)

theorem ancestor_or_self_trans {α : Type} (parent : α → Option α) (anc : α → α → Prop) (d : α → ℕ)
    (hd : ∀ b c, parent b = some c → d c < d b)
    (heq : ∀ a b, anc a b ↔ a = b ∨ ∃ c, parent b = some c ∧ anc a c) :
    ∀ a b c, anc a b → anc b c → anc a c := by
  intro a b c hab
  generalize h : d c = n
  induction n using Nat.strong_induction_on generalizing c with
  | _ n ih =>
    intro hbc
    rcases (heq b c).1 hbc with rfl | ⟨c', hp, hbc'⟩
    · exact hab
    · exact (heq a c).2 (Or.inr ⟨c', hp, ih (d c') (h ▸ hd c c' hp) c' rfl hbc'⟩)
