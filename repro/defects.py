"""Failing inputs for the genuine defects of the pinned tree (DESIGN.md §4), run against the real code.
Usage: PYTHONHASHSEED=0 .venv/bin/python repro/defects.py     -> one line per defect: REPRODUCED / not reproduced"""
import sys, signal, warnings, subprocess, os
import numpy as np
warnings.simplefilter("ignore")
import einx

def alarm(sec):
    def h(*a): raise TimeoutError()
    signal.signal(signal.SIGALRM, h); signal.alarm(sec)

def outcome(f):
    alarm(20)
    try:
        return ("ok", f())
    except BaseException as e:  # noqa
        return ("exc", type(e).__module__ + "." + type(e).__name__)
    finally:
        signal.alarm(0)

R = []
def rec(no, prop, what, bad): R.append((no, prop, what, bool(bad)))

x = np.arange(48).reshape(2, 3, 2, 4)
o = outcome(lambda: einx.id("a e a d -> a d e", x))
exp = np.stack([x[a, :, a, :] for a in range(2)]).transpose(0, 2, 1)
rec(1, "C01", "id('a e a d -> a d e') vs loop meaning", not (o[0] == "ok" and np.array_equal(o[1], exp)))
o = outcome(lambda: einx.solve_shapes("(a b)", None, a=65536, b=65536))
rec(2, "C02", f"solve_shapes('(a b)', None, a=65536, b=65536) -> {o[1]!r}", not (o[0] == "ok" and tuple(o[1][0]) == (65536 * 65536,)))
o = outcome(lambda: einx.solve_axes("a", None, a=2**40))
rec(2, "C02", f"solve_axes('a', None, a=2**40) -> {o[1]!r}", not (o[0] == "ok" and int(o[1]["a"]) == 2**40))
o = outcome(lambda: einx.matches("(b 3)", np.zeros(4)))
rec(3, "C02", f"matches('(b 3)', zeros(4)) -> {o[1]!r}", not (o == ("ok", False)))
o = outcome(lambda: einx.solve_shapes("(a 2)", np.zeros(7)))
rec(3, "C02", f"solve_shapes('(a 2)', zeros(7)) -> {o[1]!r}", o[0] == "ok")
o = outcome(lambda: einx.solve_axes("a 3", np.zeros((2, 3))))
rec(4, "C02", f"solve_axes('a 3', zeros((2,3))) -> {o[1]!r}", not (o[0] == "ok" and int(o[1]["a"]) == 2))
o = outcome(lambda: einx.solve_axes("... c", np.zeros((2, 3))))
rec(4, "C02", f"solve_axes('... c', zeros((2,3))) -> {o[1]!r}", not (o[0] == "ok" and int(o[1]["c"]) == 3))
o = outcome(lambda: einx.id("a | a", np.zeros(3)))
rec(5, "C03", f"id('a | a') -> {o[1]!r}", o != ("exc", "einx.errors.SyntaxError"))
o = outcome(lambda: einx.id("a ² -> a", np.zeros((3, 2))))
rec(6, "C03", f"id('a ² -> a') -> {o[1]!r}", o != ("exc", "einx.errors.SyntaxError"))
INTERNAL = ("builtins.AssertionError", "builtins.TypeError0", "builtins.KeyError", "builtins.IndexError", "builtins.AttributeError", "builtins.NameError")
o = outcome(lambda: einx.argmax("a", np.zeros(3)))
rec(7, "C03", f"argmax('a', x) -> {o[1]!r}", o[0] == "exc" and o[1] in INTERNAL)
o = outcome(lambda: einx.id(",b", np.zeros(()), np.zeros(3)))
rec(7, "C03", f"id(',b', x, y) -> {o[1]!r}", o[0] == "exc" and o[1] in INTERNAL)
o = outcome(lambda: einx.id("(f () 1) -> f", np.zeros(3)))
rec(7, "C03", f"id('(f () 1) -> f', x) -> {o[1]!r}", o[0] == "exc" and not o[1].startswith("einx."))
o = outcome(lambda: einx.sum("[a b]...", np.zeros((2, 3, 2, 3))))
rec(8, "C12", f"sum('[a b]...', x) -> {o[1]!r}", o == ("exc", "einx.errors.SyntaxError"))
xs = [np.ones(3)] * 30
o = outcome(lambda: einx.add(", ".join(["a"] * 30) + " -> a", *xs))
rec(9, "C04", f"add of 30 tensors -> {o[0]} {o[1] if o[0]=='exc' else ''}", o[0] != "ok")
code = ("import numpy as np, einx, warnings; warnings.simplefilter('ignore'); x=np.zeros((2,3))\n"
        "def t(c):\n  try: einx.id('a b -> a b c', x, c=c); return 'ok'\n  except Exception as e: return type(e).__name__\n")
def sub(body):
    return subprocess.run([sys.executable, "-c", code + body], capture_output=True, text=True, env=dict(os.environ, PYTHONHASHSEED="0")).stdout.strip()
cold = sub("print(t(2.0))"); warm = sub("t(2); print(t(2.0))")
rec(10, "C06", f"id(..., c=2.0): cold={cold} after c=2: {warm}", cold != warm)
import einx._src.frontend.backend as B, ast, inspect
src = inspect.getsource(B.BackendRegistry); t = ast.parse(src)
unlocked = []
for fn in t.body[0].body:
    if isinstance(fn, ast.FunctionDef) and fn.name != "__init__":
        for n in ast.walk(fn):
            if isinstance(n, ast.Assign) and "self.state" in ast.unparse(n.targets[0]):
                inside = any(isinstance(w, ast.With) and n in list(ast.walk(w)) for w in ast.walk(fn))
                if not inside: unlocked.append(fn.name)
rec(11, "C10", f"stores to registry.state outside use_lock in {sorted(set(unlocked))}", unlocked)
o = outcome(lambda: einx.set_at("[n], i j, i -> [n]", np.zeros(5), np.array([[0, 1], [2, 3]]), np.array([10.0, 20.0])))
rec(12, "C14", f"set_at('[n], i j, i -> [n]') -> {o[1].tolist() if o[0]=='ok' else o[1]}", not (o[0] == "ok" and o[1].tolist() == [10, 10, 20, 20, 0]))
body = ("import numpy as np, einx; print(einx.set_at('[n], i j, j i -> [n]', np.zeros(3), np.array([[0,0],[0,1]]), np.array([[1.,2.],[3.,4.]])).tolist())")
outs = {s: subprocess.run([sys.executable, "-c", body], capture_output=True, text=True, env=dict(os.environ, PYTHONHASHSEED=str(s))).stdout.strip() for s in range(6)}
rec(13, "C16", f"set_at('[n], i j, j i -> [n]') under seeds 0..5 -> {sorted(set(outs.values()))}", len(set(outs.values())) > 1)
code2 = ("import numpy as np, einx, warnings; warnings.simplefilter('ignore'); x=np.ones((2,3))\n"
         "g = einx.numpy.adapt_numpylike_elementwise(lambda a, b, *, opt=None: np.copysign(a + b, opt))\n")
def sub2(body):
    return subprocess.run([sys.executable, "-c", code2 + body], capture_output=True, text=True, env=dict(os.environ, PYTHONHASHSEED="0")).stdout.strip()
cold = sub2("print(g('a b, a b', x, x, opt=-0.0)[0, 0])"); warm = sub2("g('a b, a b', x, x, opt=0.0); print(g('a b, a b', x, x, opt=-0.0)[0, 0])")
rec(14, "C06", f"adapted function with opt=-0.0: cold={cold} after opt=0.0: {warm}", cold != warm)
for no, prop, what, bad in R:
    print(f"defect {no:2d} {prop} {'REPRODUCED    ' if bad else 'not reproduced'} {what}")
