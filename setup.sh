#!/bin/bash
# Builds /verif/.venv offline: python 3.12 (from /venv) + z3-solver, cvc5, crosshair-tool, deal, icontract, jsonschema
# from /opt/veriftools/wheels, plus a .pth that exposes /venv's site-packages (einx editable -> /repo, numpy, sympy).
set -e
cd "$(dirname "$0")"
V=.venv
if [ -x "$V/bin/python" ] && "$V/bin/python" -c "import z3, cvc5, jsonschema, einx, numpy, sympy" 2>/dev/null; then
  echo "setup: $V already usable"
else
  rm -rf "$V"
  /venv/bin/python -m venv "$V"
  PIP_NO_INDEX=1 "$V/bin/python" -m pip install --quiet --no-index --find-links /opt/veriftools/wheels \
      z3-solver cvc5 crosshair-tool deal icontract jsonschema
  SP=$("$V/bin/python" -c "import sysconfig; print(sysconfig.get_paths()['purelib'])")
  echo "import site; site.addsitedir('/venv/lib/python3.12/site-packages')" > "$SP/zz_repo_venv.pth"
  "$V/bin/python" -c "import z3, cvc5, jsonschema, einx, numpy, sympy; print('setup: ok', z3.get_version_string(), einx.__file__)"
fi
# ghost lemmas (pure mathematics on lists/integers) used by some kernels: checked by Lean 4 + Mathlib; the stamp is keyed on the hash of
# lemmas/Lemmas.lean and of the toolchain version, so a check re-runs lean by itself whenever the file changed (a failure here is not fatal
# for the setup: the checks that use a lemma then run lean themselves and report a checker error if it is not accepted)
PYTHONDONTWRITEBYTECODE=1 "$V/bin/python" -c "from vf import lemmas; r = lemmas.ensure_checked(); print('setup: lemmas accepted by lean:', r['ok'], r['seconds'], 's')" || true
