#!/bin/bash
# Builds /verif/.venv offline: python 3.12 (from /venv) + z3-solver, cvc5, crosshair-tool, deal, icontract, jsonschema
# from /opt/veriftools/wheels, plus a .pth that exposes /venv's site-packages (einx editable -> /repo, numpy, sympy).
set -e
cd "$(dirname "$0")"
V=.venv
if [ -x "$V/bin/python" ] && "$V/bin/python" -c "import z3, cvc5, jsonschema, einx, numpy, sympy" 2>/dev/null; then
  echo "setup: $V already usable"; exit 0
fi
rm -rf "$V"
/venv/bin/python -m venv "$V"
PIP_NO_INDEX=1 "$V/bin/python" -m pip install --quiet --no-index --find-links /opt/veriftools/wheels \
    z3-solver cvc5 crosshair-tool deal icontract jsonschema
SP=$("$V/bin/python" -c "import sysconfig; print(sysconfig.get_paths()['purelib'])")
echo "import site; site.addsitedir('/venv/lib/python3.12/site-packages')" > "$SP/zz_repo_venv.pth"
"$V/bin/python" -c "import z3, cvc5, jsonschema, einx, numpy, sympy; print('setup: ok', z3.get_version_string(), einx.__file__)"
