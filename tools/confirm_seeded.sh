#!/bin/bash
# confirm each candidate change in a scratch worktree: applies cleanly, suite still 85 passed, demo fails with it and passes without it
set -u
W=/tmp/confirm_wt
git -C /repo worktree remove --force $W 2>/dev/null; rm -rf $W
git -C /repo worktree add -q --detach $W HEAD || exit 1
SRC=${SRC:-/tmp/mut}; LETTERS=${LETTERS:-"A B"}; ONLY=${ONLY:-C*}
for d in $SRC/$ONLY/_out; do
  P=$(basename $(dirname $d))
  for X in $LETTERS; do
    [ -f $d/patch_$X.diff ] || continue
    ID=${P}-${X}
    OUT=/verif/seeded/$ID; mkdir -p $OUT
    cp $d/patch_$X.diff $OUT/patch.diff; sed "s#$SRC/$P#WORKTREE#g" $d/demo_$X.py > $OUT/demo.py
    [ -f $d/REPORT.md ] && cp $d/REPORT.md $OUT/agent_report.md
    cd $W && git checkout -q -- . && git clean -fdq
    sed "s#WORKTREE#$W#g" $OUT/demo.py > $W/_demo.py
    C0=$(cd $W && PYTHONPATH=$W PYTHONHASHSEED=0 timeout 600 /venv/bin/python _demo.py >/dev/null 2>&1; echo $?)
    if ! git -C $W apply $OUT/patch.diff 2>/dev/null; then echo "$ID apply=FAIL" | tee $OUT/confirm.log; continue; fi
    C1=$(cd $W && PYTHONPATH=$W PYTHONHASHSEED=0 timeout 600 /venv/bin/python _demo.py >/dev/null 2>&1; echo $?)
    S=$(cd $W && PYTHONPATH=$W timeout 1500 /venv/bin/python -m pytest -q -p no:cacheprovider --timeout=900 -n 6 test 2>&1 | tail -1)
    echo "$ID apply=ok demo_clean_exit=$C0 demo_patched_exit=$C1 suite_patched='$S'" | tee $OUT/confirm.log
  done
done
cd /; git -C /repo worktree remove --force $W
