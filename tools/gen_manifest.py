#!/usr/bin/env python3
"""Regenerates MANIFEST.json from the table below (kept valid at all times)."""
import json, os, sys
ROOT = os.path.dirname(os.path.dirname(os.path.abspath(__file__)))
ids = [json.loads(l)["id"] for l in open(os.path.join(ROOT, "properties.jsonl"))]
sys.path.insert(0, ROOT)
from tools.manifest_table import CHECKS, NOT_APPLICABLE  # noqa
checks = []
for pid in ids:
    if pid in CHECKS and os.path.exists(os.path.join(ROOT, "vf", "props", pid + ".py")):
        c = CHECKS[pid]
        checks.append({"property_id": pid, "quick_cmd": f"./check {pid} --tier quick", "thorough_cmd": f"./check {pid} --tier thorough",
                       "evidence_file": f"evidence/{pid}.json", "replay_cmd_template": f"./check {pid} --replay {{path}}", "engine": "vf",
                       "level_claimed": {"category": c["level"], "text": c["text"], "design_ref": c.get("ref", "DESIGN.md §3 " + pid)},
                       "level_note": c["note"], "technique": c["technique"]})
na = [{"property_id": pid, "reason": NOT_APPLICABLE.get(pid, "check under construction in this session (not a not-applicable verdict); see DESIGN.md §3")} for pid in ids if pid not in {c["property_id"] for c in checks}]
m = {"version": 1, "setup_cmd": "./setup.sh",
     "hooks": {"guard": "EINX_VERIF", "enable": "no source hooks: contracts are sidecars under /verif that re-read /repo's sources on every run; run-time contracts are installed from /verif by rebinding, never by editing /repo",
               "baseline_off_cmd": "cd /repo && /venv/bin/python -m pytest -ra -q -p no:cacheprovider --timeout=900", "source_commits": [], "add_only": True},
     "engines": [{"name": "vf", "path": "vf/", "serves_properties": [c["property_id"] for c in checks],
                  "kind_free_text": "contract-based deductive verification: pyvc (VCs from the AST of the real functions -> z3/cvc5), syntactic frame rules, run-time contracts with bounded twins (labelled bounded)"}],
     "checks": checks,
     "notes": "Exit codes: 0 held, 1 violation (+VIOLATION line), 3 checker error. Known findings in known_findings.jsonl. Fix commits in /repo are listed there as 'fixed:' entries.",
     "not_applicable": na}
import jsonschema
jsonschema.validate(m, json.load(open("/root/.vp/MANIFEST.schema.json")))
json.dump(m, open(os.path.join(ROOT, "MANIFEST.json"), "w"), indent=1)
print("MANIFEST.json:", len(checks), "checks,", len(na), "not yet claimed")
