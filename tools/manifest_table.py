P_NOTE = ("Trusted: CPython semantics of the supported subset as encoded by pyvc (cross-checked by bounded twins on the real functions), z3/cvc5, "
          "the stated numpy/functools/threading contracts; ints mathematical; no termination proof; meta-arguments (inductions) on paper in DESIGN.md Appendix A. ")
CHECKS = {
 "C05": {"level": "other", "technique": "deductive VCs from the real AST (one denotation lemma per rewrite rule, z3/cvc5) + syntactic frame rules + bounded twins on real graphs",
         "text": "Each rewrite rule of the optimizer gets a denotation-preservation lemma generated from the AST of its real __call__ method and discharged for every rank/shape; the side conditions of the graph induction (strict-predecessor arguments, purity) are rule-checked; the induction itself and termination are not mechanised, the driver and SkipCast are covered by bounded runs only - hence 'other', not 'proof'.",
         "note": P_NOTE + "numpy index-level laws are axioms; termination only observed."},
}
NOT_APPLICABLE = {}
