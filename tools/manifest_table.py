P_NOTE = ("Trusted: CPython semantics of the supported subset as encoded by pyvc (cross-checked by bounded twins on the real functions), z3/cvc5, "
          "the stated numpy/functools/threading contracts; ints mathematical; no termination proof; meta-arguments (inductions) on paper in DESIGN.md Appendix A. ")
CHECKS = {
 "C05": {"level": "other", "technique": "deductive VCs from the real AST (one denotation lemma per rewrite rule, z3/cvc5) + syntactic frame rules + bounded twins on real graphs",
         "text": "Each rewrite rule of the optimizer gets a denotation-preservation lemma generated from the AST of its real __call__ method and discharged for every rank/shape; the side conditions of the graph induction (strict-predecessor arguments, purity) are rule-checked; the induction itself and termination are not mechanised, the driver and SkipCast are covered by bounded runs only - hence 'other', not 'proof'.",
         "note": P_NOTE + "numpy index-level laws are axioms; termination only observed."},
}
B_NOTE = "Whole-pipeline value claims are evaluated at run time on a bounded corpus (labelled bounded, never counted as proved); only the listed integer/sequence kernels are unbounded. Only numpy backends are importable. "
CHECKS.update({
 "C01": {"level": "other", "technique": "contracts on the lowering chain: diagonal axis bookkeeping proved for all ranks (VCs from the real AST, z3); top-level postcondition = loop-notation meaning evaluated on a bounded corpus x 3 numpy backends",
         "text": "The repeated-axis (diagonal) bookkeeping of the real classical_from_numpy.diagonal is proved for every rank and multiplicity from its AST; the property-level postcondition (result = loop-notation meaning) is a run-time contract evaluated over a grammar-directed corpus against an independent loop interpreter - bounded, so 'other'.",
         "note": P_NOTE + B_NOTE},
 "C09": {"level": "other", "technique": "frame condition by syntactic rule over the real AST (producers of in-place IR nodes, target position, functional allow-list) + bounded byte snapshots over layouts",
         "text": "assigns <= {first tensor of *_at} is decided by a rule over every producer of in-place IR nodes and every numpy attribute the numpy adapter uses; the run-time frame contract (bytes/strides/flags of all arguments and of the base arrays of views) is evaluated on a bounded corpus over five layouts.",
         "note": "Trusted: numpy functions on the functional allow-list do not write their inputs; the rule's blind spots (in-place writes through aliases created by helper functions outside the adapter) are covered only by the bounded part. " + B_NOTE},
 "C10": {"level": "other", "technique": "ownership contracts decided by syntactic rules (lockset on registry.state, immutable snapshots, thread-local stacks, shared-state inventory); no schedule exploration",
         "text": "Only the lock/ownership obligations the mechanism relies on are decided (every store to registry.state is an atomic read-modify-write under use_lock; snapshots immutable; tracing stacks thread-local; no other call-time shared writes). The quantifier over interleavings is explicitly NOT claimed: this family does not explore schedules.",
         "note": "Scope limited (DESIGN §3 C10, §5). Trusted: threading.Lock/RLock, functools.cache thread-safety, CPython memory model. Known finding F-use-stack-lifo-threads is reported on every run."},
 "C16": {"level": "other", "technique": "determinism obligations on every set-iteration site (syntactic rule with discharge patterns + finite check of the lexer's literal table) + bounded digest across PYTHONHASHSEED values",
         "text": "Every iteration over a set-typed expression in einx/_src must feed an order-insensitive consumer, be guarded to a singleton, only reach exception text, carry a proof, or be listed as an explicit assumption; a new unguarded site fails the rule. Behavioural equality is sampled over 8/32 hash seeds in separate processes.",
         "note": "Assumed sites (cse numbering, solver equivalence-class constant) are listed in the evidence; sympy ordering trusted; known finding F-solver-order-hang reported on every run. " + B_NOTE},
 "C17": {"level": "other", "technique": "template grammar of the code generator checked by syntactic rule over the emitter's string templates + relational postcondition (sizes only change integer literals) on a bounded corpus",
         "text": "No emitter template of the real compile() contains a loop/branch/comprehension keyword (rule over all 60+ templates); every generated text of the corpus is parsed and must consist of straight-line statements only, and its skeleton must be identical across five size assignments that agree on the length-1 axes.",
         "note": B_NOTE},
})
CHECKS.update({
 "C11": {"level": "other", "technique": "contracts on BackendRegistryState proved from the real AST (precedence chain, priority filter, memo-write condition, LIFO with-stack; z3) + exhaustive small synthetic registries vs a selection spec",
         "text": "_get's precedence chain, the priority filter/memo region of _get_by_tensors and _enter/_exit are proved for all registries and stacks from their ASTs; order/lookup-history stability and lazy/failing registration are evaluated on fresh real BackendRegistry objects with synthetic backends (all registration orders at the thorough tier) - bounded.",
         "note": P_NOTE + "Induction over lookup histories on paper; real torch/jax factories not importable."},
 "C12": {"level": "other", "technique": "lexer prefix of the real parse_op proved total for ALL strings (VCs from its AST; z3 + cvc5 string theory; Unicode digit classes from the running interpreter) + exhaustive token sequences for the recursive stages",
         "text": "For every string the lexer loop's invariant, token classes, int()-safety and caret positions are discharged (260 obligations, 32 need cvc5); totality, caller-text quoting, round trip and re-spacing of the recursive parser stages are enumerated exhaustively up to 5/6 tokens - bounded.",
         "note": P_NOTE + "Solver alphabets stop at U+2FFFF; parser stages after the lexer bounded only. Known finding F-ellipsis-braces reported on every run."},
 "C03": {"level": "other", "technique": "exception-freedom obligations: lexer VCs for all strings (shared with C12), rule 'no backend code before the graph is built', bounded single-edit corruption corpus on all public entry points with traceback-origin classification",
         "text": "raises ⊆ documented is proved for the lexer stage for all strings; that the compiled function is only called after graph construction succeeded is rule-checked; the remaining stages are exercised by every single-edit corruption of valid corpus calls (incl. solve_*), classifying an exception as documented only if an explicit raise inside einx produced it; certainly ill-formed calls must be rejected.",
         "note": P_NOTE + B_NOTE},
})
CHECKS.update({
 "C07": {"level": "exploration", "technique": "relational postcondition short form == long form as a run-time contract on pairs of public calls (bounded); rule: the description string flows only into the parser",
         "text": "Each of the twelve documented shorthand kinds is checked on hand-written (short, long) pairs taken from the documentation and on corpus-driven variants, on identical data, three backends; no unbounded part beyond the syntactic flow rule - bounded exploration.",
         "note": B_NOTE + "The pair table itself is part of the trusted base (entries that do not exercise their shorthand make the check fail as a checker error)."},
 "C08": {"level": "exploration", "technique": "relational postconditions between public calls (rename / permute / regroup / invert / compose) on a bounded corpus; repeated-axis bookkeeping proved for all ranks (shared kernel C01.P.diag)",
         "text": "Relations are generated from one template per corpus case with equal axis lengths and 1s forced; only the diagonal kernel is unbounded - bounded exploration.",
         "note": P_NOTE + B_NOTE + "Relations are not applied across '+' (block order is positional) or '...'."},
 "C13": {"level": "other", "technique": "contracts on _call_tensorfactory/_assert_output as run-time contracts with recording factories (bounded); keyword-forwarding predicate decided completely over its finite domain; control-flow rule on api.inner",
         "text": "use_parameter is evaluated on the real _call_tensorfactory for all 128 signature classes (complete); that the compiled function - the only holder of the concrete factory - runs only after the graph test is a syntactic rule; call counts, shapes, keywords, warm/cold equality and rejection of misbehaving outputs are bounded run-time contracts.",
         "note": B_NOTE},
 "C14": {"level": "other", "technique": "postcondition = explicit loop over all index combinations + frame (nothing else changes), evaluated as a run-time contract on a bounded update corpus",
         "text": "No unbounded kernel is claimed for C14 in this version (the ravel arithmetic kernel of DESIGN §3 is not built); the explicit-loop postcondition is evaluated on update templates incl. duplicates, missing/extra axes, repeated bracket names and permuted update axes of equal length.",
         "note": B_NOTE},
 "C15": {"level": "exploration", "technique": "run-time contracts on the adapter entry points with argument-recording user functions (bounded); finite keyword-only predicate checked completely",
         "text": "Values vs the loop interpreter with the same numpy function, call count, axis= argument, equal-rank broadcastable arguments, keyword-only forwarding across cache hits, name clashes and wrong outputs; adapt_with_vmap is NOT decided (no framework with vmap importable).",
         "note": B_NOTE},
})
CHECKS.update({
 "C04": {"level": "other", "technique": "postcondition of compile(): syntactic flow rule (returned text = exec'ed text) + input-independent term equality between the renamed-apart generated text and the IR graph + execution of the returned text in an empty namespace vs a reference IR interpreter (bounded)",
         "text": "E6 is a rule over the real compile()/api.inner; E1-E5 are evaluated for every graph compiled while running the corpus and for random synthetic graphs over all IR node types: term equality holds for all inputs of each graph, so the bound is on graphs, not on data.",
         "note": B_NOTE + "Trusted: reference interpreter and term comparator (written for this check); x[(k,)] = x[k]. The name-generator kernel of DESIGN §3 (yield support) is not built: stress calls with up to 800 variable groups stand in."},
 "C06": {"level": "other", "technique": "context-stack contracts proved from the real AST (DependOn.__exit__, registry _enter/_exit; z3) + shared-state inventory rule + warm-vs-cold outcome equality on enumerated histories (bounded)",
         "text": "Balanced stacks are proved for all stack contents; 'no other call-time shared state' is a syntactic inventory; cache-key adequacy and the cache invariant are NOT proved (the Python value model kernel of DESIGN §3 is not built) - they are evaluated as equality of every pool call's outcome after a history with its outcome in a fresh interpreter.",
         "note": P_NOTE + B_NOTE + "Induction over histories on paper (Appendix A3); functools.cache trusted."},
})
CHECKS.update({
 "C02": {"level": "other", "technique": "certifying postcondition on solve_axes/solve_shapes/matches decided per call by a z3 constraint oracle (bounded corpus) + syntactic rule 'no fixed-width size arithmetic' + large-magnitude stratum",
         "text": "For each generated system the oracle decides unique / none / ambiguous on the reported quantities and the propagation criterion decides 'must succeed'; einx's answer must agree. Exactness beyond 2**31 is a rule over the real size arithmetic plus calls with products up to 2**180.",
         "note": B_NOTE + "z3 trusted as oracle (unknown systems skipped and counted); sympy is not verified, only its answers; ellipsis-rank solving is covered through C07/C01 only."},
})
NOT_APPLICABLE = {}
