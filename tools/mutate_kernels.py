"""developer tool: break each late kernel's function on purpose (one single-line change per kernel, in a scratch worktree of /repo that is removed afterwards) and check that an
obligation of that kernel fails. Usage: .venv/bin/python tools/mutate_kernels.py   (about 10 minutes; prints DETECTED / MISSED per kernel; see DESIGN 7.11)"""
import subprocess, sys, os
KW="/tmp/vf_mutate_kernels_wt"
subprocess.run(["git","-C","/repo","worktree","remove","--force",KW],capture_output=True)
subprocess.run(["git","-C","/repo","worktree","add","-q","--detach",KW,"HEAD"],check=True)
CASES=[
 ("einx/_src/frontend/backend.py", "            if not changed or name not in self.name_to_backend:", "            if not changed and name not in self.name_to_backend:", "c11_names", "by_name"),
 ("einx/_src/adapter/_util.py", "        tensor, out_indices[i] = classical.divmod(tensor, s)", "        out_indices[i], tensor = classical.divmod(tensor, s)", "c01_unravel", "unravel[rank=2]"),
 ("einx/_src/adapter/numpy/classical_from_numpy.py", "(slice(None),) * (x.ndim - axis - 1))", "(slice(None),) * (x.ndim - axis))", "c01_numpy_wrappers2", "np_get_at"),
 ("einx/_src/adapter/numpy/classical_from_numpy.py", "        if len(tensors) != 2:\n            raise OperationNotSupportedError(\"dot", "        if len(tensors) < 2:\n            raise OperationNotSupportedError(\"dot", "c01_numpy_wrappers2", "np_dot[3"),
 ("einx/_src/tracer/compiler/python/scope.py", "            elif scope.is_predecessor_of(scope2):\n                scope = scope2\n            elif scope2.is_predecessor_of(scope):\n                pass\n            else:\n                raise ValueError(f\"Scopes {scope} and {scope2} are not in a predecessor relationship, cannot determine common scope.\")\n        return scope\n\n    def __getitem__", "            elif scope.is_predecessor_of(scope2):\n                pass\n            elif scope2.is_predecessor_of(scope):\n                scope = scope2\n            else:\n                raise ValueError(f\"Scopes {scope} and {scope2} are not in a predecessor relationship, cannot determine common scope.\")\n        return scope\n\n    def __getitem__", "c04_scope", "common_scope"),
 ("einx/_src/adapter/namedtensor_calltensorfactory.py", "args=[shape], kwargs=kwargs)", "args=[shape, shape], kwargs=kwargs)", "c13_call", "shape_only"),
 ("einx/_src/tracer/signature/classical/functions.py", "                    in_shape = in_shape[1:]\n                elif k == slice(None)", "                    pass\n                elif k == slice(None)", "c01_shapes2", "one index"),
 ("einx/_src/frontend/backend.py", "            if name not in self.ops:\n                raise OperationNotSupportedError", "            if name in self.ops:\n                raise OperationNotSupportedError", "c01_backend_getattr", "backend_op"),
 ("einx/_src/adapter/einx_from_namedtensor.py", "for tensor in [t for t in tensors[1:] if t.shape is not None]", "for tensor in [t for t in tensors if t.shape is not None]", "c03_zerosized", "zerosized_shortcut"),
 ("einx/_src/frontend/api.py", "return tracer.signature.classical.ConvertibleTensor(None, shape=(), concrete", "return tracer.signature.classical.ConvertibleTensor(None, shape=(1,), concrete", "c06_to_tracer", "to_tracer"),
 ("einx/_src/frontend/api.py", "graph = tracer.optimize(graph, optimizations=backend.optimizations)", "graph = tracer.optimize(graph, optimizations=[])", "c04_api_inner", "construct_graph"),
 ("einx/_src/tracer/graph.py", "        if self.name != other.name:\n            return False\n", "", "c06_graph", "key_graph"),
 ("einx/_src/adapter/numpy/classical_from_numpy.py", "        if num_args is not None and len(xs) != num_args:", "        if num_args is not None and len(xs) < num_args:", "c09_np_elementwise", "3 operands, arity 2"),
 ("einx/_src/adapter/_util.py", "        for y in args[1:]:\n            x = binary_op(x, y)", "        for y in args[2:]:\n            x = binary_op(x, y)", "c09_nary", "nary_fold"),
 ("einx/_src/adapter/numpy/classical_from_numpy.py", "            kwargs[\"axis\"] = tuple(kwargs[\"axis\"])", "            kwargs[\"axis\"] = list(kwargs[\"axis\"])", "c01_preserve_shape", "axis list2]"),
 ("einx/_src/namedtensor/stage3/transform.py", "        if expr.parent is None:\n            return False\n        expr = expr.parent\n", "        if expr.parent is None:\n            return False\n", "c01_parent_walk", "any_parent_is[ancestors only]"),
 ("einx/_src/frontend/backend.py", "        except Exception:\n            backend = InvalidBackend(", "        except ImportError:\n            backend = InvalidBackend(", "c11_names", "run_factory"),
 ("einx/_src/tracer/signature/python.py", "    return Call(func, args, kwargs, list(tracer.get_additional_dependencies())).output", "    return Call(func, args, kwargs, []).output", "c04_call_nodes", "C04.P.call"),
 ("einx/_src/util/lru_cache.py", "        return x.value\n", "        return x\n", "c06_freeze", "unwrap[typed]"),
 ("einx/_src/frontend/api.py", "        return function(*tensor_args)\n        except Exception as e:\n            raise CallOperationError.create(e, code) from e\n\n    return inner\n\n\ndef _api_withbackend", "        return function(*args)\n        except Exception as e:\n            raise CallOperationError.create(e, code) from e\n\n    return inner\n\n\ndef _api_withbackend", "c04_api_inner", "api_entry[run]"),
]
env=dict(os.environ, EINX_VERIF_REPO=KW, PYTHONPATH=KW, PYTHONHASHSEED="0")
for f, old, new, mod, filt in CASES:
    p=os.path.join(KW,f); s=open(p).read()
    if old not in s:
        print("ANCHOR-MISSING", f, old[:40].replace("\n","|")); continue
    open(p,"w").write(s.replace(old,new,1))
    try:
        r=subprocess.run(["/verif/.venv/bin/python","-m","tools.runk",mod,filt],capture_output=True,text=True,env=env,cwd="/verif",timeout=900)
        heads=[l for l in r.stdout.splitlines() if l.startswith("==")]
        bad=[l for l in r.stdout.splitlines() if "<<<<" in l]
        det = bool(bad) or any("failures=[{" in h or "out_of_subset" in h or "unbound" in h for h in heads)
        print(("DETECTED " if det else "MISSED   ")+f"{mod}:{filt}", "|", (bad[0].strip()[:110] if bad else (heads[0][:150] if heads else r.stderr[-200:])))
    finally:
        open(p,"w").write(s)

subprocess.run(["git","-C","/repo","worktree","remove","--force",KW],capture_output=True)
