#!/bin/bash
# tools/mutation_matrix.sh [ids...] : run every seeded change against the check of its own property (and extra checks listed in extra_checks.txt)
# in scratch worktrees of /repo (never touching /repo itself); writes seeded/RESULTS.tsv
cd "$(dirname "$0")/.."
IDS=${@:-$(ls seeded | grep -E "^C[0-9]+-[A-Z]$")}
OUT=${OUT:-seeded/RESULTS.tsv}; TMP=$(mktemp -d /tmp/mm.XXXX)
run_one() {
  id=$1; prop=${id%%-*}; W=/tmp/mm_wt_$id
  git -C /repo worktree remove --force $W 2>/dev/null; rm -rf $W
  git -C /repo worktree add -q --detach $W HEAD || { echo -e "$id\t$prop\tworktree-failed"; return; }
  if ! git -C $W apply $PWD/seeded/$id/patch.diff 2>/dev/null; then echo -e "$id\t$prop\tpatch-does-not-apply"; git -C /repo worktree remove --force $W; return; fi
  checks="$prop $(grep "^$id " seeded/extra_checks.txt 2>/dev/null | cut -d' ' -f2-)"
  for c in $checks; do
    o=$(EINX_VERIF_REPO=$W EINX_VERIF_OUT=$TMP/$id ./check $c 2>&1); rc=$?
    v=$(echo "$o" | grep -c '^VIOLATION'); obl=$(echo "$o" | grep '^VIOLATION' | sed 's/.*obligation=//' | cut -c1-70 | tr '\n' ';')
    echo -e "$id\t$c\texit=$rc\tviolations=$v\t$obl"
  done
  git -C /repo worktree remove --force $W
}
export -f run_one
printf "%s\n" $IDS | xargs -P 3 -I{} bash -c 'run_one {}' | sort > $TMP/res.tsv
cp $TMP/res.tsv $OUT; rm -rf $TMP; cat $OUT
