#!/bin/bash
# developer command: re-record the obligation baseline and the proof ledger for every property (run on an idle machine after changing the generator or a contract)
cd "$(dirname "$0")/.."
for p in C01 C02 C03 C04 C05 C06 C07 C08 C09 C10 C11 C12 C13 C14 C15 C16 C17; do ./check $p --rebaseline 2>&1 | grep -E "baseline|ledger|^OK|VIOLATION|CHECKER"; done
