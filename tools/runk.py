"""developer tool: .venv/bin/python -m tools.runk <kernel module> [kernel id substring] [--tier thorough]  - run single kernels and print every obligation"""
import importlib
import sys
from vf.kernels.base import run_kernel


def main():
    args = [a for a in sys.argv[1:] if not a.startswith("--")]
    tier = "thorough" if "--tier=thorough" in sys.argv else "quick"
    mod = importlib.import_module("vf.kernels." + args[0])
    rc = 0
    for k in mod.KERNELS:
        if len(args) > 1 and args[1] not in k.id:
            continue
        r = run_kernel(k, tier)
        print(f"== {k.id} status={r.status} {r.detail} obligations={r.n} discharged={r.discharged} cover={r.cover_ok} canary={r.canary_ok} twin={r.twin_evals} failures={r.failures} solver_s={r.solver_s:.2f} {getattr(r, 'twin_error', '')}")
        for o in r.obligations:
            flag = "" if o["verdict"] == "unsat" else "   <<<<<<"
            print(f"   {o['verdict']:8s} {o['backend']:5s} {o['seconds']:6.2f}s {o['name']}{flag}")
            if o["verdict"] == "sat" and "--model" in sys.argv:
                print("      model:", o.get("model", "")[:1500])
        if r.info:
            print("   abstracted:", r.info.get("abstracted"))
            print("   assumed:", r.info.get("assumed"))
        if r.status != "ok" or r.undecided() or r.failures:
            rc = 1
    return rc


if __name__ == "__main__":
    sys.exit(main())
