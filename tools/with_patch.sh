#!/bin/bash
# tools/with_patch.sh <patch.diff> <command...> : apply a seeded change to /repo, run the command, always undo it
P="$1"; shift
git -C /repo diff --quiet || { echo "/repo has local changes" >&2; exit 9; }
git -C /repo apply "$P" || exit 9
trap 'git -C /repo checkout -- . ' EXIT
"$@"
