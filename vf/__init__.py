"""Contract-based verification machinery for fferflo/einx (see /verif/DESIGN.md)."""
import os

# the tree under verification; EINX_VERIF_REPO is only used by tools/mutation_matrix.sh to point the checks at a scratch worktree
REPO = os.environ.get("EINX_VERIF_REPO", "/repo")
