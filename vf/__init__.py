"""Contract-based verification machinery for fferflo/einx (see /verif/DESIGN.md)."""
REPO = "/repo"
