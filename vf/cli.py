"""./check <property-id> [--tier quick|thorough] [--replay file] [--rebaseline]"""
import argparse
import importlib
import json
import os
import sys
import traceback
from . import report


def main():
    ap = argparse.ArgumentParser()
    ap.add_argument("prop")
    ap.add_argument("--tier", default=os.environ.get("VERIF_TIER", "quick"))
    ap.add_argument("--replay")
    ap.add_argument("--rebaseline", action="store_true", help="developer command: record the obligations discharged now as the baseline")
    a = ap.parse_args()
    seed = int(os.environ.get("VERIF_SEED", "0") or 0)
    tier = a.tier if a.tier in ("quick", "thorough") else "quick"
    try:
        mod = importlib.import_module(f"vf.props.{a.prop}")
    except ModuleNotFoundError as e:
        print(f"no check for {a.prop}: {e}", file=sys.stderr)
        return 3
    if a.replay:
        return replay(a.prop, a.replay)
    try:
        chk = mod.run(tier, seed)
    except Exception:
        traceback.print_exc()
        print(f"CHECKER-ERROR property={a.prop} checker crashed (no verdict)")
        return 3
    if a.rebaseline:
        b = report.load_baseline()
        b[a.prop] = sorted({o["name"] for r in chk.kernels for o in r.obligations if o["verdict"] == "unsat"})
        os.makedirs(os.path.dirname(report.BASELINE), exist_ok=True)
        json.dump(b, open(report.BASELINE, "w"), indent=1)
        print(f"baseline for {a.prop}: {len(b[a.prop])} obligation names")
        from .kernels import base as kb
        led = dict(kb.load_ledger())
        mine = {r.kernel.id for r in chk.kernels}
        stale = [key for key, e in led.items() if e.get("kernel") in mine and e.get("recorded_by") == a.prop]
        for key in stale:
            del led[key]
        nnew = 0
        for r in chk.kernels:
            for o in r.obligations:
                if o["verdict"] == "unsat" and not o.get("from_ledger") and o.get("ledger_key"):
                    led[o["ledger_key"]] = {"kernel": r.kernel.id, "obligation": o["name"], "backend": o["backend"], "seconds": o["seconds"], "recorded_by": a.prop}
                    nnew += 1
        json.dump(led, open(kb.LEDGER, "w"), indent=0, sort_keys=True)
        print(f"proof ledger: {nnew} refuted VCs recorded for {a.prop} ({len(led)} in total)")
    cmd = f"./check {a.prop} --tier {tier}"
    return chk.finish(cmd)


def replay(prop, path):
    r = json.load(open(path if os.path.isabs(path) else os.path.join(report.ROOT, path)))
    rp = r.get("replay") or {}
    print(f"replay of {r['obligation']}: {r['detail']}")
    if rp.get("kind") in ("twin", "case"):
        fn = rp.get("case", {}).get("replay")
        if fn:
            m, f = fn["fn"].split(":")
            res = getattr(importlib.import_module(m), f)(*fn.get("args", []), **fn.get("kwargs", {}))
            if res:
                print(f"REPRODUCED on the current tree: {res}")
                print(f"VIOLATION property={prop} replay={path}")
                return 1
            print("not reproduced on the current tree")
            return 0
    print("no concrete input recorded for this obligation (no-failing-input-found); re-run the check to re-evaluate it")
    print(json.dumps(r.get("verifier_output"), indent=1)[:3000])
    return 0


if __name__ == "__main__":
    sys.exit(main())
