"""Grammar-directed call corpus (DESIGN §2.6): templates (structure) are separated from size assignments, so that the same template can be
re-instantiated at scaled sizes (C17) and transformed (C07/C08). The expected value comes from the loop interpreter in spec/notation.py.
Deterministic in (seed, index): no set iteration, own random.Random."""
import collections
import itertools
import math
import random
import numpy as np
from .spec.notation import atoms, to_str, shape_of, loop_eval, id_eval, size_env

NAMES = list("abcde")
SIZE_POOLS = [[2, 3, 4], [2, 2, 3], [1, 2, 3], [3, 3, 3], [1, 1, 2], [2, 3, 5], [2, 2, 2]]


class Case:
    def __init__(self, fam, op, desc, tensors, kwargs, expect, exact=True, backends=("numpy", "numpy.numpylike", "numpy.einsum"), compare=None, meta=None, n_out=1):
        self.fam, self.op, self.desc, self.tensors, self.kwargs = fam, op, desc, tensors, kwargs
        self.expect, self.exact, self.backends, self._compare, self.meta, self.n_out = expect, exact, backends, compare, meta or {}, n_out

    def key(self):
        return (self.op, self.desc, tuple(getattr(t, "shape", ()) for t in self.tensors), tuple(sorted((k, str(v)) for k, v in self.kwargs.items())))

    def compare(self, got):
        """None if `got` agrees with the loop-notation meaning, else a description"""
        if self._compare is not None:
            return self._compare(got)
        exp = self.expect()
        if self.n_out > 1 or isinstance(exp, (list, tuple)):
            if not isinstance(got, (list, tuple)) or len(got) != len(exp):
                return f"expected {len(exp)} outputs"
            for g, e in zip(got, exp):
                r = cmp_arrays(g, e, self.exact)
                if r:
                    return r
            return None
        return cmp_arrays(got, exp, self.exact)

    def describe(self):
        return {"op": self.op, "description": self.desc, "shapes": [list(getattr(t, "shape", ())) for t in self.tensors], "kwargs": {k: (v if isinstance(v, (int, float, bool, str)) else str(v)) for k, v in self.kwargs.items()}}


def cmp_arrays(got, exp, exact):
    got = np.asarray(got)
    exp = np.asarray(exp)
    if got.shape != exp.shape:
        return f"shape {got.shape} vs expected {exp.shape}"
    if exp.dtype == object:
        try:
            exp = np.array(exp.tolist())
        except Exception:
            pass
    if exact:
        try:
            ok = np.array_equal(got, exp.astype(got.dtype)) and np.array_equal(got.astype(float) if got.dtype != bool else got, exp.astype(float) if exp.dtype != bool else exp)
        except (TypeError, ValueError):
            ok = np.array_equal(got, exp)
    else:
        ok = np.allclose(got.astype(float), exp.astype(float), rtol=1e-6, atol=1e-9)
    if ok:
        return None
    return f"values differ: got {np.asarray(got).ravel()[:6].tolist()} expected {np.asarray(exp).ravel()[:6].tolist()}"


class Gen:
    def __init__(self, seed):
        self.rng = random.Random(seed)

    # ---- helpers
    def shuffled(self, xs):
        xs = list(xs)
        self.rng.shuffle(xs)
        return xs

    def sizes_for(self, names):
        pool = self.rng.choice(SIZE_POOLS)
        return {n: self.rng.choice(pool) for n in names}

    def gen_dims(self, names, depth=1, brackets=(), p_flat=0.3):
        dims, names = [], list(names)
        while names:
            if depth > 0 and len(names) >= 2 and self.rng.random() < p_flat:
                k = self.rng.randint(2, min(3, len(names)))
                sub = [names.pop(0) for _ in range(k)]
                dims.append(("flat", [("ax", n, n in brackets) for n in sub]))
            else:
                n = names.pop(0)
                dims.append(("ax", n, n in brackets))
        return dims

    def kw_for(self, ins, sizes):
        kw = {}
        for d in ins:
            for dim in d:
                if dim[0] == "flat":
                    at = [a for a, _ in atoms(dim[1])]
                    for a in at[1:]:
                        kw[a] = sizes[a]
        return kw

    def data(self, shape, kind="int"):
        rng = self.rng
        n = int(np.prod(shape)) if len(shape) else 1
        if n > 1_000_000:
            raise ValueError(f"corpus tensor of {n} elements: beyond the corpus bound (callers skip this size assignment)")
        if n > 400:
            nr = np.random.RandomState(rng.randrange(2 ** 31))
            if kind in ("int", "posint"):
                v = nr.randint(-50, 400, size=n).astype(np.int64)
                v = np.abs(v) + 1 if kind == "posint" else v
                return v.reshape(shape)
            if kind in ("float", "pos"):
                return (nr.uniform(-2, 2, size=n) if kind == "float" else nr.uniform(0.5, 2, size=n)).reshape(shape)
            if kind == "bool":
                return (nr.rand(n) < 0.5).reshape(shape)
        if kind == "int":
            v = np.array(rng.sample(range(-50, 400), n) if n <= 400 else [rng.randint(-50, 400) for _ in range(n)], dtype=np.int64)
        elif kind == "float":
            v = np.array([rng.uniform(-2, 2) for _ in range(n)])
        elif kind == "bool":
            v = np.array([rng.random() < 0.5 for _ in range(n)])
        elif kind == "pos":
            v = np.array([rng.uniform(0.5, 2) for _ in range(n)])
        elif kind == "posint":
            v = np.abs(self.data((n,), "int")) + 1
        elif kind == "smallint":
            v = (self.data((n,), "int") % 3) + 1
        return v.reshape(shape)

    # ---- families ------------------------------------------------------------------------------------------------
    ELW = {"add": (lambda *a: sum(a[1:], a[0]), "int", None), "subtract": (lambda a, b: a - b, "int", 2), "multiply": (lambda *a: math.prod(a[1:], start=a[0]), "int", None),
           "maximum": (lambda *a: max(a), "int", None), "minimum": (lambda *a: min(a), "int", None), "less": (lambda a, b: a < b, "int", 2), "less_equal": (lambda a, b: a <= b, "int", 2),
           "greater": (lambda a, b: a > b, "int", 2), "greater_equal": (lambda a, b: a >= b, "int", 2), "equal": (lambda a, b: a == b, "int", 2), "not_equal": (lambda a, b: a != b, "int", 2),
           "floor_divide": (lambda a, b: a // b, "posint", 2), "true_divide": (lambda a, b: a / b, "pos", 2), "divide": (lambda a, b: a / b, "pos", 2),
           "logical_and": (lambda *a: all(a), "bool", None), "logical_or": (lambda *a: any(a), "bool", None), "logaddexp": (lambda *a: math.log(sum(math.exp(x) for x in a)), "float", None)}
    RED = {"sum": (np.sum, "int"), "prod": (np.prod, "smallint"), "max": (np.max, "int"), "min": (np.min, "int"), "mean": (np.mean, "float"), "var": (np.var, "float"), "std": (np.std, "float"),
           "any": (np.any, "bool"), "all": (np.all, "bool"), "count_nonzero": (np.count_nonzero, "bool"), "logsumexp": (lambda x: math.log(np.sum(np.exp(x.astype(float)))), "float")}

    def t_elw(self):
        rng = self.rng
        k = rng.randint(1, 4)
        names = NAMES[:k]
        op = rng.choice(sorted(self.ELW))
        f, kind, ar = self.ELW[op]
        nin = ar or rng.randint(2, 3)
        out_names = self.shuffled(names)
        ins = [self.gen_dims(self.shuffled(rng.sample(names, rng.randint(0, k)))) for _ in range(nin)]
        out = self.gen_dims(out_names)
        implicit = False
        # omitted output: allowed when exactly one input contains all names (generator makes input 0 the full one)
        if rng.random() < 0.25:
            ins[0] = self.gen_dims(self.shuffled(names))
            others_ok = all(set(a for a, _ in atoms(d)) < set(names) or len(list(atoms(d))) < k for d in ins[1:])
            if others_ok and all(len(set(a for a, _ in atoms(d))) < k for d in ins[1:]):
                implicit = True
                out = ins[0]

        def inst(sizes, g):
            kw = g.kw_for(ins, sizes)
            used = {a for d in ins for a, _ in atoms(d)}
            for n in out_names:
                if n not in used:
                    kw[n] = sizes[n]
            desc = ", ".join(to_str(d) for d in ins) + ("" if implicit else " -> " + to_str(out))
            ts = [g.data(shape_of(d, sizes), kind) for d in ins]
            exp = lambda: loop_eval(lambda *a: f(*[x.item() if hasattr(x, "item") else x for x in a]), list(zip(ts, ins)), out, sizes)  # noqa
            return Case("elementwise", op, desc, ts, kw, exp, exact=kind in ("int", "bool", "posint"), backends=("numpy", "numpy.numpylike") + (("numpy.einsum",) if op == "multiply" else ()))

        return names, inst

    def t_where(self):
        rng = self.rng
        k = rng.randint(1, 3)
        names = NAMES[:k]
        out_names = self.shuffled(names)
        ins = [self.gen_dims(self.shuffled(rng.sample(names, rng.randint(0, k)))) for _ in range(3)]
        out = self.gen_dims(out_names)

        def inst(sizes, g):
            kw = g.kw_for(ins, sizes)
            used = {a for d in ins for a, _ in atoms(d)}
            for n in out_names:
                if n not in used:
                    kw[n] = sizes[n]
            desc = ", ".join(to_str(d) for d in ins) + " -> " + to_str(out)
            ts = [g.data(shape_of(ins[0], sizes), "bool"), g.data(shape_of(ins[1], sizes), "int"), g.data(shape_of(ins[2], sizes), "int")]
            return Case("elementwise", "where", desc, ts, kw, lambda: loop_eval(lambda c, a, b: (a if c else b), list(zip(ts, ins)), out, sizes), backends=("numpy", "numpy.numpylike"))

        return names, inst

    def t_red(self):
        rng = self.rng
        k = rng.randint(1, 4)
        names = NAMES[:k]
        op = rng.choice(sorted(self.RED))
        f, kind = self.RED[op]
        br = set(rng.sample(names, rng.randint(1, k)))
        din = self.gen_dims(self.shuffled(names), brackets=br)
        rest = [n for n in names if n not in br]
        mode = rng.choice(["explicit", "implicit", "nobracket", "keepdims"])

        def strip(dims, keep1=False):
            o = []
            for d in dims:
                if d[0] == "ax":
                    if not d[2]:
                        o.append(d)
                    elif keep1:
                        o.append(("num", 1, False, f"k{d[1]}"))
                else:
                    o.append(("flat", strip(d[1], keep1)))
            return o

        if mode == "implicit":
            out = strip(din)
        elif mode == "keepdims":
            out = strip(din, keep1=True)
        else:
            out = self.gen_dims(self.shuffled(rest))

        def inst(sizes, g):
            kw = g.kw_for([din], sizes)
            if mode in ("implicit", "keepdims"):
                desc = to_str(din)
            elif mode == "nobracket":
                unb = [(d[0], d[1], False) if d[0] == "ax" else ("flat", [("ax", a[1], False) for a in d[1]]) for d in din]
                desc = to_str(unb) + " -> " + to_str(out)
            else:
                desc = to_str(din) + " -> " + to_str(out)
            kw2 = dict(kw, keepdims=True) if mode == "keepdims" else kw
            x = g.data(shape_of(din, sizes), kind)
            cast = (lambda s: s.astype(float)) if kind == "float" else (lambda s: s.astype(np.int64)) if kind in ("int", "smallint") else (lambda s: s.astype(bool))
            exp = lambda: loop_eval(lambda s: f(cast(np.asarray(s))), [(x, din)], out, sizes)  # noqa
            return Case("reduce", op, desc, [x], kw2, exp, exact=kind in ("int", "bool", "smallint"), backends=("numpy", "numpy.numpylike") + (("numpy.einsum",) if op == "sum" else ()))

        return names, inst

    def t_dot(self):
        rng = self.rng
        k = rng.randint(2, 4)
        names = NAMES[:k]
        con = set(rng.sample(names, rng.randint(1, max(1, k - 1))))
        n1 = [n for n in names if n in con or rng.random() < 0.6]
        n2 = [n for n in names if n in con or n not in n1 or rng.random() < 0.3]
        outn = [n for n in names if n not in con and (n in n1 or n in n2)]
        d1 = self.gen_dims(self.shuffled(n1), brackets=con)
        d2 = self.gen_dims(self.shuffled(n2), brackets=con)
        out = self.gen_dims(self.shuffled(outn))
        nobr = rng.random() < 0.3

        def unb(dims):
            return [(d[0], d[1], False) if d[0] == "ax" else ("flat", [("ax", a[1], False) for a in d[1]]) for d in dims]

        def inst(sizes, g):
            desc = (to_str(unb(d1)) + ", " + to_str(unb(d2)) if nobr else to_str(d1) + ", " + to_str(d2)) + " -> " + to_str(out)
            x, y = g.data(shape_of(d1, sizes), "int") % 7, g.data(shape_of(d2, sizes), "int") % 7
            kw = g.kw_for([d1, d2], sizes)

            def el(a, b):
                an = [t for t, br in atoms(d1) if br]
                bn = [t for t, br in atoms(d2) if br]
                tot = 0
                for vals in itertools.product(*[range(sizes[n]) for n in an]):
                    env = dict(zip(an, vals))
                    tot += int(np.asarray(a)[tuple(env[n] for n in an)]) * int(np.asarray(b)[tuple(env[n] for n in bn)])
                return tot

            return Case("dot", "dot", desc, [x, y], kw, lambda: loop_eval(el, [(x, d1), (y, d2)], out, sizes))

        return names, inst

    def t_pres(self):
        rng = self.rng
        k = rng.randint(1, 4)
        names = NAMES[:k]
        op = rng.choice(["flip", "roll", "sort", "argsort", "softmax", "log_softmax"])
        nb = 1 if op in ("sort", "argsort") else rng.randint(1, k)
        br = rng.sample(names, nb)
        din = self.gen_dims(self.shuffled(names), brackets=set(br))
        explicit = rng.random() < 0.5
        shift = rng.randint(-3, 3)

        def inst(sizes, g):
            desc = to_str(din) + (" -> " + to_str(din) if explicit else "")
            kw = g.kw_for([din], sizes)
            kind = "float" if "softmax" in op else "int"
            x = g.data(shape_of(din, sizes), kind)
            kw2 = dict(kw, shift=shift) if op == "roll" else kw

            def el(s):
                s = np.asarray(s.tolist()) if getattr(s, "dtype", None) == object else np.asarray(s)
                if op == "flip":
                    return np.flip(s)
                if op == "roll":
                    return np.roll(s, shift, axis=tuple(range(s.ndim)))
                if op == "sort":
                    return np.sort(s)
                if op == "argsort":
                    return np.argsort(s)
                e = np.exp(s - s.max())
                return e / e.sum() if op == "softmax" else (s - s.max()) - np.log(e.sum())

            return Case("preserve_shape", op, desc, [x], kw2, lambda: loop_eval(el, [(x, din)], din, sizes), exact=kind == "int", backends=("numpy", "numpy.numpylike"))

        return names, inst

    def t_argf(self):
        rng = self.rng
        k = rng.randint(1, 4)
        names = NAMES[:k]
        op = rng.choice(["argmax", "argmin"])
        nb = rng.randint(1, k)
        br = rng.sample(names, nb)
        din = self.gen_dims(self.shuffled(names), brackets=set(br), depth=0)
        rest = [a for a, b in atoms(din) if not b]
        pos = rng.randint(0, len(rest))
        with_br = nb > 1 or rng.random() < 0.5
        out = [("ax", n, False) for n in rest[:pos]] + ([("num", nb, True, "n")] if with_br else []) + [("ax", n, False) for n in rest[pos:]]

        def inst(sizes, g):
            desc = to_str(din) + " -> " + to_str(out)
            x = g.data(shape_of(din, sizes), "int")

            def el(s):
                s = np.asarray(s.tolist())
                i = (np.argmax if op == "argmax" else np.argmin)(s)
                u = np.unravel_index(i, s.shape)
                return np.array(u) if with_br else int(u[0])

            return Case("argfind", op, desc, [x], {}, lambda: loop_eval(el, [(x, din)], out, sizes), backends=("numpy", "numpy.numpylike"))

        return names, inst

    def t_index(self, fam):
        rng = self.rng
        k = rng.randint(1, 4)
        tnames = NAMES[:k]
        nb = rng.randint(1, 2)
        tb = rng.sample(tnames, min(nb, k))
        nb = len(tb)
        dt = self.gen_dims(self.shuffled(tnames), brackets=set(tb), depth=0)
        vnames = [n for n in tnames if n not in tb]
        extra = ["p"] if rng.random() < 0.8 else []
        cn = self.shuffled(rng.sample(vnames, rng.randint(0, len(vnames))) + extra)
        posn = rng.randint(0, len(cn))
        dc = [("ax", n, False) for n in cn[:posn]] + [("num", nb, True, "n")] + [("ax", n, False) for n in cn[posn:]]
        if nb == 1 and rng.random() < 0.4:
            dc = [d for d in dc if d[0] != "num"]
        has_n = any(d[0] == "num" for d in dc)
        if fam == "get_at":
            outn = self.shuffled(list(dict.fromkeys(vnames + cn)))
            out = [("ax", n, False) for n in outn]
            op = "get_at"
            un = None
        else:
            op = rng.choice(["set_at", "add_at", "subtract_at"])
            allv = list(dict.fromkeys(vnames + cn))
            un = self.shuffled(rng.sample(allv, rng.randint(0, len(allv))))
            out_explicit = rng.random() < 0.5
        psize = rng.choice([1, 2, 3])

        def inst(sizes, g):
            sizes = dict(sizes, p=sizes.get("p", psize))
            bsz = [sizes[a] for a, b in atoms(dt) if b]
            cshape = shape_of(dc, sizes)
            coords = np.zeros(cshape, dtype=np.int64)
            naxis = [i for i, d in enumerate(dc) if d[0] == "num"][0] if has_n else None
            for mi in np.ndindex(*cshape):
                comp = mi[naxis] if has_n else 0
                coords[mi] = g.rng.randrange(bsz[comp])
            cdesc = to_str(dc)
            if fam == "get_at":
                desc = to_str(dt) + ", " + cdesc + " -> " + to_str(out)
                x = g.data(shape_of(dt, sizes), "int")

                def el(t, c):
                    c = np.atleast_1d(np.asarray(np.asarray(c).tolist()))
                    return np.asarray(t)[tuple(int(v) for v in c)]

                return Case("get_at", "get_at", desc, [x, coords], {}, lambda: loop_eval(el, [(x, dt), (coords, dc)], out, sizes), backends=("numpy", "numpy.numpylike"))
            du = [("ax", n, False) for n in un]
            desc = to_str(dt) + ", " + cdesc + ", " + to_str(du) + (" -> " + to_str(dt) if out_explicit else "")
            x = g.data(shape_of(dt, sizes), "int")
            u = g.data(shape_of(du, sizes), "int")
            tn = [a for a, _ in atoms(dt)]
            tbr = [b for _, b in atoms(dt)]
            cnames = [d[1] for d in dc if d[0] == "ax"]

            def expfn():
                tt = np.asarray(x).reshape([sizes[n] for n in tn])
                res = tt.astype(np.int64).copy()
                cands = collections.defaultdict(list)
                loopn = list(dict.fromkeys([n for n, b in zip(tn, tbr) if not b] + cnames + un))
                for vals in itertools.product(*[range(sizes[n]) for n in loopn]):
                    env = dict(zip(loopn, vals))
                    cidx = tuple((slice(None) if d[0] == "num" else env[d[1]]) for d in dc)
                    cv = np.atleast_1d(coords[cidx])
                    uv = int(u[tuple(env[n] for n in un)])
                    ci = iter(cv)
                    tidx = tuple(int(next(ci)) if b else env[n] for n, b in zip(tn, tbr))
                    if op == "add_at":
                        res[tidx] += uv
                    elif op == "subtract_at":
                        res[tidx] -= uv
                    else:
                        cands[tidx].append(uv)
                return res, cands

            def compare(got):
                res, cands = expfn()
                got = np.asarray(got)
                if got.shape != shape_of(dt, sizes):
                    return f"shape {got.shape} vs {shape_of(dt, sizes)}"
                got = got.reshape(res.shape)
                if op == "set_at":
                    for i in np.ndindex(res.shape):
                        if i in cands:
                            if got[i] not in cands[i]:
                                return f"element {i} = {got[i]} is none of the competing updates {cands[i]}"
                        elif got[i] != res[i]:
                            return f"un-addressed element {i} changed from {res[i]} to {got[i]}"
                    return None
                return None if np.array_equal(got, res) else f"values differ: got {got.ravel()[:6].tolist()} expected {res.ravel()[:6].tolist()}"

            return Case("update_at", op, desc, [x, coords, u], {}, lambda: expfn()[0], compare=compare, backends=("numpy", "numpy.numpylike"), meta={"inplace_target": 0})

        return tnames + ["p"], inst

    # ---- id: the rich notation -------------------------------------------------------------------------------------
    def t_id(self):
        rng = self.rng
        k = rng.randint(1, 4)
        names = NAMES[:k]
        mode = rng.choice(["rearrange", "rearrange", "diag", "diag2", "concat_in", "concat_out", "ellipsis", "unit", "concat2"])
        if mode == "concat2":
            # two concatenated axes in one tensor: blocks pair with the other side's tensors in order, first '+' axis outermost
            A, Bn = ["p", "q"], ["r", "s"]
            rest = names[:1] if rng.random() < 0.5 else []
            whole = [("cat", [[("ax", n, False)] for n in A]), ("cat", [[("ax", n, False)] for n in Bn])] + [("ax", n, False) for n in rest]
            pieces = [[("ax", n, False) for n in self.shuffled([x, y] + rest)] for x in A for y in Bn]
            if rng.random() < 0.5:
                return A + Bn + rest, self._id_inst(pieces, [whole], [])
            return A + Bn + rest, self._id_inst([whole], pieces, [], cat_kw=[A[0], Bn[0], "__all__"])
        if mode == "rearrange":
            din = self.gen_dims(self.shuffled(names))
            extra = ["z"] if rng.random() < 0.3 else []
            out = self.gen_dims(self.shuffled(names + extra))
            return names + extra, self._id_inst([din], [out], extra)
        if mode == "unit":
            din = self.gen_dims(self.shuffled(names), depth=0)
            i = rng.randint(0, len(din))
            din2 = din[:i] + [("num", 1, False, "u1")] + din[i:]
            out = self.gen_dims(self.shuffled(names))
            j = rng.randint(0, len(out))
            out2 = out[:j] + ([("num", 1, False, "u2")] if rng.random() < 0.5 else []) + out[j:]
            return names, self._id_inst([din2], [out2], [])
        if mode == "diag":
            rep = rng.choice(names)
            base = self.shuffled(names)
            m = rng.randint(2, 3)
            pos = sorted(rng.sample(range(len(base) + m - 1), m - 1))
            seq = list(base)
            for q in pos:
                seq.insert(min(q, len(seq)), rep)
            din = [("ax", n, False) for n in seq]
            out = self.gen_dims(self.shuffled(names))
            return names, self._id_inst([din], [out], [])
        if mode == "diag2":
            # two different repeated names, possibly interleaved ('a b a b c'), with further axes around them
            k = max(k, 2)
            names = NAMES[:k]
            r1, r2 = rng.sample(names, 2)
            seq = self.shuffled(names)
            for rep in (r1, r2):
                for _ in range(rng.randint(1, 2)):
                    seq.insert(rng.randint(0, len(seq)), rep)
            din = [("ax", n, False) for n in seq]
            out = self.gen_dims(self.shuffled(names))
            return names, self._id_inst([din], [out], [])
        if mode in ("concat_in", "concat_out"):
            k = max(k, 2)
            names = NAMES[:k]
            parts = rng.randint(2, 3)
            shared = names[: k - 1] if k > 1 else []
            pn = [f"{c}" for c in "pqr"[:parts]]
            catpos = rng.randint(0, len(shared))
            whole = [("ax", n, False) for n in shared[:catpos]] + [("cat", [[("ax", p, False)] for p in pn])] + [("ax", n, False) for n in shared[catpos:]]
            pieces = []
            for p in pn:
                sh = self.shuffled(shared + [p])
                pieces.append([("ax", n, False) for n in sh])
            if mode == "concat_in":
                return shared + pn, self._id_inst(pieces, [whole], [])
            return shared + pn, self._id_inst([whole], pieces, [], cat_kw=pn)
        if mode == "ellipsis":
            reps = rng.randint(0, 3)
            style = rng.choice(["named", "anon"])
            ename = "s" if style == "named" else "_anon"
            others = names[:2]
            din = [("ax", others[0], False), ("ell", ename, reps, False)] + ([("ax", others[1], False)] if len(others) > 1 else [])
            outd = list(din)
            rng.shuffle(outd)
            if rng.random() < 0.4:
                outd = [d for d in outd if d[0] != "ell"] + [("flat", [d for d in outd if d[0] == "ell"])]
            enames = [f"{ename}.{i}" for i in range(reps)]
            return others + enames, self._id_inst([din], [outd], [])

    def _id_inst(self, ins, outs, out_only, cat_kw=()):
        def inst(sizes, g):
            kw = g.kw_for([d for d in ins if not any(x[0] == "cat" for x in d)], sizes)
            for n in out_only:
                kw[n] = sizes[n]
            for n in list(cat_kw)[:-1]:
                kw[n] = sizes[n]
            desc = ", ".join(to_str(d) for d in ins) + " -> " + ", ".join(to_str(d) for d in outs)
            ts = [g.data(shape_of(d, sizes), "int") for d in ins]

            def exp():
                r = id_eval(list(zip(ts, ins)), outs, sizes)
                return r if len(outs) > 1 else r[0]

            return Case("id", "id", desc, ts, kw, exp, n_out=len(outs))

        return inst

    # ---- driver -----------------------------------------------------------------------------------------------------
    FAMS = ["elw", "red", "dot", "get_at", "upd", "pres", "argf", "where", "id", "id"]

    def template(self, fam=None):
        fam = fam or self.rng.choice(self.FAMS)
        if fam == "elw":
            return fam, self.t_elw()
        if fam == "where":
            return fam, self.t_where()
        if fam == "red":
            return fam, self.t_red()
        if fam == "dot":
            return fam, self.t_dot()
        if fam == "pres":
            return fam, self.t_pres()
        if fam == "argf":
            return fam, self.t_argf()
        if fam == "get_at":
            return fam, self.t_index("get_at")
        if fam == "upd":
            return fam, self.t_index("upd")
        return fam, self.t_id()

    def case(self, fam=None):
        fam, (names, inst) = self.template(fam)
        sizes = self.sizes_for(names)
        return inst(sizes, self)


def corpus(seed, n, fams=None):
    g = Gen(seed)
    seen, out = set(), []
    tries = 0
    while len(out) < n and tries < 20 * n:
        tries += 1
        try:
            c = g.case(g.rng.choice(fams) if fams else None)
        except (ValueError, IndexError) as e:  # generator corner (e.g. empty sample): skip, counted by caller through len()
            continue
        k = c.key()
        if k in seen:
            continue
        seen.add(k)
        out.append(c)
    return out
