"""Level S: frame / ownership / determinism / template obligations decided by a syntactic rule over the real AST (DESIGN §2.4).
Every rule returns (ok, sites, failing) where a site is 'file:line:what'."""
import ast
import glob
import os
from . import REPO

SRC = os.path.join(REPO, "einx", "_src")


def parse(rel):
    p = os.path.join(REPO, rel)
    return ast.parse(open(p).read()), p


def all_files():
    return sorted(glob.glob(os.path.join(SRC, "**", "*.py"), recursive=True))


def rel(p):
    return os.path.relpath(p, REPO)


def parents(tree):
    par = {}
    for n in ast.walk(tree):
        for c in ast.iter_child_nodes(n):
            par[c] = n
    return par


def root_name(e):
    while isinstance(e, (ast.Attribute, ast.Subscript, ast.Call)):
        e = e.value if not isinstance(e, ast.Call) else e.func
    return e.id if isinstance(e, ast.Name) else None


def find_class(tree, name):
    for n in ast.walk(tree):
        if isinstance(n, ast.ClassDef) and n.name == name:
            return n
    return None


def find_func(tree, name):
    for n in ast.walk(tree):
        if isinstance(n, (ast.FunctionDef,)) and n.name == name:
            return n
    return None


# ---------------------------------------------------------------------------------------------- R-lock / R-snapshot (C10)
def rule_lock():
    """every store to self.state in BackendRegistry (outside __init__) is lexically inside `with self.use_lock:` and the stored value is
    computed from a read of self.state inside the same with-block (atomic read-modify-write)."""
    tree, p = parse("einx/_src/frontend/backend.py")
    cls = find_class(tree, "BackendRegistry")
    sites, failing = [], []
    if cls is None:
        return False, [], ["einx/_src/frontend/backend.py: class BackendRegistry not found"]
    par = parents(cls)
    for fn in cls.body:
        if not isinstance(fn, ast.FunctionDef) or fn.name == "__init__":
            continue
        for n in ast.walk(fn):
            if isinstance(n, (ast.Assign, ast.AugAssign)):
                tgts = n.targets if isinstance(n, ast.Assign) else [n.target]
                flat = []
                for t in tgts:
                    flat += [e for e in ast.walk(t) if isinstance(e, ast.Attribute)]
                if not any(ast.unparse(t) == "self.state" for t in flat):
                    continue
                site = f"{rel(p)}:{n.lineno}:BackendRegistry.{fn.name}"
                sites.append(site)
                w = n
                lock = None
                while w in par:
                    w = par[w]
                    if isinstance(w, ast.With) and any(ast.unparse(i.context_expr) == "self.use_lock" for i in w.items):
                        lock = w
                        break
                reads_inside = lock is not None and "self.state" in ast.unparse(n.value)
                if lock is None or not reads_inside:
                    failing.append(site + (" (store outside `with self.use_lock`)" if lock is None else " (value not computed from self.state inside the lock)"))
        # reads of self.state outside the lock that flow to a return are fine (snapshots are immutable), writes are what matters
    if not sites:
        failing.append(f"{rel(p)}: no store to self.state found (contract unbound)")
    # the lock itself must be a threading lock created once in __init__
    init = [f for f in cls.body if isinstance(f, ast.FunctionDef) and f.name == "__init__"]
    ok_lock = init and any(isinstance(n, ast.Assign) and ast.unparse(n.targets[0]) == "self.use_lock" and ast.unparse(n.value) in ("threading.Lock()", "threading.RLock()") for n in ast.walk(init[0]))
    if not ok_lock:
        failing.append(f"{rel(p)}: self.use_lock is not a threading.Lock()/RLock() created in __init__")
    return not failing, sites, failing


def rule_snapshot():
    """mutating underscore methods of BackendRegistryState are called only on objects freshly created by BackendRegistryState(self) in the same
    function (published snapshots are never mutated), or on self from within other underscore methods."""
    tree, p = parse("einx/_src/frontend/backend.py")
    cls = find_class(tree, "BackendRegistryState")
    sites, failing = [], []
    mut = {f.name for f in cls.body if isinstance(f, ast.FunctionDef) and f.name.startswith("_") and not f.name.startswith("__")}
    for fn in cls.body:
        if not isinstance(fn, ast.FunctionDef) or fn.name.startswith("_"):
            continue
        fresh = {t.id for n in ast.walk(fn) if isinstance(n, ast.Assign) and ast.unparse(n.value) == "BackendRegistryState(self)" for t in n.targets if isinstance(t, ast.Name)}
        for n in ast.walk(fn):
            if isinstance(n, ast.Call) and isinstance(n.func, ast.Attribute) and n.func.attr in mut:
                site = f"{rel(p)}:{n.lineno}:{fn.name}->{n.func.attr}"
                sites.append(site)
                if not (isinstance(n.func.value, ast.Name) and n.func.value.id in fresh):
                    failing.append(site + " (mutating method not called on a fresh copy)")
            if isinstance(n, (ast.Assign, ast.AugAssign)):
                for t in (n.targets if isinstance(n, ast.Assign) else [n.target]):
                    if isinstance(t, (ast.Attribute, ast.Subscript)) and root_name(t) == "self":
                        failing.append(f"{rel(p)}:{n.lineno}:{fn.name} writes to self in a public (snapshot-returning) method")
    # module-level: all uses of registry.state outside the class go through BackendRegistry methods
    for f in all_files():
        t = ast.parse(open(f).read())
        for n in ast.walk(t):
            if isinstance(n, ast.Attribute) and n.attr in mut and isinstance(n.value, ast.Attribute) and n.value.attr == "state":
                failing.append(f"{rel(f)}:{n.lineno}: mutating method called on a published state")
    if not sites:
        failing.append("no snapshot sites found (contract unbound)")
    return not failing, sites, failing


# ---------------------------------------------------------------------------------------------- R-tls / R-shared (C06, C10)
MUTABLE_CTORS = ("dict", "list", "set", "defaultdict", "OrderedDict", "deque", "Counter")


def module_level_mutables():
    """inventory of module-level bindings to mutable containers / objects in einx/_src"""
    out = []
    for f in all_files():
        t = ast.parse(open(f).read())
        for n in t.body:
            if isinstance(n, ast.Assign) and len(n.targets) == 1 and isinstance(n.targets[0], ast.Name):
                v = n.value
                kind = None
                if isinstance(v, (ast.Dict, ast.List, ast.Set, ast.ListComp, ast.DictComp, ast.SetComp)):
                    kind = "container"
                elif isinstance(v, ast.Call):
                    fn = ast.unparse(v.func)
                    if fn.split(".")[-1] in MUTABLE_CTORS:
                        kind = "container"
                    elif fn == "threading.local":
                        kind = "thread-local"
                    elif fn in ("threading.Lock", "threading.RLock"):
                        kind = "lock"
                    elif fn[:1].isupper() or fn.split(".")[-1][:1].isupper():
                        kind = "object"
                elif isinstance(v, ast.BinOp):
                    kind = "container-expr"
                if kind:
                    out.append((rel(f), n.lineno, n.targets[0].id, kind))
    return out


def rule_shared(allowed_writers):
    """call-time writes (inside functions) to module-level mutable bindings: global statements, attribute/item stores and mutator calls whose
    root is a module-level mutable name. allowed_writers: set of 'file:name' that are discharged by other obligations (registry under R-lock,
    thread-locals by R-tls)."""
    from .pyvc.exec import MUTATORS

    inv = module_level_mutables()
    by_file = {}
    for f, ln, name, kind in inv:
        by_file.setdefault(f, {})[name] = kind
    sites, failing = [], []
    for f in all_files():
        t = ast.parse(open(f).read())
        names = by_file.get(rel(f), {})
        for fn in ast.walk(t):
            if not isinstance(fn, (ast.FunctionDef, ast.Lambda)):
                continue
            local = {a.arg for a in ast.walk(fn.args) if isinstance(a, ast.arg)} if hasattr(fn, "args") else set()
            for n in ast.walk(fn):
                if isinstance(n, ast.Name) and isinstance(n.ctx, ast.Store):
                    local.add(n.id)
            globs = {g for n in ast.walk(fn) if isinstance(n, ast.Global) for g in n.names}
            local -= globs
            for n in ast.walk(fn):
                hit = None
                if isinstance(n, ast.Global):
                    for g in n.names:
                        hit = (g, "global statement")
                if isinstance(n, (ast.Assign, ast.AugAssign, ast.Delete)):
                    tg = n.targets if not isinstance(n, ast.AugAssign) else [n.target]
                    for tt in tg:
                        if isinstance(tt, (ast.Attribute, ast.Subscript)):
                            r = root_name(tt)
                            if r in names and r not in local:
                                hit = (r, "store")
                if isinstance(n, ast.Call) and isinstance(n.func, ast.Attribute) and n.func.attr in MUTATORS | {"setdefault", "popitem", "discard"}:
                    r = root_name(n.func.value) if not isinstance(n.func.value, ast.Name) else n.func.value.id
                    if r in names and r not in local:
                        hit = (r, f".{n.func.attr}()")
                if hit:
                    site = f"{rel(f)}:{n.lineno}:{hit[0]}:{hit[1]}"
                    sites.append(site)
                    kind = names.get(hit[0])
                    if kind == "thread-local" or f"{rel(f)}:{hit[0]}" in allowed_writers:
                        continue
                    failing.append(site + f" (call-time write to module-level {kind})")
    return not failing, sites, failing, inv


def rule_tls(expected):
    """the objects holding tracing / device / namespace stacks are threading.local() instances: expected = {(file, name)}"""
    inv = {(f, name): kind for f, ln, name, kind in module_level_mutables()}
    sites, failing = [], []
    for f, name in sorted(expected):
        site = f"{f}:{name}"
        if not os.path.exists(os.path.join(REPO, f)):
            failing.append(site + " (file missing)")
            continue
        sites.append(site)
        if inv.get((f, name)) != "thread-local":
            # subclass of threading.local with class-level mutable attribute would share state: require the plain constructor
            failing.append(site + f" is {inv.get((f, name), 'not a module-level binding')}, expected `threading.local()`")
    # class-level mutable attributes on subclasses of threading.local are shared between threads
    for f in all_files():
        t = ast.parse(open(f).read())
        for c in ast.walk(t):
            if isinstance(c, ast.ClassDef) and any("local" in ast.unparse(b) for b in c.bases):
                for n in c.body:
                    if isinstance(n, ast.Assign) and isinstance(n.value, (ast.List, ast.Dict, ast.Set)):
                        failing.append(f"{rel(f)}:{n.lineno}: class-level mutable attribute on a threading.local subclass is shared by all threads")
    return not failing, sites, failing


# ---------------------------------------------------------------------------------------------- R-setiter (C16)
ORDER_INSENSITIVE = {"set", "frozenset", "len", "all", "any", "sorted", "min", "max", "sum"}


def set_typed_names(fn):
    """names bound to set-typed expressions inside a function (syntactic): set displays/comprehensions, set()/frozenset() calls,
    set operators on such names, .union/.intersection/.difference results, dict.keys() is NOT a set here (insertion ordered)"""
    st = set()

    def is_set(e):
        if isinstance(e, (ast.Set, ast.SetComp)):
            return True
        if isinstance(e, ast.Call):
            f = e.func
            if isinstance(f, ast.Name) and f.id in ("set", "frozenset"):
                return True
            if isinstance(f, ast.Attribute) and f.attr in ("union", "intersection", "difference", "symmetric_difference", "copy") and is_set(f.value):
                return True
        if isinstance(e, ast.Name) and e.id in st:
            return True
        if isinstance(e, ast.BinOp) and isinstance(e.op, (ast.BitOr, ast.BitAnd, ast.Sub, ast.BitXor)) and (is_set(e.left) or is_set(e.right)):
            return True
        return False

    changed = True
    while changed:
        changed = False
        for n in ast.walk(fn):
            if isinstance(n, ast.Assign) and is_set(n.value):
                for t in n.targets:
                    if isinstance(t, ast.Name) and t.id not in st:
                        st.add(t.id)
                        changed = True
            if isinstance(n, ast.AugAssign) and isinstance(n.target, ast.Name) and is_set(n.value) and n.target.id not in st:
                st.add(n.target.id)
                changed = True
    return st, is_set


def rule_setiter(proved_sites=()):
    """every iteration over a set-typed expression feeds an order-insensitive consumer, or is listed in proved_sites ('file:func' with a P proof)."""
    sites, failing = [], []
    for f in all_files():
        t = ast.parse(open(f).read())
        par = parents(t)
        scopes = [n for n in ast.walk(t) if isinstance(n, (ast.FunctionDef, ast.Module))]
        for fn in scopes:
            st, is_set = set_typed_names(fn)
            own = [n for n in ast.walk(fn)]
            for n in own:
                it = None
                what = None
                if isinstance(n, ast.For) and is_set(n.iter):
                    it, what = n, "for"
                elif isinstance(n, ast.comprehension) and is_set(n.iter):
                    it, what = n, "comprehension"
                elif isinstance(n, ast.Call) and isinstance(n.func, ast.Name) and n.func.id in ("list", "tuple", "next", "iter", "enumerate", "zip") and n.args and is_set(n.args[0]):
                    it, what = n, n.func.id + "()"
                elif isinstance(n, ast.Call) and isinstance(n.func, ast.Attribute) and n.func.attr == "pop" and not n.args and is_set(n.func.value):
                    it, what = n, ".pop()"
                elif isinstance(n, ast.Call) and isinstance(n.func, ast.Attribute) and n.func.attr == "join" and n.args and is_set(n.args[0]):
                    it, what = n, "join()"
                elif isinstance(n, ast.Starred) and is_set(n.value):
                    it, what = n, "*unpack"
                if it is None:
                    continue
                # innermost enclosing function name
                w, fname = n, "<module>"
                while w in par:
                    w = par[w]
                    if isinstance(w, ast.FunctionDef):
                        fname = w.name
                        break
                if isinstance(fn, ast.FunctionDef) and fname != fn.name:
                    continue  # reported with its innermost function
                if isinstance(fn, ast.Module) and fname != "<module>":
                    continue
                site = f"{rel(f)}:{getattr(n, 'lineno', getattr(getattr(n, 'iter', None), 'lineno', 0))}:{fname}:{what}"
                sites.append(site)
                ok = False
                why = ""
                # consumer analysis
                if what == "comprehension":
                    comp = par.get(n)
                    if isinstance(comp, (ast.SetComp, ast.DictComp)):
                        ok, why = True, "set/dict comprehension"
                    elif isinstance(comp, (ast.GeneratorExp, ast.ListComp)):
                        c = par.get(comp)
                        if isinstance(c, ast.Call) and isinstance(c.func, ast.Name) and c.func.id in ORDER_INSENSITIVE:
                            ok, why = True, c.func.id
                        elif isinstance(c, ast.Call) and isinstance(c.func, ast.Attribute) and c.func.attr == "join":
                            ok, why = _in_message(c, par), "join"
                elif what in ("list()", "tuple()"):
                    c = par.get(n)
                    if isinstance(c, ast.Call) and isinstance(c.func, ast.Name) and c.func.id in ORDER_INSENSITIVE:
                        ok = True
                elif what == "join()":
                    ok = _in_message(n, par)
                elif what == "for":
                    # body only adds to sets / dicts keyed by the element / raises
                    ok = _for_body_order_insensitive(n)
                key = f"{rel(f)}:{fname}"
                if not ok and any(site.startswith(ps) or key == ps for ps in proved_sites):
                    ok = True
                if not ok:
                    failing.append(site)
    return not failing, sites, failing


def _in_message(node, par):
    """is the node inside an f-string / argument of a raise / message assignment (text of an exception only)?"""
    w = node
    while w in par:
        w = par[w]
        if isinstance(w, ast.Raise):
            return True
        if isinstance(w, (ast.FunctionDef, ast.Module)):
            return False
        if isinstance(w, (ast.Assign, ast.AugAssign)):
            tg = w.targets[0] if isinstance(w, ast.Assign) else w.target
            if isinstance(tg, ast.Name) and ("message" in tg.id or "msg" in tg.id):
                return True
    return False


def _for_body_order_insensitive(loop):
    for st in loop.body:
        for n in ast.walk(st):
            if isinstance(n, ast.Call) and isinstance(n.func, ast.Attribute) and n.func.attr in ("append", "insert", "extend"):
                return False
            if isinstance(n, (ast.Return, ast.Break, ast.Yield)):
                return False
            if isinstance(n, ast.Assign) and any(isinstance(t, ast.Name) for t in n.targets):
                # re-binding a name inside the loop can be order-dependent unless it is a flag set to a constant
                if not isinstance(n.value, ast.Constant):
                    return False
    return True


# ---------------------------------------------------------------------------------------------- R-subterm / R-pure (C05)
def rule_subterm():
    """in every optimizer pattern the arguments of transform(.) are strict predecessors of the matched node"""
    sites, failing = [], []
    for relp in ("einx/_src/tracer/optimizer/classical.py", "einx/_src/tracer/optimizer/graph.py"):
        tree, p = parse(relp)
        for cls in [c for c in tree.body if isinstance(c, ast.ClassDef)]:
            call = [f for f in cls.body if isinstance(f, ast.FunctionDef) and f.name == "__call__"]
            if not call:
                continue
            fn = call[0]
            argn = [a.arg for a in fn.args.args]
            if len(argn) != 3:
                failing.append(f"{relp}:{fn.lineno}:{cls.name}.__call__ has an unexpected signature")
                continue
            x, tr = argn[1], argn[2]
            derived = set()

            def is_pred(e):
                # strict predecessor: rooted at x with >= 1 accessor step, or rooted at a derived name, or _skip_id(pred-or-x.output)
                if isinstance(e, ast.Call) and isinstance(e.func, ast.Name) and e.func.id == "_skip_id":
                    return is_pred(e.args[0])
                steps = 0
                while isinstance(e, (ast.Attribute, ast.Subscript)):
                    steps += 1
                    e = e.value
                if isinstance(e, ast.Name):
                    if e.id == x:
                        return steps >= 1
                    return e.id in derived
                return False

            changed = True
            while changed:
                changed = False
                for n in ast.walk(fn):
                    if isinstance(n, ast.Assign) and len(n.targets) == 1 and isinstance(n.targets[0], ast.Name) and is_pred(n.value) and n.targets[0].id not in derived:
                        derived.add(n.targets[0].id)
                        changed = True
                    if isinstance(n, ast.comprehension) and isinstance(n.target, ast.Name) and is_pred(n.iter) and n.target.id not in derived:
                        derived.add(n.target.id)
                        changed = True
            for n in ast.walk(fn):
                if isinstance(n, ast.Call) and isinstance(n.func, ast.Name) and n.func.id == tr:
                    site = f"{relp}:{n.lineno}:{cls.name}:transform({ast.unparse(n.args[0])})"
                    sites.append(site)
                    if not is_pred(n.args[0]):
                        failing.append(site + " (argument is not a strict predecessor of the matched node)")
    if not sites:
        failing.append("no transform(.) call found (contract unbound)")
    return not failing, sites, failing


def rule_pure():
    """optimizer patterns and the driver never write to the graph they read: attribute/item stores only on self (optimizer state),
    mutator calls only on local fresh lists"""
    from .pyvc.exec import MUTATORS

    sites, failing = [], []
    for relp in ("einx/_src/tracer/optimizer/classical.py", "einx/_src/tracer/optimizer/graph.py", "einx/_src/tracer/optimizer/optimizer.py", "einx/_src/tracer/optimizer/_util.py"):
        tree, p = parse(relp)
        for fn in [f for f in ast.walk(tree) if isinstance(f, ast.FunctionDef)]:
            fresh = {t.id for n in ast.walk(fn) if isinstance(n, ast.Assign) and isinstance(n.value, (ast.List, ast.Dict, ast.ListComp, ast.DictComp)) for t in n.targets if isinstance(t, ast.Name)}
            for n in ast.walk(fn):
                if isinstance(n, (ast.Assign, ast.AugAssign, ast.Delete)):
                    tg = n.targets if not isinstance(n, ast.AugAssign) else [n.target]
                    for t in tg:
                        if isinstance(t, (ast.Attribute, ast.Subscript)):
                            site = f"{relp}:{n.lineno}:{fn.name}:store {ast.unparse(t)}"
                            sites.append(site)
                            if root_name(t) != "self" or fn.name == "__call__":
                                failing.append(site + " (write to something other than the optimizer's own state)")
                if isinstance(n, ast.Call) and isinstance(n.func, ast.Attribute) and n.func.attr in MUTATORS:
                    site = f"{relp}:{n.lineno}:{fn.name}:{ast.unparse(n.func)}()"
                    sites.append(site)
                    r = n.func.value.id if isinstance(n.func.value, ast.Name) else None
                    if r not in fresh:
                        failing.append(site + " (mutator call on a non-local object)")
    return not failing, sites, failing
