"""Level S: frame / ownership / determinism / template obligations decided by a syntactic rule over the real AST (DESIGN §2.4).
Every rule returns (ok, sites, failing) where a site is 'file:line:what'."""
import ast
import glob
import os
from . import REPO

SRC = os.path.join(REPO, "einx", "_src")


def parse(rel):
    p = os.path.join(REPO, rel)
    return ast.parse(open(p).read()), p


def all_files():
    return sorted(glob.glob(os.path.join(SRC, "**", "*.py"), recursive=True))


def rel(p):
    return os.path.relpath(p, REPO)


def parents(tree):
    par = {}
    for n in ast.walk(tree):
        for c in ast.iter_child_nodes(n):
            par[c] = n
    return par


def root_name(e):
    while isinstance(e, (ast.Attribute, ast.Subscript, ast.Call)):
        e = e.value if not isinstance(e, ast.Call) else e.func
    return e.id if isinstance(e, ast.Name) else None


def find_class(tree, name):
    for n in ast.walk(tree):
        if isinstance(n, ast.ClassDef) and n.name == name:
            return n
    return None


def find_func(tree, name):
    for n in ast.walk(tree):
        if isinstance(n, (ast.FunctionDef,)) and n.name == name:
            return n
    return None


# ---------------------------------------------------------------------------------------------- R-lock / R-snapshot (C10)
def rule_lock():
    """every store to self.state in BackendRegistry (outside __init__) is lexically inside `with self.use_lock:` and the stored value is
    computed from a read of self.state inside the same with-block (atomic read-modify-write)."""
    tree, p = parse("einx/_src/frontend/backend.py")
    cls = find_class(tree, "BackendRegistry")
    sites, failing = [], []
    if cls is None:
        return False, [], ["einx/_src/frontend/backend.py: class BackendRegistry not found"]
    par = parents(cls)
    for fn in cls.body:
        if not isinstance(fn, ast.FunctionDef) or fn.name == "__init__":
            continue
        for n in ast.walk(fn):
            if isinstance(n, (ast.Assign, ast.AugAssign)):
                tgts = n.targets if isinstance(n, ast.Assign) else [n.target]
                flat = []
                for t in tgts:
                    flat += [e for e in ast.walk(t) if isinstance(e, ast.Attribute)]
                if not any(ast.unparse(t) == "self.state" for t in flat):
                    continue
                site = f"{rel(p)}:{n.lineno}:BackendRegistry.{fn.name}"
                sites.append(site)
                w = n
                lock = None
                while w in par:
                    w = par[w]
                    if isinstance(w, ast.With) and any(ast.unparse(i.context_expr) == "self.use_lock" for i in w.items):
                        lock = w
                        break
                reads_inside = lock is not None and "self.state" in ast.unparse(n.value)
                if lock is None or not reads_inside:
                    failing.append(site + (" (store outside `with self.use_lock`)" if lock is None else " (value not computed from self.state inside the lock)"))
        # reads of self.state outside the lock that flow to a return are fine (snapshots are immutable), writes are what matters
    if not sites:
        failing.append(f"{rel(p)}: no store to self.state found (contract unbound)")
    # the lock itself must be a threading lock created once in __init__
    init = [f for f in cls.body if isinstance(f, ast.FunctionDef) and f.name == "__init__"]
    ok_lock = init and any(isinstance(n, ast.Assign) and ast.unparse(n.targets[0]) == "self.use_lock" and ast.unparse(n.value) in ("threading.Lock()", "threading.RLock()") for n in ast.walk(init[0]))
    if not ok_lock:
        failing.append(f"{rel(p)}: self.use_lock is not a threading.Lock()/RLock() created in __init__")
    return not failing, sites, failing


def rule_lock_reads():
    """every READ of self.state in a BackendRegistry method (outside __init__) is lexically inside `with self.use_lock:` - the public methods have ONE path each: take the lock, delegate
    to the (proved) BackendRegistryState method, publish the new snapshot. A lock-free shortcut reads the state twice (a race with a concurrent __exit__) or answers from a memo before the
    precedence chain (backend argument > with-block > tensor types) has been consulted."""
    tree, p = parse("einx/_src/frontend/backend.py")
    cls = find_class(tree, "BackendRegistry")
    sites, failing = [], []
    if cls is None:
        return False, [], ["einx/_src/frontend/backend.py: class BackendRegistry not found"]
    par = parents(cls)
    for fn in cls.body:
        if not isinstance(fn, ast.FunctionDef) or fn.name == "__init__":
            continue
        for n in ast.walk(fn):
            if isinstance(n, ast.Attribute) and isinstance(n.ctx, ast.Load) and ast.unparse(n) == "self.state":
                site = f"{rel(p)}:{n.lineno}:BackendRegistry.{fn.name}"
                sites.append(site)
                w, locked = n, False
                while w in par:
                    w = par[w]
                    if isinstance(w, ast.With) and any(ast.unparse(i.context_expr) == "self.use_lock" for i in w.items):
                        locked = True
                        break
                if not locked:
                    failing.append(site + " (self.state is read outside `with self.use_lock`)")
        body = [st for st in fn.body if not (isinstance(st, ast.Expr) and isinstance(st.value, ast.Constant))]
        if not (len(body) >= 1 and isinstance(body[0], ast.With) and any(ast.unparse(i.context_expr) == "self.use_lock" for i in body[0].items)):
            failing.append(f"{rel(p)}:{fn.lineno}:BackendRegistry.{fn.name} does not start with `with self.use_lock:` (a path around the locked delegation)")
    if not sites:
        failing.append(f"{rel(p)}: no read of self.state found (contract unbound)")
    return not failing, sites, failing


def rule_snapshot_copy():
    """the copy constructor BackendRegistryState.__init__(state) gives the new snapshot its OWN containers: every field is bound to a fresh literal / constructor call and filled with
    update/extend from `state`; no field is bound to an object of `state` itself (an aliased container would make changes of a discarded or later snapshot visible in others)"""
    tree, p = parse("einx/_src/frontend/backend.py")
    cls = find_class(tree, "BackendRegistryState")
    sites, failing = [], []
    init = [f for f in (cls.body if cls else []) if isinstance(f, ast.FunctionDef) and f.name == "__init__"]
    if not init:
        return False, [], ["einx/_src/frontend/backend.py: BackendRegistryState.__init__ not found"]
    fields = set()
    for n in ast.walk(init[0]):
        if isinstance(n, (ast.Assign, ast.AugAssign, ast.AnnAssign)):
            tg = n.targets if isinstance(n, ast.Assign) else [n.target]
            for tt in tg:
                if isinstance(tt, ast.Attribute) and isinstance(tt.value, ast.Name) and tt.value.id == "self":
                    site = f"{rel(p)}:{n.lineno}:self.{tt.attr} = {ast.unparse(n.value)[:40]}"
                    sites.append(site)
                    fields.add(tt.attr)
                    v = n.value
                    fresh = isinstance(v, (ast.Dict, ast.List, ast.Set, ast.Tuple, ast.Constant)) or (isinstance(v, ast.Call) and isinstance(v.func, ast.Name) and v.func.id in ("set", "dict", "list", "tuple", "frozenset") and not v.args)
                    if not fresh or any(isinstance(q, ast.Name) and q.id == "state" for q in ast.walk(v)):
                        failing.append(site + " (a field of the new snapshot is not a fresh container: it may alias an object of another snapshot)")
    if len(fields) < 5:
        failing.append(f"{rel(p)}: fewer than 5 fields initialised in BackendRegistryState.__init__ (contract unbound)")
    return not failing, sites, failing


def rule_snapshot():
    """mutating underscore methods of BackendRegistryState are called only on objects freshly created by BackendRegistryState(self) in the same
    function (published snapshots are never mutated), or on self from within other underscore methods."""
    tree, p = parse("einx/_src/frontend/backend.py")
    cls = find_class(tree, "BackendRegistryState")
    sites, failing = [], []
    mut = {f.name for f in cls.body if isinstance(f, ast.FunctionDef) and f.name.startswith("_") and not f.name.startswith("__")}
    for fn in cls.body:
        if not isinstance(fn, ast.FunctionDef) or fn.name.startswith("_"):
            continue
        fresh = {t.id for n in ast.walk(fn) if isinstance(n, ast.Assign) and ast.unparse(n.value) == "BackendRegistryState(self)" for t in n.targets if isinstance(t, ast.Name)}
        for n in ast.walk(fn):
            if isinstance(n, ast.Call) and isinstance(n.func, ast.Attribute) and n.func.attr in mut:
                site = f"{rel(p)}:{n.lineno}:{fn.name}->{n.func.attr}"
                sites.append(site)
                if not (isinstance(n.func.value, ast.Name) and n.func.value.id in fresh):
                    failing.append(site + " (mutating method not called on a fresh copy)")
            if isinstance(n, (ast.Assign, ast.AugAssign)):
                for t in (n.targets if isinstance(n, ast.Assign) else [n.target]):
                    if isinstance(t, (ast.Attribute, ast.Subscript)) and root_name(t) == "self":
                        failing.append(f"{rel(p)}:{n.lineno}:{fn.name} writes to self in a public (snapshot-returning) method")
    # module-level: all uses of registry.state outside the class go through BackendRegistry methods
    for f in all_files():
        t = ast.parse(open(f).read())
        for n in ast.walk(t):
            if isinstance(n, ast.Attribute) and n.attr in mut and isinstance(n.value, ast.Attribute) and n.value.attr == "state":
                failing.append(f"{rel(f)}:{n.lineno}: mutating method called on a published state")
    if not sites:
        failing.append("no snapshot sites found (contract unbound)")
    return not failing, sites, failing


# ---------------------------------------------------------------------------------------------- R-tls / R-shared (C06, C10)
MUTABLE_CTORS = ("dict", "list", "set", "defaultdict", "OrderedDict", "deque", "Counter")


def module_level_mutables():
    """inventory of module-level bindings to mutable containers / objects in einx/_src"""
    out = []
    for f in all_files():
        t = ast.parse(open(f).read())
        for n in t.body:
            if isinstance(n, ast.Assign) and len(n.targets) == 1 and isinstance(n.targets[0], ast.Name):
                v = n.value
                kind = None
                if isinstance(v, (ast.Dict, ast.List, ast.Set, ast.ListComp, ast.DictComp, ast.SetComp)):
                    kind = "container"
                elif isinstance(v, ast.Call):
                    fn = ast.unparse(v.func)
                    if fn.split(".")[-1] in MUTABLE_CTORS:
                        kind = "container"
                    elif fn == "threading.local":
                        kind = "thread-local"
                    elif fn in ("threading.Lock", "threading.RLock"):
                        kind = "lock"
                    elif fn[:1].isupper() or fn.split(".")[-1][:1].isupper():
                        kind = "object"
                elif isinstance(v, ast.BinOp):
                    kind = "container-expr"
                if kind:
                    out.append((rel(f), n.lineno, n.targets[0].id, kind))
    return out


def rule_shared(allowed_writers):
    """call-time writes (inside functions) to module-level mutable bindings: global statements, attribute/item stores and mutator calls whose
    root is a module-level mutable name. allowed_writers: set of 'file:name' that are discharged by other obligations (registry under R-lock,
    thread-locals by R-tls)."""
    from .pyvc.exec import MUTATORS

    inv = module_level_mutables()
    by_file = {}
    for f, ln, name, kind in inv:
        by_file.setdefault(f, {})[name] = kind
    sites, failing = [], []
    for f in all_files():
        t = ast.parse(open(f).read())
        names = by_file.get(rel(f), {})
        for fn in ast.walk(t):
            if not isinstance(fn, (ast.FunctionDef, ast.Lambda)):
                continue
            local = {a.arg for a in ast.walk(fn.args) if isinstance(a, ast.arg)} if hasattr(fn, "args") else set()
            for n in ast.walk(fn):
                if isinstance(n, ast.Name) and isinstance(n.ctx, ast.Store):
                    local.add(n.id)
            globs = {g for n in ast.walk(fn) if isinstance(n, ast.Global) for g in n.names}
            local -= globs
            for n in ast.walk(fn):
                hit = None
                if isinstance(n, ast.Global):
                    for g in n.names:
                        hit = (g, "global statement")
                if isinstance(n, (ast.Assign, ast.AugAssign, ast.Delete)):
                    tg = n.targets if not isinstance(n, ast.AugAssign) else [n.target]
                    for tt in tg:
                        if isinstance(tt, (ast.Attribute, ast.Subscript)):
                            r = root_name(tt)
                            if r in names and r not in local:
                                hit = (r, "store")
                if isinstance(n, ast.Call) and isinstance(n.func, ast.Attribute) and n.func.attr in MUTATORS | {"setdefault", "popitem", "discard"}:
                    r = root_name(n.func.value) if not isinstance(n.func.value, ast.Name) else n.func.value.id
                    if r in names and r not in local:
                        hit = (r, f".{n.func.attr}()")
                if hit:
                    site = f"{rel(f)}:{n.lineno}:{hit[0]}:{hit[1]}"
                    sites.append(site)
                    kind = names.get(hit[0])
                    if kind == "thread-local" or f"{rel(f)}:{hit[0]}" in allowed_writers:
                        continue
                    failing.append(site + f" (call-time write to module-level {kind})")
    return not failing, sites, failing, inv


def rule_tls(expected):
    """the objects holding tracing / device / namespace stacks are threading.local() instances: expected = {(file, name)}"""
    inv = {(f, name): kind for f, ln, name, kind in module_level_mutables()}
    sites, failing = [], []
    for f, name in sorted(expected):
        site = f"{f}:{name}"
        if not os.path.exists(os.path.join(REPO, f)):
            failing.append(site + " (file missing)")
            continue
        sites.append(site)
        if "." in name:  # Class.attr : instance attribute created in __init__
            cname, attr = name.split(".")
            t = ast.parse(open(os.path.join(REPO, f)).read())
            c = find_class(t, cname)
            init = [q for q in (c.body if c else []) if isinstance(q, ast.FunctionDef) and q.name == "__init__"]
            okc = init and any(isinstance(n, ast.Assign) and ast.unparse(n.targets[0]) == f"self.{attr}" and ast.unparse(n.value) == "threading.local()" for n in ast.walk(init[0]))
            others = [n for n in ast.walk(c) if isinstance(n, ast.Assign) and ast.unparse(n.targets[0]) == f"self.{attr}"] if c else []
            if not okc or len(others) != 1:
                failing.append(site + " is not created exactly once as `threading.local()` in __init__")
            continue
        if inv.get((f, name)) != "thread-local":
            # subclass of threading.local with class-level mutable attribute would share state: require the plain constructor
            failing.append(site + f" is {inv.get((f, name), 'not a module-level binding')}, expected `threading.local()`")
    # class-level mutable attributes on subclasses of threading.local are shared between threads
    for f in all_files():
        t = ast.parse(open(f).read())
        for c in ast.walk(t):
            if isinstance(c, ast.ClassDef) and any("local" in ast.unparse(b) for b in c.bases):
                for n in c.body:
                    if isinstance(n, ast.Assign) and isinstance(n.value, (ast.List, ast.Dict, ast.Set)):
                        failing.append(f"{rel(f)}:{n.lineno}: class-level mutable attribute on a threading.local subclass is shared by all threads")
    return not failing, sites, failing


# ---------------------------------------------------------------------------------------------- R-setiter (C16)
ORDER_INSENSITIVE = {"set", "frozenset", "len", "all", "any", "sorted", "min", "max", "sum"}


def set_typed_names(fn):
    """names bound to set-typed expressions inside a function (syntactic, line-sensitive: the type of a name at a use is that of its
    textually latest preceding assignment): set displays/comprehensions, set()/frozenset() calls, set operators / methods on such names"""
    assigns = {}  # name -> list of (lineno, value node or None for augmented)
    for n in ast.walk(fn):
        if isinstance(n, ast.Assign):
            for t in n.targets:
                if isinstance(t, ast.Name):
                    assigns.setdefault(t.id, []).append((n.lineno, n.value))
        elif isinstance(n, ast.AugAssign) and isinstance(n.target, ast.Name):
            assigns.setdefault(n.target.id, []).append((n.lineno, ("aug", n.value)))
    for k in assigns:
        assigns[k].sort(key=lambda x: x[0])

    def name_is_set(name, line, depth=0):
        hist = [a for a in assigns.get(name, []) if a[0] <= line]
        if not hist or depth > 6:
            return False
        ln, v = hist[-1]
        if isinstance(v, tuple):  # augmented: keeps the type of the previous binding (or of the operand)
            prev = [a for a in hist[:-1]]
            return (name_is_set(name, prev[-1][0], depth + 1) if prev else False) or is_set(v[1], depth + 1)
        if ln == line and isinstance(v, ast.AST) and any(isinstance(q, ast.Name) and q.id == name for q in ast.walk(v)):
            # x = f(x): the use on the right-hand side refers to the previous binding
            prev = hist[:-1]
            if not prev:
                return False
            return is_set(prev[-1][1], depth + 1) if not isinstance(prev[-1][1], tuple) else name_is_set(name, prev[-1][0], depth + 1)
        return is_set(v, depth + 1)

    def is_set(e, depth=0):
        if isinstance(e, (ast.Set, ast.SetComp)):
            return True
        if isinstance(e, ast.Call):
            f = e.func
            if isinstance(f, ast.Name) and f.id in ("set", "frozenset"):
                return True
            if isinstance(f, ast.Attribute) and f.attr in ("union", "intersection", "difference", "symmetric_difference", "copy") and is_set(f.value, depth + 1):
                return True
        if isinstance(e, ast.Name):
            return name_is_set(e.id, getattr(e, "lineno", 10**9), depth + 1)
        if isinstance(e, ast.BinOp) and isinstance(e.op, (ast.BitOr, ast.BitAnd, ast.Sub, ast.BitXor)) and (is_set(e.left, depth + 1) or is_set(e.right, depth + 1)):
            return True
        return False

    return set(assigns), is_set


def rule_setiter(proved_sites=()):
    """every iteration over a set-typed expression feeds an order-insensitive consumer, or is listed in proved_sites ('file:func' with a P proof)."""
    sites, failing = [], []
    for f in all_files():
        t = ast.parse(open(f).read())
        par = parents(t)
        scopes = [n for n in ast.walk(t) if isinstance(n, (ast.FunctionDef, ast.Module))]
        for fn in scopes:
            st, is_set = set_typed_names(fn)
            own = [n for n in ast.walk(fn)]
            for n in own:
                it = None
                what = None
                if isinstance(n, ast.For) and is_set(n.iter):
                    it, what = n, "for"
                elif isinstance(n, ast.comprehension) and is_set(n.iter):
                    it, what = n, "comprehension"
                elif isinstance(n, ast.Call) and isinstance(n.func, ast.Name) and n.func.id in ("list", "tuple", "next", "iter", "enumerate", "zip") and n.args and is_set(n.args[0]):
                    it, what = n, n.func.id + "()"
                elif isinstance(n, ast.Call) and isinstance(n.func, ast.Attribute) and n.func.attr == "pop" and not n.args and is_set(n.func.value):
                    it, what = n, ".pop()"
                elif isinstance(n, ast.Call) and isinstance(n.func, ast.Attribute) and n.func.attr == "join" and n.args and is_set(n.args[0]):
                    it, what = n, "join()"
                elif isinstance(n, ast.Starred) and is_set(n.value):
                    it, what = n, "*unpack"
                if it is None:
                    continue
                # innermost enclosing function name
                w, fname = n, "<module>"
                while w in par:
                    w = par[w]
                    if isinstance(w, ast.FunctionDef):
                        fname = w.name
                        break
                if isinstance(fn, ast.FunctionDef) and fname != fn.name:
                    continue  # reported with its innermost function
                if isinstance(fn, ast.Module) and fname != "<module>":
                    continue
                site = f"{rel(f)}:{getattr(n, 'lineno', getattr(getattr(n, 'iter', None), 'lineno', 0))}:{fname}:{what}"
                sites.append(site)
                ok = False
                why = ""
                # consumer analysis
                if what == "comprehension":
                    comp = par.get(n)
                    if isinstance(comp, (ast.SetComp, ast.DictComp)):
                        ok, why = True, "set/dict comprehension"
                    elif isinstance(comp, (ast.GeneratorExp, ast.ListComp)):
                        c = par.get(comp)
                        if isinstance(c, ast.Call) and isinstance(c.func, ast.Name) and c.func.id in ORDER_INSENSITIVE:
                            ok, why = True, c.func.id
                        elif isinstance(c, ast.Call) and isinstance(c.func, ast.Attribute) and c.func.attr == "join":
                            ok, why = _in_message(c, par), "join"
                elif what in ("list()", "tuple()"):
                    c = par.get(n)
                    if isinstance(c, ast.Call) and isinstance(c.func, ast.Name) and c.func.id in ORDER_INSENSITIVE:
                        ok = True
                elif what == "join()":
                    ok = _in_message(n, par)
                elif what == "for":
                    # body only adds to sets / dicts keyed by the element / raises
                    ok = _for_body_order_insensitive(n)
                encl = fn if isinstance(fn, ast.FunctionDef) else None
                if not ok and what == ".pop()" and encl is not None:
                    ok = _singleton_guard(encl, n, par)
                if not ok and what == "for" and encl is not None:
                    ok = _loop_effects_only_raise(encl, n) or _accumulators_only_in_raise(encl, n, par)
                if not ok and what in ("comprehension", "join()", "list()", "tuple()") and encl is not None:
                    ok = _value_only_in_raise(encl, n, par)
                key = f"{rel(f)}:{fname}:{what}"
                if not ok and key in proved_sites:
                    ok = True
                if not ok:
                    failing.append(site)
    return not failing, sites, failing


def _len_test(test, name):
    """does `test` compare len(<name>) with a constant? returns (op, const) or None"""
    if isinstance(test, ast.Compare) and len(test.ops) == 1 and isinstance(test.left, ast.Call) and ast.unparse(test.left) == f"len({name})" and isinstance(test.comparators[0], ast.Constant):
        return type(test.ops[0]).__name__, test.comparators[0].value
    return None


def _singleton_guard(fn, popcall, par):
    """S.pop() on a set is order-independent when |S| <= 1 at that point: enclosing `if len(S) == 1`, a conditional expression
    `S.pop() if len(S) > 0 else ..` after `if len(S) > 1: raise`, a preceding `if len(S) != 1: raise`, or `assert len(S) <= 1`"""
    name = ast.unparse(popcall.func.value)
    w = popcall
    while w in par and w is not fn:
        w = par[w]
        if isinstance(w, ast.If):
            t = _len_test(w.test, name)
            if t == ("Eq", 1) and any(popcall in list(ast.walk(b)) for b in w.body):
                return True
    for n in ast.walk(fn):
        if getattr(n, "lineno", 10**9) >= popcall.lineno:
            continue
        if isinstance(n, ast.If) and n.body and isinstance(n.body[-1], ast.Raise):
            t = _len_test(n.test, name)
            if t in (("NotEq", 1), ("Gt", 1), ("GtE", 2)):
                return True
        if isinstance(n, ast.Assert):
            t = _len_test(n.test, name)
            if t in (("LtE", 1), ("Eq", 1), ("Lt", 2)):
                return True
    return False


def _stored_names(nodes):
    out = set()
    for st in nodes:
        for n in ast.walk(st):
            if isinstance(n, ast.Name) and isinstance(n.ctx, ast.Store):
                out.add(n.id)
    return out


def _loop_effects_only_raise(fn, loop):
    """the loop body's only escaping effect is `raise`: no return/break/yield, every name it binds is dead after the loop,
    mutator calls only on objects first bound inside the body"""
    from .pyvc.exec import MUTATORS

    local = _stored_names(loop.body) | _stored_names([loop.target])
    for st in loop.body:
        for n in ast.walk(st):
            if isinstance(n, (ast.Return, ast.Break, ast.Yield, ast.YieldFrom, ast.Global, ast.Nonlocal)):
                return False
            if isinstance(n, ast.Call) and isinstance(n.func, ast.Attribute) and n.func.attr in MUTATORS | {"setdefault"}:
                r = root_name(n.func.value) if not isinstance(n.func.value, ast.Name) else n.func.value.id
                if r not in local:
                    return False
            if isinstance(n, (ast.Assign, ast.AugAssign)):
                for t in (n.targets if isinstance(n, ast.Assign) else [n.target]):
                    if isinstance(t, (ast.Attribute, ast.Subscript)) and root_name(t) not in local:
                        return False
    end = loop.end_lineno
    for n in ast.walk(fn):
        if isinstance(n, ast.Name) and isinstance(n.ctx, ast.Load) and n.id in local and n.lineno > end:
            # a later load is fine only if the name is re-bound after the loop before that load; be conservative
            rebound = any(isinstance(m, ast.Name) and isinstance(m.ctx, ast.Store) and m.id == n.id and end < m.lineno <= n.lineno for m in ast.walk(fn))
            if not rebound:
                return False
    return True


def _only_in_raise_or_len(fn, name, after_line, par):
    for n in ast.walk(fn):
        if isinstance(n, ast.Name) and n.id == name and isinstance(n.ctx, ast.Load) and n.lineno >= after_line:
            w, ok = n, False
            while w in par:
                w = par[w]
                if isinstance(w, ast.Raise):
                    ok = True
                    break
                if isinstance(w, ast.Call) and isinstance(w.func, ast.Name) and w.func.id == "len":
                    ok = True
                    break
                if isinstance(w, ast.FunctionDef):
                    break
            if not ok:
                return False
    return True


def _accumulators_only_in_raise(fn, loop, par):
    """the loop appends to lists that are afterwards used only through len() or inside a raise statement (message / caret positions)"""
    accs = {n.func.value.id for st in loop.body for n in ast.walk(st) if isinstance(n, ast.Call) and isinstance(n.func, ast.Attribute) and n.func.attr in ("append", "extend") and isinstance(n.func.value, ast.Name)}
    if not accs:
        return False
    other = _stored_names(loop.body) - accs
    for st in loop.body:
        for n in ast.walk(st):
            if isinstance(n, (ast.Return, ast.Break, ast.Yield)):
                return False
    for a in accs | other:
        if not _only_in_raise_or_len(fn, a, loop.end_lineno + 1, par):
            return False
    return True


def _value_only_in_raise(fn, node, par):
    """the order-dependent value is assigned to a name that is used only inside raise statements / len(), or sits inside a raise itself"""
    w = node
    while w in par:
        w = par[w]
        if isinstance(w, ast.Raise):
            return True
        if isinstance(w, ast.Assign) and len(w.targets) == 1 and isinstance(w.targets[0], ast.Name):
            return _only_in_raise_or_len(fn, w.targets[0].id, w.lineno + 1, par)
        if isinstance(w, (ast.FunctionDef, ast.Return)):
            return False
    return False


def _in_message(node, par):
    """is the node inside an f-string / argument of a raise / message assignment (text of an exception only)?"""
    w = node
    while w in par:
        w = par[w]
        if isinstance(w, ast.Raise):
            return True
        if isinstance(w, (ast.FunctionDef, ast.Module)):
            return False
        if isinstance(w, (ast.Assign, ast.AugAssign)):
            tg = w.targets[0] if isinstance(w, ast.Assign) else w.target
            if isinstance(tg, ast.Name) and ("message" in tg.id or "msg" in tg.id):
                return True
    return False


def _for_body_order_insensitive(loop):
    for st in loop.body:
        for n in ast.walk(st):
            if isinstance(n, ast.Call) and isinstance(n.func, ast.Attribute) and n.func.attr in ("append", "insert", "extend"):
                return False
            if isinstance(n, (ast.Return, ast.Break, ast.Yield)):
                return False
            if isinstance(n, ast.Assign) and any(isinstance(t, ast.Name) for t in n.targets):
                # re-binding a name inside the loop can be order-dependent unless it is a flag set to a constant
                if not isinstance(n.value, ast.Constant):
                    return False
    return True


# ---------------------------------------------------------------------------------------------- R-subterm / R-pure (C05)
def rule_subterm():
    """in every optimizer pattern the arguments of transform(.) are strict predecessors of the matched node"""
    sites, failing = [], []
    for relp in ("einx/_src/tracer/optimizer/classical.py", "einx/_src/tracer/optimizer/graph.py"):
        tree, p = parse(relp)
        for cls in [c for c in tree.body if isinstance(c, ast.ClassDef)]:
            call = [f for f in cls.body if isinstance(f, ast.FunctionDef) and f.name == "__call__"]
            if not call:
                continue
            fn = call[0]
            argn = [a.arg for a in fn.args.args]
            if len(argn) != 3:
                failing.append(f"{relp}:{fn.lineno}:{cls.name}.__call__ has an unexpected signature")
                continue
            x, tr = argn[1], argn[2]
            derived = set()

            def is_pred(e):
                # strict predecessor: rooted at x with >= 1 accessor step, or rooted at a derived name, or _skip_id(pred-or-x.output)
                if isinstance(e, ast.Call) and isinstance(e.func, ast.Name) and e.func.id == "_skip_id":
                    return is_pred(e.args[0])
                steps = 0
                while isinstance(e, (ast.Attribute, ast.Subscript)):
                    steps += 1
                    e = e.value
                if isinstance(e, ast.Name):
                    if e.id == x:
                        return steps >= 1
                    return e.id in derived
                return False

            changed = True
            while changed:
                changed = False
                for n in ast.walk(fn):
                    if isinstance(n, ast.Assign) and len(n.targets) == 1 and isinstance(n.targets[0], ast.Name) and is_pred(n.value) and n.targets[0].id not in derived:
                        derived.add(n.targets[0].id)
                        changed = True
                    if isinstance(n, ast.comprehension) and isinstance(n.target, ast.Name) and is_pred(n.iter) and n.target.id not in derived:
                        derived.add(n.target.id)
                        changed = True
            for n in ast.walk(fn):
                if isinstance(n, ast.Call) and isinstance(n.func, ast.Name) and n.func.id == tr:
                    site = f"{relp}:{n.lineno}:{cls.name}:transform({ast.unparse(n.args[0])})"
                    sites.append(site)
                    if not is_pred(n.args[0]):
                        failing.append(site + " (argument is not a strict predecessor of the matched node)")
    if not sites:
        failing.append("no transform(.) call found (contract unbound)")
    return not failing, sites, failing


def rule_pure():
    """optimizer patterns and the driver never write to the graph they read: attribute/item stores only on self (optimizer state),
    mutator calls only on local fresh lists"""
    from .pyvc.exec import MUTATORS

    sites, failing = [], []
    for relp in ("einx/_src/tracer/optimizer/classical.py", "einx/_src/tracer/optimizer/graph.py", "einx/_src/tracer/optimizer/optimizer.py", "einx/_src/tracer/optimizer/_util.py"):
        tree, p = parse(relp)
        for fn in [f for f in ast.walk(tree) if isinstance(f, ast.FunctionDef)]:
            fresh = {t.id for n in ast.walk(fn) if isinstance(n, ast.Assign) and isinstance(n.value, (ast.List, ast.Dict, ast.ListComp, ast.DictComp)) for t in n.targets if isinstance(t, ast.Name)}
            for n in ast.walk(fn):
                if isinstance(n, (ast.Assign, ast.AugAssign, ast.Delete)):
                    tg = n.targets if not isinstance(n, ast.AugAssign) else [n.target]
                    for t in tg:
                        if isinstance(t, (ast.Attribute, ast.Subscript)):
                            site = f"{relp}:{n.lineno}:{fn.name}:store {ast.unparse(t)}"
                            sites.append(site)
                            if root_name(t) != "self" or fn.name == "__call__":
                                failing.append(site + " (write to something other than the optimizer's own state)")
                if isinstance(n, ast.Call) and isinstance(n.func, ast.Attribute) and n.func.attr in MUTATORS:
                    site = f"{relp}:{n.lineno}:{fn.name}:{ast.unparse(n.func)}()"
                    sites.append(site)
                    r = n.func.value.id if isinstance(n.func.value, ast.Name) else None
                    if r not in fresh:
                        failing.append(site + " (mutator call on a non-local object)")
    return not failing, sites, failing


# ---------------------------------------------------------------------------------------------- R-inplace (C09)
NUMPY_FUNCTIONAL = {"asarray", "reshape", "transpose", "broadcast_to", "arange", "concatenate", "split", "diagonal", "add", "subtract", "multiply", "true_divide", "floor_divide",
                    "divide", "logical_and", "logical_or", "where", "maximum", "minimum", "less", "less_equal", "greater", "greater_equal", "equal", "not_equal", "logaddexp", "exp", "log",
                    "negative", "divmod", "sum", "mean", "var", "std", "prod", "count_nonzero", "all", "any", "min", "max", "argmax", "argmin", "take", "dot", "matmul", "einsum", "roll",
                    "flip", "sort", "argsort", "ndarray", "ndarray.__getitem__"}
NUMPY_INPLACE = {"put", "add.at", "subtract.at"}
INPLACE_PRODUCER_NAMES = {"call_inplace", "CallInplace", "UpdateItem", "additem", "subtractitem"}


def rule_inplace():
    sites, failing = [], []
    # (1) producers of in-place IR nodes
    allowed_refs = {("einx/_src/tracer/signature/classical/functions.py", "inplace"), ("einx/_src/tracer/signature/classical/functions.py", "setitem")}
    for f in all_files():
        r = rel(f)
        if r.startswith("einx/_src/tracer/compiler/") or r in ("einx/_src/tracer/signature/python.py", "einx/_src/tracer/visualize.py") or r.startswith("einx/_src/tracer/optimizer/"):
            continue
        t = ast.parse(open(f).read())
        par = parents(t)
        for n in ast.walk(t):
            name = n.attr if isinstance(n, ast.Attribute) else n.id if isinstance(n, ast.Name) else None
            hit = name in INPLACE_PRODUCER_NAMES or (isinstance(n, ast.Attribute) and n.attr == "setitem" and "python" in ast.unparse(n.value))
            if hit:
                w, chain = n, []
                while w in par:
                    w = par[w]
                    if isinstance(w, ast.FunctionDef):
                        chain.append(w.name)
                fn = chain[-1] if chain else "<module>"
                site = f"{r}:{n.lineno}:{fn}:{ast.unparse(n)}"
                sites.append(site)
                if (r, fn) not in allowed_refs:
                    failing.append(site + " (in-place IR node produced outside signature.classical.inplace/setitem)")
    # (2) numpy signature: inplace wrappers only for np.put / np.add.at / np.subtract.at; no setitem/at wrapper
    tree, p = parse("einx/_src/tracer/signature/classical/numpy.py")
    for n in ast.walk(tree):
        if isinstance(n, ast.Call) and ast.unparse(n.func) in ("signature.classical.inplace", "signature.classical.setitem", "signature.classical.at"):
            arg = ast.unparse(n.args[0]) if n.args else ""
            site = f"{rel(p)}:{n.lineno}:{ast.unparse(n)}"
            sites.append(site)
            if not (ast.unparse(n.func) == "signature.classical.inplace" and arg in ("np.put", "np.add.at", "np.subtract.at")):
                failing.append(site + " (unexpected in-place primitive in the numpy signature)")
    # inplace.inner passes its first parameter as xs
    tree, p = parse("einx/_src/tracer/signature/classical/functions.py")
    fn = find_func(tree, "inplace")
    calls = [n for n in ast.walk(fn) if isinstance(n, ast.Call) and ast.unparse(n.func).endswith("call_inplace")] if fn else []
    inner = [n for n in ast.walk(fn) if isinstance(n, ast.FunctionDef) and n is not fn] if fn else []
    if len(calls) != 1 or not inner or not (isinstance(calls[0].args[0], ast.Name) and calls[0].args[0].id == inner[0].args.args[0].arg):
        failing.append(f"{rel(p)}: inplace.inner does not pass its first parameter as the in-place target")
    else:
        sites.append(f"{rel(p)}:{calls[0].lineno}:inplace target = first parameter")
    # (3) `out=` is never passed anywhere in the lowering or the signature layer; signature elementwise does not forward **kwargs
    for f in all_files():
        r = rel(f)
        if not (r.startswith("einx/_src/adapter/") or r.startswith("einx/_src/tracer/signature/")):
            continue
        t = ast.parse(open(f).read())
        for n in ast.walk(t):
            if isinstance(n, ast.Call) and any(k.arg == "out" for k in n.keywords) and "update_at" not in r and not ast.unparse(n.func).startswith(("op(", "inner")):
                # `out=` as an *expression-tree* argument of einx's own named-tensor ops (op(..., out=expr)) is unrelated: exclude by value type
                kv = [k.value for k in n.keywords if k.arg == "out"][0]
                names = {q.id for q in ast.walk(kv) if isinstance(q, ast.Name)}
                if names and names <= {"out", "expr_out", "exprs_out", "len"} or "expr" in ast.unparse(kv):
                    continue  # einx's own `out=` parameter carries output *expressions*, not arrays
                failing.append(f"{r}:{n.lineno}: call passes out={ast.unparse(kv)} (writes into an existing array)")
    fn = find_func(tree, "elementwise")
    if fn is not None:
        inner = [n for n in ast.walk(fn) if isinstance(n, ast.FunctionDef) and n is not fn]
        if inner and inner[0].args.kwarg is not None:
            failing.append(f"{rel(p)}:{inner[0].lineno}: signature elementwise forwards **kwargs (out= would become traceable)")
    # (4) every numpy attribute used by the numpy adapter is functional, the in-place ones only as the primitive of update_at
    tree, p = parse("einx/_src/adapter/numpy/classical_from_numpy.py")
    cls = find_class(tree, "ops")
    par = parents(cls)
    for n in ast.walk(cls):
        if isinstance(n, ast.Attribute) and root_name(n) == "np" and not isinstance(par.get(n), ast.Attribute):
            txt = ast.unparse(n)[3:]
            site = f"{rel(p)}:{n.lineno}:np.{txt}"
            sites.append(site)
            if txt in NUMPY_INPLACE:
                c = par.get(n)
                ok = isinstance(c, ast.Call) and ast.unparse(c.func).endswith("classical_from_numpy.update_at") and c.args and c.args[0] is n
                a = par.get(c)
                ok = ok and isinstance(a, ast.Assign) and ast.unparse(a.targets[0]) in ("self.set_at", "self.add_at", "self.subtract_at")
                if not ok:
                    failing.append(site + " (in-place numpy primitive used outside the *_at registrations)")
            elif txt not in NUMPY_FUNCTIONAL:
                failing.append(site + " (numpy attribute not on the functional allow-list)")
    # module-level wrappers must not call methods that write their receiver
    WRITERS = {"put", "fill", "itemset", "sort", "resize", "setfield", "setflags", "partition", "at"}
    for n in ast.walk(tree):
        if isinstance(n, ast.Call) and isinstance(n.func, ast.Attribute) and n.func.attr in WRITERS and root_name(n.func) not in ("_np", "adapter", "np", "self"):
            failing.append(f"{rel(p)}:{n.lineno}: method call .{n.func.attr}() may write its receiver")
        if isinstance(n, (ast.AugAssign,)) and isinstance(n.target, ast.Subscript):
            failing.append(f"{rel(p)}:{n.lineno}: augmented item assignment")
        if isinstance(n, ast.Assign) and any(isinstance(t, ast.Subscript) and root_name(t) not in ("kwargs",) for t in n.targets):
            failing.append(f"{rel(p)}:{n.lineno}: item assignment {ast.unparse(n.targets[0])}")
    # (7) positional output buffers: numpy ufuncs take `out` as the next positional argument after their operands. Every ufunc registered through
    # classical_from_numpy.elementwise must therefore either be wrapped by _associative_binary_to_nary (which only ever calls it with two arguments) or carry
    # num_args= (operand count checked before the call) - otherwise einx.OP('a, a, a -> a', x, y, z) writes into the caller's z
    fn_el = find_func(tree, "elementwise")
    guards = [n for n in ast.walk(fn_el) if isinstance(n, ast.If) and "num_args" in ast.unparse(n.test) and "len(xs)" in ast.unparse(n.test) and any(isinstance(q, ast.Raise) for q in n.body)] if fn_el else []
    inner_el = [n for n in ast.walk(fn_el) if isinstance(n, ast.FunctionDef) and n is not fn_el] if fn_el else []
    guard_first = bool(guards) and bool(inner_el) and inner_el[0].body and inner_el[0].body[0] is guards[0]
    if not guard_first:
        failing.append(f"{rel(p)}: classical_from_numpy.elementwise does not check the operand count (num_args) before calling the numpy function")
    for n in ast.walk(cls):
        if isinstance(n, ast.Call) and ast.unparse(n.func).endswith("classical_from_numpy.elementwise") and n.args:
            a0 = ast.unparse(n.args[0])
            site = f"{rel(p)}:{n.lineno}:elementwise({a0[:40]})"
            sites.append(site)
            nary = a0.startswith("_associative_binary_to_nary(")
            kw = {k.arg: k.value for k in n.keywords}
            fixed = "num_args" in kw and isinstance(kw["num_args"], ast.Constant) and isinstance(kw["num_args"].value, int)
            if not (nary or fixed):
                failing.append(site + " (numpy function callable with extra positional arguments: the next positional argument of a ufunc is its output buffer)")
    # (6) nowhere in einx: array metadata writers (flags / shape / dtype / strides of an existing object) - the frame condition of C09 also covers
    # the objects passed as sizes and options, which never reach the backend but pass through the cache-key and constraint code
    META_WRITERS = {"setflags", "setfield", "resize", "itemset", "byteswap"}
    n_meta = 0
    for f in all_files():
        r = rel(f)
        t = ast.parse(open(f).read())
        for n in ast.walk(t):
            n_meta += 1
            if isinstance(n, ast.Call) and isinstance(n.func, ast.Attribute) and n.func.attr in META_WRITERS:
                failing.append(f"{r}:{n.lineno}: .{n.func.attr}() changes the metadata/contents of an existing array")
            if isinstance(n, (ast.Assign, ast.AugAssign)):
                for tg in (n.targets if isinstance(n, ast.Assign) else [n.target]):
                    for q in ast.walk(tg):
                        if isinstance(q, ast.Attribute) and isinstance(q.ctx, ast.Store) and (q.attr in ("writeable", "strides") or (q.attr in ("shape", "dtype") and not ast.unparse(q.value).startswith("self"))):
                            failing.append(f"{r}:{n.lineno}: assignment to {ast.unparse(q)} changes an existing object")
    sites.append(f"all einx sources: no array metadata writer ({n_meta} AST nodes scanned)")
    # (5) target position: update_at.inner applies the primitive to its first parameter; update_at_ravelled applies op to the reshaped first tensor
    fn = find_func(tree, "update_at")
    inner = [n for n in ast.walk(fn) if isinstance(n, ast.FunctionDef) and n.name == "inner"][0]
    first = inner.args.args[0].arg
    opcalls = [n for n in ast.walk(inner) if isinstance(n, ast.Call) and isinstance(n.func, ast.Name) and n.func.id == "op"]
    reass = [n for n in ast.walk(inner) if isinstance(n, ast.Assign) and any(isinstance(t, ast.Name) and t.id == first for tt in n.targets for t in ast.walk(tt))]
    ok5 = len(opcalls) == 1 and isinstance(opcalls[0].args[0], ast.Name) and opcalls[0].args[0].id == first and all("to_tensor(" in ast.unparse(r.value) for r in reass)
    sites.append(f"{rel(p)}:{inner.lineno}:update_at.inner target position")
    if not ok5:
        failing.append(f"{rel(p)}:{inner.lineno}: scatter primitive is not applied to (a conversion of) the first parameter")
    tree2, p2 = parse("einx/_src/adapter/decomposednamedtensor_from_classical.py")
    fn = find_func(tree2, "update_at_ravelled")
    inner = [n for n in ast.walk(fn) if isinstance(n, ast.FunctionDef) and n.name == "inner"][0]
    opcalls = [n for n in ast.walk(inner) if isinstance(n, ast.Call) and isinstance(n.func, ast.Name) and n.func.id == "op"]
    src = {ast.unparse(n.targets[0]): ast.unparse(n.value) for n in ast.walk(inner) if isinstance(n, ast.Assign) and len(n.targets) == 1}
    ok6 = len(opcalls) == 1 and ast.unparse(opcalls[0].args[0]) == "tensor"
    # `tensor` must derive only from tensors[0].value via classical.reshape / op
    tens_assigns = [ast.unparse(n.value) for n in ast.walk(inner) if isinstance(n, ast.Assign) and ast.unparse(n.targets[0]) == "tensor"]
    ok6 = ok6 and all(v == "tensors[0].value" or v.startswith("classical.reshape(tensor,") or v.startswith("op(tensor,") for v in tens_assigns)
    sites.append(f"{rel(p2)}:{inner.lineno}:update_at_ravelled target position")
    if not ok6:
        failing.append(f"{rel(p2)}:{inner.lineno}: update primitive is not applied to the (reshaped) first tensor argument")
    return not failing, sites, failing


# ---------------------------------------------------------------------------------------------- R-template (C17) and R-flow (C04/C03/C13)
FORBIDDEN_WORDS = ("for ", "while ", "if ", "else", "lambda", " in ", "yield", "try:", "with ")


def rule_template():
    """every string template of the code generator consists of an allowed statement head with no loop/branch/comprehension keyword"""
    tree, p = parse("einx/_src/tracer/compiler/python/__init__.py")
    fn = find_func(tree, "compile")
    sites, failing = [], []
    for n in ast.walk(fn):
        if isinstance(n, ast.FunctionDef) and n.name in ("to_code", "left_to_code", "slice_to_code") or isinstance(n, ast.Lambda):
            body = n.body if isinstance(n, ast.Lambda) else n
            for c in ast.walk(body):
                lit = None
                if isinstance(c, ast.Constant) and isinstance(c.value, str):
                    lit = c.value
                if lit is None:
                    continue
                site = f"{rel(p)}:{c.lineno}:template {lit!r}"
                sites.append(site)
                if any(w in lit for w in FORBIDDEN_WORDS) or any(ch in lit for ch in (";",)) or lit.strip().startswith(("for", "while", "if", "elif", "else", "try", "with", "class")):
                    failing.append(site + " (control-flow keyword in an emitter template)")
    # the class-level emitters (CodeObject.define / __setitem__) as well
    for cls in [find_class(tree, "CodeObject")]:
        for n in ast.walk(cls):
            if isinstance(n, ast.FunctionDef) and n.name in ("to_code", "left_to_code"):
                for c in ast.walk(n):
                    if isinstance(c, ast.Constant) and isinstance(c.value, str):
                        site = f"{rel(p)}:{c.lineno}:template {c.value!r}"
                        sites.append(site)
                        if any(w in c.value for w in FORBIDDEN_WORDS):
                            failing.append(site)
    # statement heads the generator can emit: def / return / import / from / assert / assignment / call / subscript-update / comment
    heads = sorted({s.split("template ")[1][1:8] for s in sites})
    if len(sites) < 10:
        failing.append("fewer than 10 emitter templates found (contract unbound)")
    return not failing, sites, failing


def rule_flow_compile():
    """(E6) in compile(): the string passed to exec and the string returned as code are the same local, assigned exactly twice in a row
    (list -> joined text) and never re-bound afterwards"""
    tree, p = parse("einx/_src/tracer/compiler/python/__init__.py")
    fn = find_func(tree, "compile")
    sites, failing = [], []
    execs = [n for n in ast.walk(fn) if isinstance(n, ast.Call) and isinstance(n.func, ast.Name) and n.func.id == "exec"]
    nested = [q for q in ast.walk(fn) if isinstance(q, (ast.FunctionDef, ast.Lambda)) and q is not fn]
    in_nested = {id(x) for q in nested for x in ast.walk(q)}
    rets = [n for n in ast.walk(fn) if isinstance(n, ast.Return) and isinstance(n.value, ast.Tuple) and id(n) not in in_nested]
    execs = [e for e in execs if id(e) not in in_nested]
    if len(execs) != 1 or len(rets) != 1:
        return False, [], [f"{rel(p)}: expected exactly one exec() and one `return compiled, code` in compile()"]
    ex = execs[0]
    ret = rets[0]
    name = ex.args[0].id if isinstance(ex.args[0], ast.Name) else None
    rname = ret.value.elts[1].id if isinstance(ret.value.elts[1], ast.Name) else None
    sites.append(f"{rel(p)}:{ex.lineno}:exec({name}) / return (..., {rname})")
    if name is None or name != rname:
        failing.append(f"{rel(p)}:{ret.lineno}: returned code `{rname}` is not the exec'ed text `{name}`")
    assigns = [n for n in ast.walk(fn) if isinstance(n, ast.Assign) and any(isinstance(t, ast.Name) and t.id == name for t in n.targets)]
    assigns = [a for a in assigns if not any(isinstance(q, ast.FunctionDef) and q is not fn and a in list(ast.walk(q)) for q in ast.walk(fn))]
    if any(a.lineno > ex.lineno for a in assigns):
        failing.append(f"{rel(p)}: `{name}` is re-bound after exec()")
    # the compiled object comes from eval in the namespace populated by that exec
    evals = [n for n in ast.walk(fn) if isinstance(n, ast.Call) and isinstance(n.func, ast.Name) and n.func.id == "eval"]
    if len(evals) != 1 or ast.unparse(evals[0].args[1]) != ast.unparse(ex.args[1]):
        failing.append(f"{rel(p)}: compiled object is not evaluated in the namespace of the exec'ed text")
    return not failing, sites, failing


def rule_flow_api():
    """in api.inner (both variants): `function` and `code` come from one cached pair; the only call of `function` is after `if graph: return code`
    and after construct_graph_with_cache returned; nothing else calls backend code before that."""
    tree, p = parse("einx/_src/frontend/api.py")
    sites, failing = [], []
    for outer in ("_api_withoutbackend", "_api_withbackend"):
        fo = find_func(tree, outer)
        inner = [n for n in ast.walk(fo) if isinstance(n, ast.FunctionDef) and n.name == "inner"][0]
        body = inner.body
        idx_pair = [i for i, st in enumerate(body) if isinstance(st, ast.Assign) and ast.unparse(st.targets[0]) in ("function, code", "(function, code)") and "construct_graph_with_cache(" in ast.unparse(st.value)]
        idx_graph = [i for i, st in enumerate(body) if isinstance(st, ast.If) and ast.unparse(st.test) == "graph" and len(st.body) == 1 and ast.unparse(st.body[0]) == "return code"]
        idx_call = [i for i, st in enumerate(body) if any(isinstance(n, ast.Call) and isinstance(n.func, ast.Name) and n.func.id == "function" for n in ast.walk(st))]
        site = f"{rel(p)}:{inner.lineno}:{outer}.inner"
        sites.append(site)
        if not (len(idx_pair) == 1 and len(idx_graph) == 1 and len(idx_call) == 1 and idx_pair[0] < idx_graph[0] < idx_call[0]):
            failing.append(site + " (compiled function is not called strictly after `(function, code) = cache(...)` and `if graph: return code`)")
            continue
        callst = body[idx_call[0]]
        calls = [n for n in ast.walk(callst) if isinstance(n, ast.Call) and isinstance(n.func, ast.Name) and n.func.id == "function"]
        if len(calls) != 1 or ast.unparse(calls[0]) != "function(*tensor_args)":
            failing.append(site + " (compiled function must be called exactly once with *tensor_args)")
        # `function` / `code` are not re-bound between the pair and their uses
        for st in body[idx_pair[0] + 1 :]:
            for n in ast.walk(st):
                if isinstance(n, ast.Name) and isinstance(n.ctx, ast.Store) and n.id in ("function", "code"):
                    failing.append(site + f" (`{n.id}` re-bound after the cached pair was read)")
        # before the pair nothing may execute user callables: tensor_args are only passed to registry.get / _to_tracer
        for st in body[: idx_pair[0]]:
            for n in ast.walk(st):
                if isinstance(n, ast.Call) and any(isinstance(a, ast.Starred) and ast.unparse(a.value) == "tensor_args" for a in n.args):
                    failing.append(site + " (tensor arguments are applied before the graph is built)")
        # the cached callable is lru_cache(partial(_construct_graph, ...)) and nothing else (bound once in the enclosing function)
        binds = [st for st in ast.walk(fo) if isinstance(st, ast.Assign) and any(isinstance(t, ast.Name) and t.id == "construct_graph_with_cache" for t in st.targets)]
        if len(binds) != 1 or not ast.unparse(binds[0].value).startswith("lru_cache(partial(_construct_graph, func=func"):
            failing.append(site + " (construct_graph_with_cache is not exactly lru_cache(partial(_construct_graph, func=func, ...)))")
    # the middle link: in _construct_graph the pair returned is the pair compile() returned - one assignment from backend.compiler.compile(graph,
    # return_code=True), one `return function, code`, neither name bound anywhere else (so the function object and the text come from ONE compile)
    fc = find_func(tree, "_construct_graph")
    site = f"{rel(p)}:{fc.lineno}:_construct_graph"
    sites.append(site)
    stores = [n for n in ast.walk(fc) if isinstance(n, ast.Name) and isinstance(n.ctx, ast.Store) and n.id in ("function", "code")]
    pair = [st for st in fc.body if isinstance(st, ast.Assign) and ast.unparse(st.targets[0]) in ("function, code", "(function, code)")]
    rets = [n for n in ast.walk(fc) if isinstance(n, ast.Return)]
    if not (len(pair) == 1 and len(stores) == 2 and ast.unparse(pair[0].value) == "backend.compiler.compile(graph, return_code=True)"):
        failing.append(site + " (`function`/`code` must be bound exactly once, together, from backend.compiler.compile(graph, return_code=True))")
    if not (len(rets) == 1 and ast.unparse(rets[0]) == "return (function, code)" and fc.body[-1] is rets[0]):
        failing.append(site + " (must end in the single statement `return function, code`)")
    if pair and rets and any(isinstance(n, ast.Name) and n.id in ("function", "code") for st in fc.body[fc.body.index(pair[0]) + 1 : -1] for n in ast.walk(st)):
        failing.append(site + " (the compiled pair is touched between compile() and the return)")
    return not failing, sites, failing


def rule_descflow():
    """in einx_from_namedtensor.op.inner the description string flows only into _parse_op and Invocation (C07, Appendix A5)"""
    tree, p = parse("einx/_src/adapter/einx_from_namedtensor.py")
    fo = find_func(tree, "op")
    sites, failing = [], []
    inner = [n for n in ast.walk(fo) if isinstance(n, ast.FunctionDef) and n.name == "inner"]
    if not inner:
        return False, [], [f"{rel(p)}: op.inner not found"]
    inner = inner[0]
    dname = inner.args.args[0].arg
    par = parents(inner)
    for n in ast.walk(inner):
        if isinstance(n, ast.Name) and n.id == dname and isinstance(n.ctx, ast.Load):
            c = par.get(n)
            while isinstance(c, (ast.keyword, ast.Starred)):
                c = par.get(c)
            site = f"{rel(p)}:{n.lineno}:{ast.unparse(c)[:60]}"
            sites.append(site)
            okc = isinstance(c, ast.Call) and ast.unparse(c.func).split(".")[-1] in ("_parse_op", "Invocation", "isinstance")
            if not okc:
                failing.append(site + " (description string used outside _parse_op / Invocation)")
    if not sites:
        failing.append("description parameter not found (contract unbound)")
    return not failing, sites, failing


# ---------------------------------------------------------------------------------------------- dispatch completeness (C03 / C12)
def rule_dispatch():
    """every element of the real constants _nary_ops / _delimiters_front has a handler in parse()'s if-chains: the `else: raise AssertionError()`
    arms are unreachable. Decided by evaluating the (closed) chain tests on each element of the constants read from the real module."""
    import importlib

    M = importlib.import_module("einx._src.namedtensor.stage1.parse")
    tree, p = parse("einx/_src/namedtensor/stage1/parse.py")
    fn = find_func(tree, "parse_op")
    sites, failing = [], []

    def chain_arms(ifnode):
        arms = []
        n = ifnode
        while True:
            arms.append((n.test, n.body))
            if len(n.orelse) == 1 and isinstance(n.orelse[0], ast.If):
                n = n.orelse[0]
            else:
                arms.append((None, n.orelse))
                break
        return arms

    def is_assert_raise(body):
        return len(body) == 1 and isinstance(body[0], ast.Raise) and "AssertionError" in ast.unparse(body[0])

    found = 0
    elif_nodes = {id(n.orelse[0]) for n in ast.walk(fn) if isinstance(n, ast.If) and len(n.orelse) == 1 and isinstance(n.orelse[0], ast.If)}
    for n in ast.walk(fn):
        if not isinstance(n, ast.If) or id(n) in elif_nodes:
            continue
        arms = chain_arms(n)
        if not (arms[-1][0] is None and is_assert_raise(arms[-1][1])):
            continue
        tests = [ast.unparse(t) for t, _ in arms[:-1]]
        # which variable does the chain dispatch on, and over which constant does it range?
        if all(t.startswith("nary_op == ") for t in tests):
            dom, var = list(M._nary_ops), "nary_op"
        elif all(t.startswith("in_tokens[0].text == ") for t in tests):
            dom, var = sorted(M._delimiters_front), "in_tokens[0].text"
        else:
            continue  # type-dispatch chains over node classes are not part of this obligation
        found += 1
        handled = set()
        for t, _ in arms[:-1]:
            c = t.value if False else t
            lit = ast.literal_eval(c.comparators[0]) if isinstance(c, ast.Compare) and isinstance(c.comparators[0], ast.Constant) else None
            handled.add(lit)
        for v in dom:
            site = f"{rel(p)}:{n.lineno}:{var} == {v!r}"
            sites.append(site)
            if v not in handled:
                failing.append(site + " has no handler: the chain falls through to `raise AssertionError()`")
    if found < 2:
        failing.append(f"{rel(p)}: expected the operator chain and the delimiter chain of parse() (found {found}); contract unbound")
    # and: every literal the lexer accepts is a delimiter, an operator with a handler, or the ellipsis
    lits = set(M._literals)
    other = lits - set(M._nary_ops) - set(M._delimiters_front) - set(M._delimiters_back) - {M._ellipsis}
    if other:
        failing.append(f"{rel(p)}: literals {sorted(other)} are lexed but belong to no syntactic class")
    return not failing, sites, failing


def rule_update_registrations():
    """C14.S.bcast_registered: in the numpy adapter every update_at(...) registration passes broadcast= (np.put cycles, np.add.at needs equal shapes)"""
    tree, p = parse("einx/_src/adapter/numpy/classical_from_numpy.py")
    cls = find_class(tree, "ops")
    sites, failing = [], []
    for n in ast.walk(cls):
        if isinstance(n, ast.Call) and ast.unparse(n.func).endswith("classical_from_numpy.update_at"):
            site = f"{rel(p)}:{n.lineno}:{ast.unparse(n)[:70]}"
            sites.append(site)
            kws = {k.arg for k in n.keywords}
            if "broadcast" not in kws:
                failing.append(site + " (no broadcast= : indices and updates reach the scatter primitive with different shapes)")
            # the scatter primitive is the numpy function whose documented semantics is the contract of C14.P.bcast's callee: np.put (set), np.add.at
            # (accumulating add), np.subtract.at (accumulating subtract in the TARGET's arithmetic) - a composed lambda is outside that contract
            par = parents(cls)
            a = par.get(n)
            tgt = ast.unparse(a.targets[0]) if isinstance(a, ast.Assign) else "?"
            want = {"self.set_at": "np.put", "self.add_at": "np.add.at", "self.subtract_at": "np.subtract.at"}.get(tgt)
            prim = ast.unparse(n.args[0]) if n.args else "?"
            if want is None or prim != want:
                failing.append(site + f" ({tgt} is registered with the primitive `{prim[:60]}`, expected {want})")
    if len(sites) != 3:
        failing.append(f"{rel(p)}: expected 3 update_at registrations, found {len(sites)}")
    return not failing, sites, failing


def rule_no_name_order():
    """C16.S.no_name_order: axis names carry no order - internal names (cse.<n>, unnamed.<uuid>, ellipsis suffixes) are numbered by set iteration order or drawn
    at random, so no decision in the lowering may order or pick by name. Flags sorted()/.sort()/min()/max()/argmin/argmax/argsort calls over expressions that mention
    `name`(s) in the solving and lowering layers; sites whose result only feeds an error message are listed with that reason."""
    MESSAGE_ONLY = {("einx/_src/namedtensor/stage2/solve.py", "sorted(contradicting_axis_names)"): "feeds the text of the AxisSizeError only",
                    ("einx/_src/namedtensor/stage3/solve.py", "sorted({str(x) for x in failed_axes})"): "feeds the text of the error only"}
    sites, failing = [], []
    for f in all_files():
        r = rel(f)
        if not (r.startswith("einx/_src/adapter/") or r.startswith("einx/_src/namedtensor/") or r in ("einx/_src/frontend/ops.py",)):
            continue
        t = ast.parse(open(f).read())
        for n in ast.walk(t):
            if not isinstance(n, ast.Call):
                continue
            fn = n.func.attr if isinstance(n.func, ast.Attribute) else n.func.id if isinstance(n.func, ast.Name) else None
            if fn not in ("sorted", "sort", "min", "max", "argmin", "argmax", "argsort"):
                continue
            args_txt = " ".join(ast.unparse(a) for a in list(n.args) + [k.value for k in n.keywords])
            if "name" not in args_txt.lower():
                continue
            txt = ast.unparse(n)
            site = f"{r}:{n.lineno}:{txt[:80]}"
            sites.append(site)
            if (r, txt) not in MESSAGE_ONLY:
                failing.append(site + " (orders or picks by axis name; names of internal axes depend on set iteration order / random identifiers)")
    return not failing, sites, failing


def rule_names():
    """C04.S.names: generated variable names are drawn from an iterator that filters out Python keywords and EVERY hinted name, and the set of
    hinted names is complete before the first name is drawn (it is built from name_hints up front, not while names are handed out)"""
    tree, p = parse("einx/_src/tracer/compiler/python/__init__.py")
    fn = find_func(tree, "compile")
    sites, failing = [], []
    body = fn.body
    gens = [(i, st) for i, st in enumerate(body) if isinstance(st, ast.Assign) and isinstance(st.value, ast.GeneratorExp) and ast.unparse(st.targets[0]) == "names"]
    draws = [n for n in ast.walk(fn) if isinstance(n, ast.Call) and ast.unparse(n) == "next(names)"]
    if len(gens) != 1 or not draws:
        return False, [], [f"{rel(p)}: expected `names = (name for name in names() if ...)` and next(names) in compile() (contract unbound)"]
    i, g = gens[0]
    cond = " and ".join(ast.unparse(c) for c in g.value.generators[0].ifs)
    sites.append(f"{rel(p)}:{g.lineno}:names filter `{cond}`")
    if "keyword.iskeyword(name)" not in cond or "not keyword.iskeyword" not in cond:
        failing.append(f"{rel(p)}:{g.lineno}: generated names are not filtered against Python keywords")
    m = [c for c in g.value.generators[0].ifs for q in ast.walk(c) if isinstance(q, ast.Compare) and isinstance(q.ops[0], ast.NotIn)]
    resv = None
    for c in g.value.generators[0].ifs:
        for q in ast.walk(c):
            if isinstance(q, ast.Compare) and isinstance(q.ops[0], ast.NotIn) and isinstance(q.comparators[0], ast.Name):
                resv = q.comparators[0].id
    if resv is None:
        failing.append(f"{rel(p)}:{g.lineno}: generated names are not filtered against the hinted names")
    else:
        defs = [st for st in body[:i] if isinstance(st, ast.Assign) and ast.unparse(st.targets[0]) == resv]
        okd = defs and "name_hints.values()" in ast.unparse(defs[-1].value)
        later = [n for st in body[i:] for n in ast.walk(st) if isinstance(n, ast.Call) and isinstance(n.func, ast.Attribute) and root_name(n.func) == resv and n.func.attr in ("add", "update", "discard", "remove")]
        sites.append(f"{rel(p)}:reserved set `{resv}`")
        if not okd:
            failing.append(f"{rel(p)}: the reserved set `{resv}` is not built from all name hints before names are drawn")
        if later:
            failing.append(f"{rel(p)}:{later[0].lineno}: the reserved set `{resv}` is still being modified while names are handed out")
    return not failing, sites, failing


# sites of closure-captured mutable state that are written at call time on the pinned tree, with the reason why they do not affect results
CLOSURE_STATE_ALLOWED = {
    ("einx/_src/util/lru_cache.py", "_with_retrace_warning", "cache_failures"): "diagnostic retrace counter, only active when EINX_WARN_ON_RETRACE > 0; it only decides whether a warning is printed",
}


def rule_closure_state():
    """C10.S.closure_state: objects created once when an operation is built (in an enclosing function) and captured by the function that runs at call time must not be
    mutated at call time - they are shared by every thread that calls the operation. Flags, for every nested function `inner` of `outer`: a name bound in `outer` (outside
    `inner`) to a fresh mutable object (container literal/comprehension/constructor, or an instance of a class defined in einx whose methods store into `self`) that `inner`
    (a) stores into (item/attribute store, `del`, augmented assignment through it), (b) calls a mutator method on, (c) calls ANY method of, or passes on as an argument, when
    it is such a class instance."""
    from .pyvc.exec import MUTATORS

    # classes of einx whose methods (other than __init__) store into self
    stateful = {}
    for f in all_files():
        t = ast.parse(open(f).read())
        for c in ast.walk(t):
            if isinstance(c, ast.ClassDef):
                for m in c.body:
                    if isinstance(m, ast.FunctionDef) and m.name != "__init__" and m.args.args:
                        me = m.args.args[0].arg
                        for n in ast.walk(m):
                            tg = n.targets if isinstance(n, ast.Assign) else [n.target] if isinstance(n, (ast.AugAssign, ast.AnnAssign)) else []
                            if any(isinstance(q, (ast.Attribute, ast.Subscript)) and root_name(q) == me for tt in tg for q in [tt]):
                                stateful[c.name] = rel(f)
                            if isinstance(n, ast.Call) and isinstance(n.func, ast.Attribute) and n.func.attr in MUTATORS and root_name(n.func.value) == me:
                                stateful[c.name] = rel(f)
    sites, failing = [], []
    FRESH_CALLS = {"dict", "list", "set", "defaultdict", "OrderedDict", "deque", "Counter"}
    for f in all_files():
        t = ast.parse(open(f).read())
        for outer in ast.walk(t):
            if not isinstance(outer, ast.FunctionDef):
                continue
            inners = [n for n in outer.body if isinstance(n, ast.FunctionDef)] + [n for st in outer.body for n in ast.walk(st) if isinstance(n, ast.FunctionDef) and n is not st and st is not outer]
            inners = [n for n in {id(q): q for q in inners}.values()]
            if not inners:
                continue
            inner_nodes = {id(x) for q in inners for x in ast.walk(q)}
            fresh = {}
            for st in ast.walk(outer):
                if id(st) in inner_nodes or not isinstance(st, ast.Assign) or len(st.targets) != 1 or not isinstance(st.targets[0], ast.Name):
                    continue
                v = st.value
                kind = None
                if isinstance(v, ast.IfExp):  # `x = arg if arg is not None else {}`: a container either way (the caller's own, or a fresh one) - shared by all calls of the built function
                    v = v.orelse if isinstance(v.orelse, (ast.Dict, ast.List, ast.Set, ast.Call)) else v.body
                if isinstance(v, (ast.Dict, ast.List, ast.Set, ast.ListComp, ast.DictComp, ast.SetComp)):
                    kind = "container"
                elif isinstance(v, ast.Call):
                    fn = v.func.attr if isinstance(v.func, ast.Attribute) else v.func.id if isinstance(v.func, ast.Name) else None
                    if fn in FRESH_CALLS:
                        kind = "container"
                    elif fn in stateful:
                        kind = f"instance of {fn} (methods store into self)"
                if kind:
                    fresh[st.targets[0].id] = (kind, st.lineno)
            if not fresh:
                continue
            # only functions that ESCAPE the enclosing call run later, at call time, possibly in several threads: returned (also inside a container / after
            # decoration by use_name_of / functools.wraps), or stored into an attribute or item. A helper that is merely called while `outer` runs works on
            # per-call locals.
            escaping = set()
            for st in ast.walk(outer):
                if id(st) in inner_nodes:
                    continue
                if isinstance(st, ast.Return) and st.value is not None:
                    escaping |= {n.id for n in ast.walk(st.value) if isinstance(n, ast.Name)}
                if isinstance(st, ast.Assign) and any(isinstance(tt, (ast.Attribute, ast.Subscript)) for tt in st.targets):
                    escaping |= {n.id for n in ast.walk(st.value) if isinstance(n, ast.Name)}
            for q in inners:
                if q.name not in escaping:
                    continue
                params = {a.arg for a in ast.walk(q.args) if isinstance(a, ast.arg)}
                rebound = {n.id for n in ast.walk(q) if isinstance(n, ast.Name) and isinstance(n.ctx, ast.Store)} - {g for n in ast.walk(q) if isinstance(n, ast.Nonlocal) for g in n.names}
                # aliases inside the escaping function: `local = captured` makes `local` another name for the shared object
                alias = {}
                for n in ast.walk(q):
                    if isinstance(n, ast.Assign) and len(n.targets) == 1 and isinstance(n.targets[0], ast.Name) and isinstance(n.value, ast.Name) and n.value.id in fresh and n.value.id not in params and n.value.id not in rebound:
                        alias[n.targets[0].id] = n.value.id
                for n in ast.walk(q):
                    hit = None
                    if isinstance(n, (ast.Assign, ast.AugAssign, ast.Delete)):
                        tg = n.targets if not isinstance(n, ast.AugAssign) else [n.target]
                        for tt in tg:
                            if isinstance(tt, (ast.Attribute, ast.Subscript)) and root_name(tt) in fresh:
                                hit = (root_name(tt), "store")
                            if isinstance(tt, (ast.Attribute, ast.Subscript)) and root_name(tt) in alias:
                                hit = (alias[root_name(tt)], f"store through the alias `{root_name(tt)}`")
                            if isinstance(n, ast.AugAssign) and isinstance(tt, ast.Name) and tt.id in alias and fresh[alias[tt.id]][0] == "container":
                                hit = (alias[tt.id], f"in-place `{tt.id} {type(n.op).__name__}=` through an alias (updates the shared container)")
                    if isinstance(n, ast.Call) and isinstance(n.func, ast.Attribute) and isinstance(n.func.value, ast.Name) and n.func.value.id in alias and n.func.attr in MUTATORS | {"setdefault", "popitem", "discard", "update"}:
                        hit = (alias[n.func.value.id], f".{n.func.attr}() through the alias `{n.func.value.id}`")
                    if isinstance(n, ast.Call) and isinstance(n.func, ast.Attribute):
                        r = root_name(n.func.value) if not isinstance(n.func.value, ast.Name) else n.func.value.id
                        if r in fresh and (n.func.attr in MUTATORS | {"setdefault", "popitem", "discard", "reset"} or fresh[r][0].startswith("instance")):
                            hit = (r, f".{n.func.attr}()")
                    if isinstance(n, ast.Call):
                        for a in list(n.args) + [k.value for k in n.keywords]:
                            if isinstance(a, ast.Name) and a.id in fresh and fresh[a.id][0].startswith("instance"):
                                hit = (a.id, "passed on as an argument")
                    if hit and hit[0] not in params and (hit[0] not in rebound or "alias" in hit[1]):
                        site = f"{rel(f)}:{n.lineno}:{outer.name}.{q.name}:{hit[0]}:{hit[1]}"
                        sites.append(site)
                        if (rel(f), outer.name, hit[0]) in CLOSURE_STATE_ALLOWED:
                            continue
                        failing.append(site + f" ({fresh[hit[0]][0]} created at line {fresh[hit[0]][1]} when `{outer.name}` runs, mutated/used when `{q.name}` runs: shared by all callers of the built function)")
    return not failing, sites, failing


def rule_join_order():
    """C17.S.join_order (also C16): the order of the joined scatter axes (`_join_exprs.take_one`) is a function of axis NAMES, their positions in the expressions and their
    occurrence counts only - decided syntactically: inside take_one (and its helper get_count) the only attribute read is `.name`, the only free names are the ones on the
    white-list below, no set is built, nothing is sorted, no length/value table is consulted."""
    tree, p = parse("einx/_src/adapter/decomposednamedtensor_from_classical.py")
    je = find_func(tree, "_join_exprs")
    sites, failing = [], []
    if je is None:
        return False, [], [f"{rel(p)}: _join_exprs not found"]
    tk = [n for n in ast.walk(je) if isinstance(n, ast.FunctionDef) and n.name == "take_one"]
    if len(tk) != 1:
        return False, [], [f"{rel(p)}: nested take_one not found exactly once in _join_exprs"]
    tk = tk[0]
    ALLOWED_NAMES = {"axes", "axes2", "axis", "name", "get_count", "first_axisnames", "counts", "idx", "axisname", "np", "dict", "list", "sum", "len", "range", "enumerate"}
    ALLOWED_ATTRS = {"name", "argmax", "fromkeys"}
    for n in ast.walk(tk):
        if isinstance(n, ast.Attribute):
            sites.append(f"{rel(p)}:{n.lineno}:.{n.attr}")
            if n.attr not in ALLOWED_ATTRS:
                failing.append(f"{rel(p)}:{n.lineno}: take_one reads `.{n.attr}` (only axis names, positions and counts may decide the order of the joined axes)")
        elif isinstance(n, ast.Name) and isinstance(n.ctx, ast.Load):
            if n.id not in ALLOWED_NAMES:
                failing.append(f"{rel(p)}:{n.lineno}: take_one uses `{n.id}` (not on the white-list of order-neutral names)")
        elif isinstance(n, (ast.Set, ast.SetComp)):
            failing.append(f"{rel(p)}:{n.lineno}: take_one builds a set (iteration order depends on the hash seed)")
    return not failing, sites, failing
