"""Running real einx calls under a per-call alarm, parallel map over cases, capture hooks."""
import multiprocessing as mp
import os
import signal
import traceback
import warnings

warnings.simplefilter("ignore")


class CallTimeout(Exception):
    pass


def with_alarm(seconds, fn):
    """run fn() under a SIGALRM limit. The code under test may swallow the exception raised by the handler (einx.matches has a bare `except:` and would answer
    False; other layers wrap exceptions): whatever fn() returns or raises after the alarm has fired is discarded and reported as a timeout."""
    fired = []

    def h(*a):
        fired.append(1)
        raise CallTimeout()

    old = signal.signal(signal.SIGALRM, h)
    signal.alarm(int(seconds))
    try:
        try:
            r = fn()
        except CallTimeout:
            raise
        except BaseException:
            if fired:
                raise CallTimeout() from None
            raise
    finally:
        signal.alarm(0)
        signal.signal(signal.SIGALRM, old)
    if fired:
        raise CallTimeout()
    return r


def outcome(fn, seconds=15, retry=None):
    """('ok', value) | ('exc', 'module.Class', message) | ('timeout',)
    A timeout under the default limits is reported only if it repeats with four times the limit: on a loaded machine (thorough tiers, mutation matrix, other checks) a forked worker
    occasionally stalls for seconds, and most callers read a non-ok outcome as a failure of the code under test. Callers that probe for hangs on purpose pass a short limit (< 10 s)
    and get no retry."""
    if retry is None:
        retry = seconds >= 10
    for attempt, limit in enumerate([seconds, 4 * seconds] if retry else [seconds]):
        try:
            return ("ok", with_alarm(limit, fn))
        except CallTimeout:
            continue
        except BaseException as e:  # noqa
            return ("exc", type(e).__module__ + "." + type(e).__name__, str(e)[:300])
    return ("timeout",)


def call_einx(op, desc, tensors, kwargs, backend=None, seconds=15):
    import einx

    f = getattr(einx, op)
    kw = dict(kwargs)
    if backend is not None:
        kw["backend"] = backend
    o = outcome(lambda: f(desc, *tensors, **kw), seconds, retry=False)   # the caller's own tensor objects (C09 snapshots them)
    if o[0] == "timeout":  # one retry on copies with four times the limit: a timeout is only reported if it repeats (forked workers under load occasionally stall)
        o = outcome(lambda: f(desc, *[t.copy() if hasattr(t, "copy") else t for t in tensors], **kw), 4 * seconds, retry=False)
    return o


def pmap(fn, items, procs=None):
    """fork-based parallel map (workers inherit the imported modules); fn must be a module-level function"""
    procs = procs or min(16, os.cpu_count() or 1)
    if procs <= 1 or len(items) < 4:
        return [fn(i) for i in items]
    # objects inherited from the parent (z3 ASTs of the proof phase in particular) must never be finalised inside a forked worker:
    # z3's reference counting after fork can stall for seconds. Freeze the parent's heap so the children's cyclic GC ignores it.
    import gc

    gc.collect()
    gc.freeze()
    ctx = mp.get_context("fork")
    with ctx.Pool(procs) as pool:
        return pool.map(fn, items, chunksize=max(1, len(items) // (procs * 8)))
