"""Kernel = one real function of /repo under a sidecar contract, discharged by pyvc (level P)."""
import importlib
import os
import time
import traceback
import z3
from .. import REPO
from ..pyvc import Exec, OutOfSubset, Return, Raise, Path, locate
from ..pyvc.discharge import to_smt2, discharge, discharge_terms


class Kernel:
    id = "?"  # obligation prefix, e.g. C05.P.transpose_merge
    prop = "?"
    file = ""  # relative to /repo
    qual = ""  # 'Class/method' or 'outer/inner'
    module = None  # dotted module name of the real module (constants are read from it)
    allowed_raises = ()
    describe = ""
    z3_timeout = 10
    cvc5_timeout = 20

    # --- to be provided by sidecar contracts -----------------------------------------------------
    def setup(self, eng, bound=None):
        """returns (env, pre, ghost); may set eng.contracts / eng.invariants / eng.axioms"""
        raise NotImplementedError

    def post(self, eng, out, path):
        """add postcondition obligations for one exit"""
        raise NotImplementedError

    def bmc_bounds(self, tier):
        return []

    def twin(self, tier):
        """bounded twin: run the REAL function natively on an exhaustive small scope; returns (evaluations, failures[list of dict])"""
        return 0, []

    # ---------------------------------------------------------------------------------------------
    def path(self):
        return os.path.join(REPO, self.file)

    def real_module(self):
        return importlib.import_module(self.module) if self.module else None

    def generate(self, mode="proof", bound=None):
        node, info = locate(self.path(), self.qual)
        eng = Exec(mode=mode, module=self.real_module(), allowed_raises=self.allowed_raises)
        eng.fnode = node
        env, pre, ghost = self.setup(eng, bound)
        region = self.region(node) if hasattr(self, "region") else None
        if region is not None:
            info["mode"] = "local region under a havoc'd entry state"
            info["region_lines"] = [region[0].lineno, region[-1].end_lineno]
        outs = eng.run(region if region is not None else node, env, pre, ghost)
        n_exits = 0
        for out, p in outs:
            n_exits += 1
            if isinstance(out, Raise) and out.cls not in self.allowed_raises:
                eng.oblige(f"unreachable-raise:{out.cls}:line{out.lineno}", p, z3.BoolVal(False), "safety", out.lineno)
            else:
                self.post(eng, out, p)
        # obligation names must survive pure line shifts: replace 'line<N>' by the ordinal of that line among the lines that carry
        # an obligation of the same exception class, relative to the function (source order)
        import re

        per = {}
        for ob in eng.obligations:
            for m in re.finditer(r"line(\d+)", ob.name):
                per.setdefault(ob.name.split(":")[0], set()).add(int(m.group(1)))
        for ob in eng.obligations:
            key = ob.name.split(":")[0]
            order = sorted(per.get(key, ()))
            ob.name = re.sub(r"line(\d+)", lambda m: f"site{order.index(int(m.group(1))) + 1}", ob.name)
        info["paths"] = n_exits
        info["abstracted"] = sorted(eng.abstracted)
        info["assumed"] = sorted(eng.assumed)
        return eng, info, outs


LEDGER = os.path.join(os.path.dirname(os.path.dirname(os.path.dirname(os.path.abspath(__file__)))), "baseline", "proofs.json")
_ledger_cache = {}


def _sha(*parts):
    import hashlib
    h = hashlib.sha256()
    for p_ in parts:
        h.update(p_ if isinstance(p_, bytes) else str(p_).encode())
        h.update(b"\0")
    return h.hexdigest()


def kernel_module_closure(path):
    """the kernel's sidecar module and every module of vf/kernels it imports (transitively): engine hooks and helpers shared between sidecar files are part of the VC generator"""
    import ast
    kdir = os.path.dirname(os.path.abspath(__file__))
    seen, todo = [], [os.path.abspath(path)]
    while todo:
        f = todo.pop()
        if f in seen or not os.path.exists(f):
            continue
        seen.append(f)
        try:
            tree = ast.parse(open(f).read())
        except SyntaxError:
            continue
        for n in ast.walk(tree):
            names = []
            if isinstance(n, ast.ImportFrom) and n.level == 1:
                names = [n.module] if n.module else [a.name for a in n.names]
            for nm in names:
                cand = os.path.join(kdir, nm.split(".")[0] + ".py")
                if os.path.dirname(f) == kdir and os.path.abspath(cand) != os.path.abspath(__file__):
                    todo.append(cand)
    return sorted(seen)


def machinery_hash(k):
    """hash of everything besides the real source that determines the verification conditions of kernel k: the VC generator, the sidecar contract module, the lemma module"""
    import glob
    import sys
    vf_dir = os.path.dirname(os.path.dirname(os.path.abspath(__file__)))
    files = sorted(glob.glob(os.path.join(vf_dir, "pyvc", "*.py"))) + [os.path.abspath(__file__), os.path.join(vf_dir, "lemmas.py")] + kernel_module_closure(sys.modules[type(k).__module__].__file__)
    key = tuple(files)
    if key not in _ledger_cache:
        _ledger_cache[key] = _sha(*[open(f, "rb").read() for f in files])
    return _ledger_cache[key]


def ledger_key(k, name, ordinal):
    """identifies one verification condition: (kernel, obligation name, ordinal among equally named obligations, content of the real source file,
    content of the generator + sidecar). Same key => the deterministic generator produces the same VC, so an earlier refutation (unsat) still stands."""
    try:
        src = open(k.path(), "rb").read()
    except OSError:
        src = b""
    return _sha(k.id, name, ordinal, src, machinery_hash(k))[:32]


def load_ledger():
    import json
    if "ledger" not in _ledger_cache:
        try:
            _ledger_cache["ledger"] = json.load(open(LEDGER))
        except (OSError, ValueError):
            _ledger_cache["ledger"] = {}
    return _ledger_cache["ledger"]


class KernelResult:
    def __init__(self, kernel):
        self.kernel = kernel
        self.info = {}
        self.obligations = []  # dicts: name, verdict, backend, seconds
        self.status = "ok"  # ok | out_of_subset | unbound | error
        self.detail = ""
        self.cover_ok = None
        self.canary_ok = None
        self.twin_evals = 0
        self.failures = []  # concrete failing inputs found by twin / bmc (replayed natively)
        self.solver_s = 0.0

    @property
    def n(self):
        return len(self.obligations)

    @property
    def discharged(self):
        return sum(1 for o in self.obligations if o["verdict"] == "unsat")

    def undecided(self):
        return [o for o in self.obligations if o["verdict"] != "unsat"]


def run_twin(k, tier, limit=None):
    """the bounded twin runs the REAL function; it is executed in a forked child under a wall-clock limit so that a non-terminating function under test
    cannot hang the check: a timeout is reported as a failing case (the real function did not return on the twin's inputs)"""
    import multiprocessing as mp
    limit = limit or (180 if tier == "quick" else 1800)
    ctx = mp.get_context("fork")
    rd, wr = ctx.Pipe(duplex=False)

    def child():
        try:
            res = k.twin(tier)
            wr.send(("ok", res))
        except BaseException as e:  # noqa
            wr.send(("err", f"{type(e).__name__}: {e}\n{traceback.format_exc()}"))
        finally:
            wr.close()

    import gc
    gc.collect()
    gc.freeze()
    pr = ctx.Process(target=child)
    pr.start()
    wr.close()
    if rd.poll(limit):
        try:
            kind, payload = rd.recv()
        except EOFError:
            kind, payload = "err", "twin child died without a result"
        pr.join(10)
        if kind == "ok":
            return payload
        raise RuntimeError(payload)
    pr.kill()
    pr.join(10)
    return 0, [{"detail": f"the real function did not return within {limit} s on the inputs of this kernel's bounded twin (non-termination or extreme slowdown of the code under test)"}]


def run_kernel(k, tier="quick"):
    res = KernelResult(k)
    t0 = time.time()
    try:
        eng, info, outs = k.generate("proof")
    except OutOfSubset as e:
        res.status, res.detail = "out_of_subset", str(e)
        return _fallback(k, res, tier)
    except (LookupError, KeyError, AttributeError, NotImplementedError, TypeError, AssertionError, z3.Z3Exception) as e:
        res.status, res.detail = "unbound", f"{type(e).__name__}: {e} @ {traceback.format_exc().strip().splitlines()[-2].strip()}"
        return _fallback(k, res, tier)
    res.info = info
    # VC splitting: a conjunctive goal is discharged conjunct by conjunct (one small query each); the obligation holds iff every conjunct is refuted
    def conjuncts(g):
        if z3.is_and(g) and g.num_args() > 0:
            for c in g.children():
                yield from conjuncts(c)
        else:
            yield g  # includes the empty conjunction And() = True

    items, owner = [], []
    for oi, ob in enumerate(eng.obligations):
        for g in conjuncts(ob.goal):
            items.append((f"{k.id}:{ob.name}", eng.axioms, ob.pc, g))
            owner.append(oi)
    n_split = len(items)
    # vacuity guards: (cover) an exit is reachable under the precondition (quantifier-free part of its path condition is satisfiable);
    # (canary) a false goal must come back sat through the same plumbing
    from ..pyvc.engine import _has_quantifier
    covers = [("cover", [], [c for c in p.pc if not _has_quantifier(c)], z3.BoolVal(False)) for out, p in outs[:4]]
    canary = [("canary", [], [], z3.BoolVal(False))]
    mult = 1 if tier == "quick" else 4
    rs = discharge_terms(items + covers + canary, k.z3_timeout * mult, k.cvc5_timeout * mult)
    nq = len(items)
    # verdicts must not flip under load: every obligation that is still open is re-issued once with a 6x budget and little parallelism
    retry = [i for i in range(nq) if rs[i]["verdict"] == "unknown"]
    if retry:
        rs2 = discharge_terms([items[i] for i in retry], k.z3_timeout * mult * 6, k.cvc5_timeout * mult * 3, procs=4)
        for i, r2 in zip(retry, rs2):
            r2["seconds"] = round(r2["seconds"] + rs[i]["seconds"], 3)
            r2["retried"] = True
            rs[i] = r2
    # merge the conjunct verdicts back into one verdict per obligation
    merged = []
    for oi, ob in enumerate(eng.obligations):
        parts = [rs[i] for i in range(nq) if owner[i] == oi]
        vs = [q["verdict"] for q in parts]
        m = dict(parts[0])
        m["verdict"] = "unsat" if all(v == "unsat" for v in vs) else ("sat" if "sat" in vs else "unknown")
        m["seconds"] = round(sum(q["seconds"] for q in parts), 3)
        m["backend"] = "cvc5" if any(q["backend"] == "cvc5" for q in parts) else parts[0]["backend"]
        m["conjuncts"] = len(parts)
        bad = [q for q in parts if q["verdict"] != "unsat"]
        if bad:
            m["reason"], m["model"] = bad[0].get("reason", ""), bad[0].get("model", "")
        m["retried"] = any(q.get("retried") for q in parts)
        merged.append(m)
    rs = merged + rs[nq:]
    nq = len(merged)
    ledger, seen_names = load_ledger(), {}
    for r, ob in zip(rs[:nq], eng.obligations):
        r = dict(r)
        r["kind"] = ob.kind
        r["lineno"] = ob.lineno
        ordn = seen_names[r["name"]] = seen_names.get(r["name"], -1) + 1
        r["ledger_key"] = ledger_key(k, r["name"], ordn)
        if r["verdict"] == "unknown" and tier == "quick" and r["ledger_key"] in ledger:
            # the solvers ran out of budget in THIS run (machine load), but this very VC - same real source file, same generator, same sidecar -
            # was refuted before: the recorded refutation stands (never applied to `sat`, never in the thorough tier, never when the source differs)
            e = ledger[r["ledger_key"]]
            r.update(verdict="unsat", backend="ledger", from_ledger=True, reason=f"solver budget exhausted in this run ({r['seconds']}s); identical VC refuted earlier by {e.get('backend')} in {e.get('seconds')}s (baseline/proofs.json)")
        res.obligations.append(r)
        res.solver_s += r["seconds"]
    cov = rs[nq : nq + len(covers)]
    res.cover_ok = any(c["verdict"] == "sat" for c in cov) if cov else False
    res.canary_ok = rs[-1]["verdict"] == "sat"
    res.gen_s = time.time() - t0
    if res.undecided():
        return _fallback(k, res, tier)
    # even when everything is proved, the twin runs at its quick bound (guards against an unsound engine)
    try:
        res.twin_evals, res.failures = run_twin(k, tier)
    except Exception as e:
        res.twin_error = f"{type(e).__name__}: {e}"
    return res


def _fallback(k, res, tier):
    """proof lost / undecided: consult the bounded twin at the thorough bound (DESIGN §2.2 'Refutation and lost proofs')"""
    try:
        res.twin_evals, res.failures = run_twin(k, "thorough", limit=300)
    except Exception as e:
        res.twin_error = f"{type(e).__name__}: {e}\n{traceback.format_exc()}"
    return res
