"""Sidecar contract for decomposednamedtensor_from_classical.py :: argfind/inner (C01): bringing the bracketed axes of argmax/argmin together.

Local region "identify marked axes ... flatten all marked axes to a single axis": for every rank and every set of bracketed positions,
  * the tensor is transposed iff the bracketed positions are not one contiguous block, and then with the permutation
    (un-bracketed positions in order) ++ (bracketed positions in order);
  * afterwards the bracketed axes occupy the contiguous positions marked_axes[0] .. marked_axes[0]+m-1 of the tensor, in their original order;
  * the shape handed to classical.reshape is the (transposed) shape with exactly that block replaced by one entry of the product length.
"""
import ast
import z3
from ..pyvc import *  # noqa
from .base import Kernel


class ArgfindGroup(Kernel):
    id = "C01.P.argfind_group"
    prop = "C01"
    file = "einx/_src/adapter/decomposednamedtensor_from_classical.py"
    module = "einx._src.adapter.decomposednamedtensor_from_classical"
    qual = "argfind/inner"
    describe = ("argmax/argmin lowering: transpose iff the bracketed positions are not contiguous, with perm = un-bracketed positions (in order) ++ bracketed positions (in order); "
                "afterwards the bracketed axes are the contiguous block starting at marked_axes[0], and reshape receives the (transposed) shape with that block replaced by its product length")

    def region(self, fnode):
        body = fnode.body
        a = [i for i, st in enumerate(body) if isinstance(st, ast.Assign) and ast.unparse(st.targets[0]) == "marked_axes"]
        b = [i for i, st in enumerate(body) if isinstance(st, ast.Assign) and ast.unparse(st) == "axis = marked_axes[0]"]
        if not a or len(b) != 1 or b[0] < a[0]:
            raise LookupError("anchors `marked_axes = ...` / `axis = marked_axes[0]` not found in this order")
        return body[a[0] : b[0] + 1]

    def setup(self, eng, bound=None):
        n = self.n = z3.Int("n")
        ex = self.ex = z3.Array("expr", I, Obj)
        sh = self.sh = z3.Array("shape", I, I)
        marked = self.marked = uf("in_brackets", Obj, B)
        value = uf("attr_value", Obj, I)
        eng.int_attrs = set(eng.int_attrs) | {"value"}
        L = self.L = z3.Int("marked_axes_length")
        k = z3.Int("k")
        mk = self.mk = z3.Function("mk", I, I)  # mk(i) = number of bracketed positions below i
        um = self.um = z3.Function("um", I, I)  # um(i) = number of un-bracketed positions below i
        isM = lambda t: marked(ex[t])  # noqa
        self.isM = isM
        i = z3.Int("i")
        eng.axioms += [mk(0) == 0, um(0) == 0,
                       z3.ForAll([i], z3.Implies(z3.And(0 <= i, i < n), z3.And(mk(i + 1) == mk(i) + z3.If(isM(i), 1, 0), um(i + 1) == um(i) + z3.If(isM(i), 0, 1))))]

        def tensor(shape_arr, tag):
            t = SRec("tensor", ndim=SInt(n), shape=SSeq(shape_arr, n, "int", "tuple"))
            t.tag = tag
            return t

        def c_transpose(e, p, av, kw):
            perm = e.as_seq(av[1], p)
            p.ghost["transpose"] = perm
            ns = fresh("tshape", z3.ArraySort(I, I))
            p.pc.append(e.forall(0, n, lambda q: z3.Select(ns, q) == z3.Select(sh, z3.Select(perm.arr, q))))
            p.ghost["cur_shape"] = ns
            return tensor(ns, "transposed")

        def c_reshape(e, p, av, kw):
            p.ghost["reshape"] = (av[0], e.as_seq(av[1], p))
            return SObj(fresh("reshaped", Obj))

        eng.contracts.update({"stage3.is_in_brackets": SContract(lambda e, p, av, kw: SBool(marked(av[0].t)), "stage3.is_in_brackets (deterministic predicate on an axis)"),
                              "stage3.Brackets": SContract(lambda e, p, av, kw: SObj(uf("Brackets_of", Obj, Obj)(av[0].t))),
                              "stage3.List.create": SContract(lambda e, p, av, kw: SObj(fresh("list_expr", Obj))),
                              "stage3.remove": SContract(lambda e, p, av, kw: SObj(fresh("removed", Obj))),
                              "np.prod": SContract(lambda e, p, av, kw: SInt(L), "np.prod of the bracketed lengths (value not interpreted here)"),
                              "classical.transpose": SContract(c_transpose, "classical.transpose: result shape[k] = shape[perm[k]]"),
                              "classical.reshape": SContract(c_reshape, "classical.reshape")})
        # loop 0: un-bracketed positions -> perm ; loop 1: bracketed positions -> perm ; loop 2: new_shape
        U = um(n)

        def inv0(e, p, it):
            perm = e.as_seq(p.lookup("perm"), p)
            ne = e.as_seq(p.lookup("new_expr"), p, ek="obj")
            t = fresh("t")
            return z3.And(perm.n == um(it), ne.n == perm.n, um(it) + mk(it) == it, um(it) >= 0, mk(it) >= 0,
                          z3.ForAll([t], z3.Implies(z3.And(0 <= t, t < perm.n), z3.And(0 <= z3.Select(perm.arr, t), z3.Select(perm.arr, t) < it, z3.Not(isM(z3.Select(perm.arr, t))), um(z3.Select(perm.arr, t)) == t))))

        def inv1(e, p, it):
            perm = e.as_seq(p.lookup("perm"), p)
            ne = e.as_seq(p.lookup("new_expr"), p, ek="obj")
            t = fresh("t")
            return z3.And(perm.n == U + mk(it), ne.n == perm.n, U + mk(n) == n, um(it) + mk(it) == it, um(it) >= 0, mk(it) >= 0,
                          z3.ForAll([t], z3.Implies(z3.And(0 <= t, t < U), z3.And(0 <= z3.Select(perm.arr, t), z3.Select(perm.arr, t) < n, z3.Not(isM(z3.Select(perm.arr, t))), um(z3.Select(perm.arr, t)) == t))),
                          z3.ForAll([t], z3.Implies(z3.And(U <= t, t < perm.n), z3.And(0 <= z3.Select(perm.arr, t), z3.Select(perm.arr, t) < it, isM(z3.Select(perm.arr, t)), mk(z3.Select(perm.arr, t)) == t - U))))

        def inv2(e, p, it):
            ns = e.as_seq(p.lookup("new_shape"), p)
            M = e.as_seq(p.lookup("marked_axes"), p)
            cur = p.ghost.get("cur_shape", sh)
            a0, m = z3.Select(M.arr, 0), M.n
            t = fresh("t")
            ln = z3.If(it <= a0, it, z3.If(it < a0 + m, a0 + 1, it - m + 1))
            return z3.And(ns.n == ln, z3.ForAll([t], z3.Implies(z3.And(0 <= t, t < ns.n), z3.Select(ns.arr, t) == z3.If(t < a0, z3.Select(cur, t), z3.If(t == a0, L, z3.Select(cur, t + m - 1))))))

        eng.invariants[0], eng.invariants[1], eng.invariants[2] = inv0, inv1, inv2
        eng.local_types = {"new_expr": ("list", "obj"), "perm": ("list", "int"), "new_shape": ("list", "int")}
        env = {"expr": SSeq(ex, n, "obj", "list"), "tensor": tensor(sh, "input"), "classical": SObj(z3.Const("classical", Obj)), "stage3": SObj(z3.Const("stage3", Obj)),
               "np": SObj(z3.Const("np", Obj)), "kwargs": SDict({})}
        pre = [n >= 1, z3.ForAll([k], z3.Implies(z3.And(0 <= k, k < n), sh[k] == value(ex[k]))),
               z3.Exists([k], z3.And(0 <= k, k < n, isM(k)))]  # at least one bracketed axis (einx_from_namedtensor rejects argmax/argmin without brackets with a SemanticError)
        return env, pre, {}

    def post(self, eng, out, p):
        if out is not None and not isinstance(out, Return):
            if isinstance(out, Raise):
                eng.oblige(f"post:no {out.cls}", p, z3.BoolVal(False), "post")
            return
        n, sh, isM = self.n, self.sh, self.isM
        M = eng.as_seq(p.lookup("marked_axes"), p)
        a0, m = z3.Select(M.arr, 0), M.n
        perm = p.ghost.get("transpose")
        rs = p.ghost.get("reshape")
        cur = p.ghost.get("cur_shape", sh)
        t, u = fresh("t"), fresh("u")
        # which original position sits at position k of the tensor that reaches reshape
        src = (lambda kk: z3.Select(perm.arr, kk)) if perm is not None else (lambda kk: kk)
        if perm is not None:
            eng.oblige("post:perm is a permutation of range(n): length n, entries in range, pairwise distinct", p,
                       z3.And(perm.n == n, z3.ForAll([t], z3.Implies(z3.And(0 <= t, t < n), z3.And(0 <= src(t), src(t) < n))),
                              z3.ForAll([t, u], z3.Implies(z3.And(0 <= t, t < u, u < n), src(t) != src(u)))), "post")
            eng.oblige("post:perm lists the un-bracketed positions first and the bracketed positions last, each group in increasing order", p,
                       z3.ForAll([t, u], z3.Implies(z3.And(0 <= t, t < u, u < n), z3.And(z3.Implies(isM(src(t)), isM(src(u))), z3.Implies(isM(src(t)) == isM(src(u)), src(t) < src(u))))), "post")
        else:
            eng.oblige("post:no transpose only if the bracketed positions already form one contiguous block", p,
                       z3.ForAll([t, u, fresh("w")], z3.BoolVal(True)) if False else z3.ForAll([t, u], z3.Implies(z3.And(0 <= t, t < u, u < n, isM(t), isM(u)), z3.ForAll([k_ := fresh("w")], z3.Implies(z3.And(t < k_, k_ < u), isM(k_))))), "post")
        eng.oblige("post:the bracketed axes of the tensor that reaches reshape are exactly positions marked_axes[0] .. marked_axes[0]+m-1", p,
                   z3.And(m >= 1, 0 <= a0, a0 + m <= n, z3.ForAll([t], z3.Implies(z3.And(0 <= t, t < n), isM(src(t)) == z3.And(a0 <= t, t < a0 + m))),
                          z3.ForAll([t], z3.Implies(z3.And(0 <= t, t < m), z3.Select(M.arr, t) == a0 + t))), "post")
        if rs is None:
            eng.oblige("post:classical.reshape is applied", p, z3.BoolVal(False), "post")
            return
        tin, ns = rs
        eng.oblige("post:reshape is applied to the (transposed) tensor", p, z3.BoolVal(isinstance(tin, SRec) and getattr(tin, "tag", "") == ("transposed" if perm is not None else "input")), "post")
        eng.oblige("post:the new shape keeps every un-bracketed length in place and replaces the bracketed block by one entry (the product length)", p,
                   z3.And(ns.n == n - m + 1, z3.ForAll([t], z3.Implies(z3.And(0 <= t, t < ns.n), z3.Select(ns.arr, t) == z3.If(t < a0, z3.Select(cur, t), z3.If(t == a0, self.L, z3.Select(cur, t + m - 1)))))), "post")
        ax = p.lookup("axis")
        eng.oblige("post:the operation is applied along the position of the merged axis", p, ax.t == a0 if isinstance(ax, SInt) else z3.BoolVal(False), "post")

    def twin(self, tier):
        """native: the real argfind.inner with recording classical ops, all bracket patterns up to rank 5 (6 in the thorough tier)"""
        import itertools
        import numpy as np
        import einx._src.adapter.decomposednamedtensor_from_classical as D
        import einx._src.namedtensor.stage3 as stage3
        from einx._src.namedtensor import NamedTensor
        n, fails = 0, []
        maxr = 5 if tier == "quick" else 6
        for r in range(1, maxr + 1):
            for pat in itertools.product([0, 1], repeat=r):
                if not any(pat):
                    continue
                n += 1
                shape = tuple(range(2, 2 + r))
                x = np.random.RandomState(r * 64 + sum(b << i for i, b in enumerate(pat))).rand(*shape)
                names = [f"x{i}" for i in range(r)]
                expr = stage3.List.create([stage3.Brackets(stage3.Axis(nm, s)) if b else stage3.Axis(nm, s) for nm, s, b in zip(names, shape, pat)])
                m = sum(pat)
                out = stage3.List.create([stage3.Axis(nm, s) for nm, s, b in zip(names, shape, pat) if not b] + [stage3.Brackets(stage3.Axis.new_unnamed(m))])

                class C:
                    transpose = staticmethod(lambda t, perm: np.transpose(t, perm))
                    reshape = staticmethod(lambda t, s: np.reshape(t, s))
                    divmod = staticmethod(lambda t, s: np.divmod(t, s))
                    concatenate = staticmethod(lambda ts, axis: np.concatenate(ts, axis=axis))
                    broadcast_to = staticmethod(lambda t, s: np.broadcast_to(t, s))

                try:
                    res = D.argfind(lambda t, axis: np.argmax(t, axis=axis), C)(NamedTensor(x, expr), out).value
                except Exception as e:  # noqa
                    fails.append({"detail": f"argfind.inner(brackets {pat}) raised {type(e).__name__}: {e}"})
                    continue
                # reference: explicit loops
                un = [i for i, b in enumerate(pat) if not b]
                mk = [i for i, b in enumerate(pat) if b]
                ok = True
                for idx in itertools.product(*[range(shape[i]) for i in un]):
                    sl = [slice(None)] * r
                    for i, v in zip(un, idx):
                        sl[i] = v
                    sub = x[tuple(sl)]
                    best = np.unravel_index(np.argmax(sub), sub.shape)
                    if tuple(int(v) for v in np.asarray(res[idx]).reshape(-1)) != tuple(int(v) for v in best):
                        ok = False
                        break
                if not ok:
                    fails.append({"detail": f"argfind.inner(argmax, brackets {pat}, shape {shape}): coordinates differ from the explicit-loop argmax at {idx}"})
        return n, fails[:3]


KERNELS = [ArgfindGroup()]
