"""Sidecar contract for decomposednamedtensor_from_classical.py :: argfind/inner (C01): bringing the bracketed axes of argmax/argmin together.

Local region "identify marked axes ... flatten all marked axes to a single axis": for every rank and every set of bracketed positions,
  * the tensor is transposed iff the bracketed positions are not one contiguous block, and then with the permutation
    (un-bracketed positions in order) ++ (bracketed positions in order);
  * afterwards the bracketed axes occupy the contiguous positions marked_axes[0] .. marked_axes[0]+m-1 of the tensor, in their original order;
  * the shape handed to classical.reshape is the (transposed) shape with exactly that block replaced by one entry of the product length.
"""
import ast
import z3
from ..pyvc import *  # noqa
from .base import Kernel


class ArgfindGroup(Kernel):
    id = "C01.P.argfind_group"
    prop = "C01"
    file = "einx/_src/adapter/decomposednamedtensor_from_classical.py"
    module = "einx._src.adapter.decomposednamedtensor_from_classical"
    qual = "argfind/inner"
    describe = ("argmax/argmin lowering: transpose iff the bracketed positions are not contiguous, with perm = un-bracketed positions (in order) ++ bracketed positions (in order); "
                "afterwards the bracketed axes are the contiguous block starting at marked_axes[0], and reshape receives the (transposed) shape with that block replaced by its product length")

    def region(self, fnode):
        body = fnode.body
        a = [i for i, st in enumerate(body) if isinstance(st, ast.Assign) and ast.unparse(st.targets[0]) == "marked_axes"]
        b = [i for i, st in enumerate(body) if isinstance(st, ast.Assign) and ast.unparse(st) == "axis = marked_axes[0]"]
        if not a or len(b) != 1 or b[0] < a[0]:
            raise LookupError("anchors `marked_axes = ...` / `axis = marked_axes[0]` not found in this order")
        return body[a[0] : b[0] + 1]

    def setup(self, eng, bound=None):
        n = self.n = z3.Int("n")
        ex = self.ex = z3.Array("expr", I, Obj)
        sh = self.sh = z3.Array("shape", I, I)
        marked = self.marked = uf("in_brackets", Obj, B)
        value = uf("attr_value", Obj, I)
        eng.int_attrs = set(eng.int_attrs) | {"value"}
        L = self.L = z3.Int("marked_axes_length")
        k = z3.Int("k")
        isM = lambda t: marked(ex[t])  # noqa
        self.isM = isM

        # term seeding: touch(v) is true for every v (definitional); mentioning touch(M[e]) puts the ground term M[e] in front of the solver so that
        # quantified facts with the pattern M[j] are instantiated at j = e (E-matching cannot invent an arithmetic index like it - a0 by itself)
        touch = z3.Function("touch", I, B)
        v_ = z3.Int("v_")
        eng.axioms += [z3.ForAll([v_], touch(v_))]

        def tensor(shape_arr, tag):
            t = SRec("tensor", ndim=SInt(n), shape=SSeq(shape_arr, n, "int", "tuple"))
            t.tag = tag
            return t

        def c_transpose(e, p, av, kw):
            perm = e.as_seq(av[1], p)
            p.ghost["transpose"] = perm
            ns = fresh("tshape", z3.ArraySort(I, I))
            p.pc.append(e.forall(0, n, lambda q: z3.Select(ns, q) == z3.Select(sh, z3.Select(perm.arr, q))))
            p.ghost["cur_shape"] = ns
            return tensor(ns, "transposed")

        def c_reshape(e, p, av, kw):
            p.ghost["reshape"] = (av[0], e.as_seq(av[1], p))
            return SObj(fresh("reshaped", Obj))

        eng.contracts.update({"stage3.is_in_brackets": SContract(lambda e, p, av, kw: SBool(marked(av[0].t)), "stage3.is_in_brackets (deterministic predicate on an axis)"),
                              "stage3.Brackets": SContract(lambda e, p, av, kw: SObj(uf("Brackets_of", Obj, Obj)(av[0].t))),
                              "stage3.List.create": SContract(lambda e, p, av, kw: SObj(fresh("list_expr", Obj))),
                              "stage3.remove": SContract(lambda e, p, av, kw: SObj(fresh("removed", Obj))),
                              "np.prod": SContract(lambda e, p, av, kw: SInt(L), "np.prod of the bracketed lengths (value not interpreted here)"),
                              "classical.transpose": SContract(c_transpose, "classical.transpose: result shape[k] = shape[perm[k]]"),
                              "classical.reshape": SContract(c_reshape, "classical.reshape")})

        def group(perm, lo, hi, it, want_marked):
            """entries lo..hi-1 of perm: positions below `it` of the wanted kind, strictly increasing, and every such position below `it` occurs"""
            t, u, j = fresh("t"), fresh("u"), fresh("j")
            P = lambda q: z3.Select(perm.arr, q)  # noqa
            kind = (lambda q: isM(q)) if want_marked else (lambda q: z3.Not(isM(q)))
            return z3.And(z3.ForAll([t], z3.Implies(z3.And(lo <= t, t < hi), z3.And(0 <= P(t), P(t) < it, kind(P(t))))),
                          z3.ForAll([t, u], z3.Implies(z3.And(lo <= t, t < u, u < hi), P(t) < P(u))),
                          z3.ForAll([j], z3.Implies(z3.And(0 <= j, j < it, kind(j)), z3.Exists([t], z3.And(lo <= t, t < hi, P(t) == j)))))

        self.group = group

        # loop 0: un-bracketed positions -> perm ; loop 1: bracketed positions -> perm ; loop 2: new_shape
        def inv0(e, p, it):
            perm = e.as_seq(p.lookup("perm"), p)
            ne = e.as_seq(p.lookup("new_expr"), p, ek="obj")
            return z3.And(perm.n >= 0, perm.n <= it, ne.n == perm.n, group(perm, 0, perm.n, it, False))

        def inv1(e, p, it):
            perm = e.as_seq(p.lookup("perm"), p)
            ne = e.as_seq(p.lookup("new_expr"), p, ek="obj")
            U0 = e.as_seq(p.ghost["entry1"]["perm"], p).n
            p.ghost["U0"] = U0
            return z3.And(0 <= U0, U0 <= perm.n, ne.n == perm.n, group(perm, 0, U0, n, False), group(perm, U0, perm.n, it, True))

        def inv2(e, p, it):
            ns = e.as_seq(p.lookup("new_shape"), p)
            M = e.as_seq(p.lookup("marked_axes"), p)
            cur = p.ghost.get("cur_shape", sh)
            a0, m = z3.Select(M.arr, 0), M.n
            t = fresh("t")
            ln = z3.If(it <= a0, it, z3.If(it < a0 + m, a0 + 1, it - m + 1))
            return z3.And(ns.n == ln, touch(z3.Select(M.arr, it - a0)), self.new_shape_spec(ns, cur, a0, m))

        eng.invariants[0], eng.invariants[1], eng.invariants[2] = inv0, inv1, inv2
        eng.local_types = {"new_expr": ("list", "obj"), "perm": ("list", "int"), "new_shape": ("list", "int")}

        # ghost code in front of `unmarked_expr = ...` (both branches have joined the straight-line code again): closed form of marked_axes
        def ghost_closed_form(e, p):
            M = e.as_seq(p.lookup("marked_axes"), p)
            t = fresh("t")
            def cut(name, fact, assume=None):
                e.oblige(name, p, fact, "post")
                p.pc.append(fact if assume is None else assume)

            if p.ghost.get("transpose") is None:
                # contiguous branch: consecutive entries differ by one (the `all(...)` test, or fewer than two entries) -> lemma L4
                a0_, j_ = z3.Select(M.arr, 0), fresh("j")
                cut("ghost:every entry of marked_axes is a bracketed position", z3.ForAll([t], z3.Implies(z3.And(0 <= t, t < M.n), z3.And(0 <= z3.Select(M.arr, t), z3.Select(M.arr, t) < n, isM(z3.Select(M.arr, t))))))
                cut("ghost:every bracketed position is an entry of marked_axes", z3.ForAll([t], z3.Implies(z3.And(0 <= t, t < n, isM(t)), z3.Exists([j_], z3.And(0 <= j_, j_ < M.n, z3.Select(M.arr, j_) == t)))))
                e.oblige("lemma-premise:L4:consecutive bracketed positions differ by one (is_contiguous holds on this branch)", p,
                         z3.ForAll([t], z3.Implies(z3.And(0 <= t, t + 1 < M.n), z3.Select(M.arr, t + 1) == z3.Select(M.arr, t) + 1)), "post")
                e.assumed.add("ghost lemma L4 unit_steps_closed_form (lemmas/Lemmas.lean, checked by Lean 4 + Mathlib); premise is an obligation of this kernel")
                p.pc.append(z3.ForAll([t], z3.Implies(z3.And(0 <= t, t < M.n), z3.Select(M.arr, t) == a0_ + t)))
                # (proved with the seeded term touch(M[t]); assumed without it - touch is true everywhere by its defining axiom)
                cut("ghost:the positions marked_axes[0] + j (j < m) are bracketed and in range", z3.ForAll([t], z3.Implies(z3.And(0 <= t, t < M.n, touch(z3.Select(M.arr, t))), z3.And(0 <= a0_ + t, a0_ + t < n, isM(a0_ + t)))),
                    assume=z3.ForAll([t], z3.Implies(z3.And(0 <= t, t < M.n), z3.And(0 <= a0_ + t, a0_ + t < n))))
                p.ghost["block_is_bracketed"] = z3.ForAll([t], z3.Implies(z3.And(0 <= t, t < M.n), isM(a0_ + t)))
                p.pc.append(p.ghost["block_is_bracketed"])  # second half of the fact just proved
                cut("ghost:at least one bracketed position", M.n >= 1)
                cut("ghost:first and last entry of marked_axes", z3.And(z3.Select(M.arr, M.n - 1) == a0_ + M.n - 1, 0 <= a0_, z3.Select(M.arr, M.n - 1) < n))
                cut("ghost:the block ends inside the tensor", z3.And(0 <= a0_, a0_ + M.n <= n))
                cut("ghost:every bracketed position lies in marked_axes[0] .. marked_axes[0]+m-1", z3.ForAll([t], z3.Implies(z3.And(0 <= t, t < n, isM(t)), z3.And(a0_ <= t, t < a0_ + M.n))))
            else:
                # transposed branch: marked_axes = list(range(n - m, n)); the number of bracketed entries of perm equals m (lemma L1: both
                # are duplicate-free enumerations of the bracketed positions), so the bracketed block of perm is exactly [n - m, n)
                perm = p.ghost["transpose"]
                U0 = p.ghost["U0"]
                M0 = p.ghost["marked_axes_filter"]
                j, x = fresh("j"), fresh("x")
                memM = z3.Exists([j], z3.And(0 <= j, j < M0.n, z3.Select(M0.arr, j) == x))
                memP = z3.Exists([j], z3.And(U0 <= j, j < perm.n, z3.Select(perm.arr, j) == x))
                u = fresh("u")
                e.oblige("lemma-premise:L1:the comprehension of bracketed positions is duplicate-free", p, z3.ForAll([t, u], z3.Implies(z3.And(0 <= t, t < u, u < M0.n), z3.Select(M0.arr, t) != z3.Select(M0.arr, u))), "post")
                e.oblige("lemma-premise:L1:the bracketed block of perm is duplicate-free", p, z3.ForAll([t, u], z3.Implies(z3.And(U0 <= t, t < u, u < perm.n), z3.Select(perm.arr, t) != z3.Select(perm.arr, u))), "post")
                e.oblige("lemma-premise:L1:both enumerate exactly the bracketed positions", p, z3.ForAll([x], memM == memP), "post")
                e.assumed.add("ghost lemma L1 nodup_same_members_same_length (lemmas/Lemmas.lean, checked by Lean 4 + Mathlib); premises are obligations of this kernel")
                p.pc.append(perm.n - U0 == M0.n)
                # and perm as a whole enumerates range(n) without duplicates -> len(perm) == n (L1 against the identity list)
                e.oblige("lemma-premise:L1:perm is duplicate-free", p, z3.ForAll([t, u], z3.Implies(z3.And(0 <= t, t < u, u < perm.n), z3.Select(perm.arr, t) != z3.Select(perm.arr, u))), "post")
                e.oblige("lemma-premise:L1:every entry of perm is in range(n)", p, z3.ForAll([j], z3.Implies(z3.And(0 <= j, j < perm.n), z3.And(0 <= z3.Select(perm.arr, j), z3.Select(perm.arr, j) < n))), "post")
                for kind_, cond_ in (("bracketed", isM(x)), ("un-bracketed", z3.Not(isM(x)))):
                    cut(f"lemma-premise:L1:every {kind_} position of range(n) is an entry of perm", z3.ForAll([x], z3.Implies(z3.And(0 <= x, x < n, cond_), z3.Exists([j], z3.And(0 <= j, j < perm.n, z3.Select(perm.arr, j) == x)))))
                p.pc.append(perm.n == n)

        def ghost_remember_filter(e, p):
            p.ghost["marked_axes_filter"] = e.as_seq(p.lookup("marked_axes"), p)

        eng.ghost_before = [("is_contiguous =", ghost_remember_filter), ("unmarked_expr =", ghost_closed_form)]
        env = {"expr": SSeq(ex, n, "obj", "list"), "tensor": tensor(sh, "input"), "classical": SObj(z3.Const("classical", Obj)), "stage3": SObj(z3.Const("stage3", Obj)),
               "np": SObj(z3.Const("np", Obj)), "kwargs": SDict({})}
        pre = [n >= 1, z3.ForAll([k], z3.Implies(z3.And(0 <= k, k < n), sh[k] == value(ex[k]))),
               z3.Exists([k], z3.And(0 <= k, k < n, isM(k)))]  # at least one bracketed axis (einx_from_namedtensor rejects argmax/argmin without brackets with a SemanticError)
        return env, pre, {}

    def new_shape_spec(self, ns, cur, a0, m):
        """entries before the block are the tensor's lengths, the block's slot holds the product length, entries after it are the lengths shifted by m - 1"""
        t = fresh("t")
        return z3.And(z3.ForAll([t], z3.Implies(z3.And(0 <= t, t < ns.n, t < a0), z3.Select(ns.arr, t) == z3.Select(cur, t))),
                      z3.Implies(a0 < ns.n, z3.Select(ns.arr, a0) == self.L),
                      z3.ForAll([t], z3.Implies(z3.And(a0 < t, t < ns.n), z3.Select(ns.arr, t) == z3.Select(cur, t + m - 1))))

    def post(self, eng, out, p):
        if out is not None and not isinstance(out, Return):
            if isinstance(out, Raise):
                eng.oblige(f"post:no {out.cls}", p, z3.BoolVal(False), "post")
            return
        n, sh, isM = self.n, self.sh, self.isM
        M = eng.as_seq(p.lookup("marked_axes"), p)
        a0, m = z3.Select(M.arr, 0), M.n
        perm = p.ghost.get("transpose")
        rs = p.ghost.get("reshape")
        cur = p.ghost.get("cur_shape", sh)
        t, u, w = fresh("t"), fresh("u"), fresh("w")
        src = (lambda kk: z3.Select(perm.arr, kk)) if perm is not None else (lambda kk: kk)
        if perm is not None:
            U0 = p.ghost["U0"]
            eng.oblige("post:perm is a permutation of range(n): length n, entries in range, pairwise distinct", p,
                       z3.And(perm.n == n, z3.ForAll([t], z3.Implies(z3.And(0 <= t, t < n), z3.And(0 <= src(t), src(t) < n))),
                              z3.ForAll([t, u], z3.Implies(z3.And(0 <= t, t < u, u < n), src(t) != src(u)))), "post")
            eng.oblige("post:perm lists the un-bracketed positions first and the bracketed positions last, each group in increasing order", p,
                       z3.ForAll([t, u], z3.Implies(z3.And(0 <= t, t < u, u < n), z3.And(z3.Implies(isM(src(t)), isM(src(u))), z3.Implies(isM(src(t)) == isM(src(u)), src(t) < src(u))))), "post")
        # (without a transpose, contiguity of the bracketed positions is exactly the three block obligations below with src = identity)
        eng.oblige("post:marked_axes is the contiguous block marked_axes[0] .. marked_axes[0]+m-1 inside the tensor", p,
                   z3.And(m >= 1, 0 <= a0, a0 + m <= n, z3.ForAll([t], z3.Implies(z3.And(0 <= t, t < m), z3.Select(M.arr, t) == a0 + t))), "post")
        eng.oblige("post:every position of that block holds a bracketed axis of the tensor that reaches reshape", p,
                   p.ghost["block_is_bracketed"] if perm is None and "block_is_bracketed" in p.ghost else z3.ForAll([t], z3.Implies(z3.And(0 <= t, t < m), isM(src(a0 + t)))), "post")
        eng.oblige("post:no position outside that block holds a bracketed axis", p, z3.ForAll([t], z3.Implies(z3.And(0 <= t, t < n, isM(src(t))), z3.And(a0 <= t, t < a0 + m))), "post")
        if rs is None:
            eng.oblige("post:classical.reshape is applied", p, z3.BoolVal(False), "post")
            return
        tin, ns = rs
        eng.oblige("post:reshape is applied to the (transposed) tensor", p, z3.BoolVal(isinstance(tin, SRec) and getattr(tin, "tag", "") == ("transposed" if perm is not None else "input")), "post")
        eng.oblige("post:the new shape keeps every un-bracketed length in place and replaces the bracketed block by one entry (the product length)", p,
                   z3.And(ns.n == n - m + 1, self.new_shape_spec(ns, cur, a0, m)), "post")
        ax = p.lookup("axis")
        eng.oblige("post:the operation is applied along the position of the merged axis", p, ax.t == a0 if isinstance(ax, SInt) else z3.BoolVal(False), "post")

    def twin(self, tier):
        """native: the real argfind.inner through the public API, all bracket patterns up to rank 5 (6 in the thorough tier), against explicit loops"""
        import itertools
        import numpy as np
        import einx
        n, fails = 0, []
        maxr = 5 if tier == "quick" else 6
        for r in range(1, maxr + 1):
            for pat in itertools.product([0, 1], repeat=r):
                if not any(pat):
                    continue
                n += 1
                shape = tuple(range(2, 2 + r))
                x = np.random.RandomState(r * 64 + sum(b << i for i, b in enumerate(pat))).rand(*shape)
                names = [f"x{i}" for i in range(r)]
                m = sum(pat)
                un = [i for i, b in enumerate(pat) if not b]
                desc = " ".join(f"[{nm}]" if b else nm for nm, b in zip(names, pat)) + " -> " + " ".join([names[i] for i in un] + [f"[{m}]"])
                try:
                    res = np.asarray(einx.argmax(desc, x))
                except Exception as e:  # noqa
                    fails.append({"detail": f"einx.argmax({desc!r}, shape {shape}) raised {type(e).__name__}: {e}"})
                    continue
                for idx in itertools.product(*[range(shape[i]) for i in un]):
                    sl = [slice(None)] * r
                    for i, v in zip(un, idx):
                        sl[i] = v
                    sub = x[tuple(sl)]
                    best = np.unravel_index(np.argmax(sub), sub.shape)
                    if tuple(int(v) for v in np.asarray(res[idx]).reshape(-1)) != tuple(int(v) for v in best):
                        fails.append({"detail": f"einx.argmax({desc!r}, shape {shape}): coordinates at {idx} are {np.asarray(res[idx]).tolist()}, the explicit-loop argmax is {list(map(int, best))}"})
                        break
        return n, fails[:3]


KERNELS = [ArgfindGroup()]


class ExprToAxis(Kernel):
    id = "C15.P.expr_to_axis"
    prop = "C15"
    file = "einx/_src/adapter/decomposednamedtensor_from_classical.py"
    module = "einx._src.adapter.decomposednamedtensor_from_classical"
    qual = "_expr_to_axis"
    describe = ("_expr_to_axis(expr) = the tuple of positions of the bracketed children of expr, strictly increasing and complete (this is the axis= argument handed to reductions, "
                "shape-preserving operations and adapted numpy-like reduce functions)")

    def setup(self, eng, bound=None):
        n = self.n = z3.Int("n")
        ex = self.ex = z3.Array("expr", I, Obj)
        marked = uf("in_brackets", Obj, B)
        self.isM = lambda t: marked(ex[t])  # noqa
        eng.contracts["stage3.is_in_brackets"] = SContract(lambda e, p, av, kw: SBool(marked(av[0].t)), "stage3.is_in_brackets (deterministic predicate on a node)")
        eng.local_types = {"idxs": ("list", "int")}

        def inv(e, p, it):
            idxs = e.as_seq(p.lookup("idxs"), p)
            t, u, j = fresh("t"), fresh("u"), fresh("j")
            A = lambda q: z3.Select(idxs.arr, q)  # noqa
            return z3.And(idxs.n >= 0, idxs.n <= it,
                          z3.ForAll([t], z3.Implies(z3.And(0 <= t, t < idxs.n), z3.And(0 <= A(t), A(t) < it, self.isM(A(t))))),
                          z3.ForAll([t, u], z3.Implies(z3.And(0 <= t, t < u, u < idxs.n), A(t) < A(u))),
                          z3.ForAll([j], z3.Implies(z3.And(0 <= j, j < it, self.isM(j)), z3.Exists([t], z3.And(0 <= t, t < idxs.n, A(t) == j)))))

        eng.invariants[0] = inv
        return {"expr": SSeq(ex, n, "obj", "list"), "stage3": SObj(z3.Const("stage3", Obj))}, [n >= 0], {}

    def post(self, eng, out, p):
        if not isinstance(out, Return):
            eng.oblige("post:returns", p, z3.BoolVal(False), "post")
            return
        r = eng.as_seq(out.v, p)
        n = self.n
        t, u, j = fresh("t"), fresh("u"), fresh("j")
        A = lambda q: z3.Select(r.arr, q)  # noqa
        eng.oblige("post:result is a tuple", p, z3.BoolVal(getattr(out.v, "pykind", "") == "tuple"), "post")
        eng.oblige("post:every entry is the position of a bracketed child", p, z3.ForAll([t], z3.Implies(z3.And(0 <= t, t < r.n), z3.And(0 <= A(t), A(t) < n, self.isM(A(t))))), "post")
        eng.oblige("post:entries are strictly increasing", p, z3.ForAll([t, u], z3.Implies(z3.And(0 <= t, t < u, u < r.n), A(t) < A(u))), "post")
        eng.oblige("post:every bracketed position occurs", p, z3.ForAll([j], z3.Implies(z3.And(0 <= j, j < n, self.isM(j)), z3.Exists([t], z3.And(0 <= t, t < r.n, A(t) == j)))), "post")

    def twin(self, tier):
        import itertools
        import einx._src.adapter.decomposednamedtensor_from_classical as D
        import einx._src.namedtensor.stage3 as stage3
        n, fails = 0, []
        for r in range(0, 6):
            for pat in itertools.product([0, 1], repeat=r):
                n += 1
                expr = stage3.List.create([stage3.Brackets(stage3.Axis(f"x{i}", 2)) if b else stage3.Axis(f"x{i}", 2) for i, b in enumerate(pat)])
                got = D._expr_to_axis(expr)
                exp = tuple(i for i, b in enumerate(pat) if b)
                if got != exp:
                    fails.append({"detail": f"_expr_to_axis(brackets {pat}) = {got}, expected {exp}"})
        return n, fails[:3]


KERNELS_C15 = [ExprToAxis()]
