"""Sidecar contract for frontend/backend.py :: Backend.__getattr__/op (C01: 'a backend that cannot express the call raises OperationNotSupportedError; it never returns a differently-valued result')."""
import ast
import z3
from ..pyvc import *  # noqa
from .base import Kernel


class BackendOp(Kernel):
    id = "C01.P.backend_op"
    prop = "C01"
    file = "einx/_src/frontend/backend.py"
    module = "einx._src.frontend.backend"
    qual = "Backend/__getattr__/op"
    allowed_raises = ("OperationNotSupportedError",)
    describe = ("backend.<name>(*args, **kwargs): OperationNotSupportedError exactly when the backend's operation table has no entry <name>; otherwise the table entry is applied exactly once "
                "to the caller's positional and keyword arguments and its result is returned unchanged (symbolic operation table, any name)")

    def setup(self, eng, bound=None):
        self.has, self.val = z3.Array("ops_has", Obj, B), z3.Array("ops_val", Obj, Obj)
        self.name = z3.Const("name", Obj)
        self.a0, self.k0 = z3.Const("arg0", Obj), z3.Const("kwarg_out", Obj)
        me = SRec("Backend", ops=SMap(self.has, self.val, "obj", "obj"), name=SConc("numpy"))
        orig_compare = eng.compare

        def compare(op, a, b, p):
            if isinstance(b, SMap) and isinstance(op, (ast.In, ast.NotIn)) and isinstance(a, SObj):
                e_ = z3.Select(b.has, a.t)
                return e_ if isinstance(op, ast.In) else z3.Not(e_)
            return orig_compare(op, a, b, p)

        eng.compare = compare
        orig_sub = eng.ev_Subscript

        def ev_Subscript(n, p):
            if isinstance(n.ctx, ast.Load) and ast.unparse(n.value) == "self.ops":
                for k, p1 in eng.ev(n.slice, p):
                    m = p1.lookup("self").f["ops"]
                    q = eng.may_raise("KeyError", z3.Select(m.has, k.t), p1, f"ops:line{n.lineno}", n.lineno)
                    if q is not None:
                        r = SObj(z3.Select(m.val, k.t))
                        r.table_entry = True
                        yield r, q
                return
            yield from orig_sub(n, p)

        eng.ev_Subscript = ev_Subscript
        orig_apply = eng.apply

        def apply(f, av, kw, p, n):
            if isinstance(f, SObj) and getattr(f, "table_entry", False):
                p.ghost["calls"] = list(p.ghost.get("calls", [])) + [(f, list(av), dict(kw))]
                yield SObj(uf("result_of", Obj, Obj)(f.t)), p
                return
            yield from orig_apply(f, av, kw, p, n)

        eng.apply = apply
        return {"self": me, "name": SObj(self.name), "args": STup([SObj(self.a0)], "tuple"), "kwargs": SDict({"out": SObj(self.k0)})}, [], {}

    def post(self, eng, out, p):
        known = z3.Select(self.has, self.name)
        calls = p.ghost.get("calls", [])
        if isinstance(out, Raise):
            eng.oblige("post:OperationNotSupportedError only for an operation missing from the backend's table", p, z3.Not(known), "post")
            eng.oblige("post:nothing is executed when the operation is missing", p, z3.BoolVal(not calls), "post")
            return
        eng.oblige("post:normal exit only for an operation in the table", p, known, "post")
        ok = len(calls) == 1 and len(calls[0][1]) == 1 and sorted(calls[0][2]) == ["out"]
        eng.oblige("post:the table entry for exactly this name is applied once, to the caller's arguments", p,
                   z3.And(calls[0][0].t == z3.Select(self.val, self.name), calls[0][1][0].t == self.a0, calls[0][2]["out"].t == self.k0) if ok else z3.BoolVal(False), "post")
        r = out.v
        eng.oblige("post:its result is returned unchanged", p, r.t == uf("result_of", Obj, Obj)(z3.Select(self.val, self.name)) if isinstance(r, SObj) else z3.BoolVal(False), "post")

    def twin(self, tier):
        import einx._src.frontend.backend as B
        from einx._src.frontend.errors import OperationNotSupportedError
        n, fails = 0, []
        seen = []
        be = B.Backend(ops={"add": lambda *a, **k: seen.append((a, k)) or "sum"}, name="fake", priority=0, optimizations=[], compiler=None, is_supported_tensor=lambda t: False, get_shape=None)
        n += 1
        if be.add(1, 2, out="o") != "sum" or seen != [((1, 2), {"out": "o"})]:
            fails.append({"detail": "table entry not applied exactly once to the caller's arguments"})
        for missing in ("subtract", "get_at", "nonsense"):
            n += 1
            try:
                getattr(be, missing)(1)
                fails.append({"detail": f"missing operation {missing} returned a value"})
            except OperationNotSupportedError:
                pass
        return n, fails[:3]


KERNELS = [BackendOp()]
