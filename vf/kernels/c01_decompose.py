"""Sidecar contract for namedtensor_from_decomposednamedtensor.py :: Decomposer/_decompose_single (C01/C08): one step of 'decompose repeated axes'.

Local region = the body of `if count > 1:` inside the loop over repeated names. For the CURRENT expression (whatever earlier steps did to it):
  * indices_in lists exactly the positions of the Axis nodes named axis_name in the current expression, in increasing order; index_out is the first of them;
  * classical.diagonal receives (tensor, axes_in=indices_in, axis_out=index_out) - so the positions refer to the tensor as it is now;
  * the new expression keeps every node of the current one except the later occurrences of that name, in order.
"""
import ast
import z3
from ..pyvc import *  # noqa
from .base import Kernel


class DecomposeRepeated(Kernel):
    id = "C01.P.decompose_repeated"
    prop = "C01"
    file = "einx/_src/adapter/namedtensor_from_decomposednamedtensor.py"
    module = "einx._src.adapter.namedtensor_from_decomposednamedtensor"
    qual = "Decomposer/_decompose_single"
    describe = ("one step of merging a repeated un-bracketed axis name: the positions handed to classical.diagonal are exactly the positions of that name in the CURRENT expression "
                "(increasing), the merged axis stays at the first of them, and the new expression is the current one without the later occurrences (order kept)")

    def region(self, fnode):
        hits = [n for n in ast.walk(fnode) if isinstance(n, ast.If) and ast.unparse(n.test) == "count > 1" and any("diagonal" in ast.unparse(st) for st in n.body)]
        if len(hits) != 1:
            raise LookupError("anchor `if count > 1:` (with the diagonal call) not found exactly once in _decompose_single")
        return hits[0].body

    def setup(self, eng, bound=None):
        n = self.n = z3.Int("n")
        ex = self.ex = z3.Array("expr", I, Obj)
        nm = self.nm = z3.Const("axis_name", Obj)
        is_axis = uf("is_stage3.Axis", Obj, B)
        name = uf("attr_name", Obj, Obj)
        self.hit = lambda t: z3.And(is_axis(ex[t]), name(ex[t]) == nm)  # noqa
        readd = self.readd = uf("readd_brackets", Obj, Obj)

        def c_diag(e, p, av, kw):
            p.ghost["diagonal"] = (av, kw)
            return SObj(fresh("diag_tensor", Obj))

        def c_create(e, p, av, kw):
            p.ghost["new_expr"] = e.as_seq(av[0], p, ek="obj")
            return SObj(fresh("new_expr_obj", Obj))

        eng.contracts.update({"self.classical.diagonal": SContract(c_diag, "classical.diagonal"), "stage3.List.create": SContract(c_create, "stage3.List.create (records the node list)"),
                              "readd_brackets": SContract(lambda e, p, av, kw: SObj(readd(av[0].t)), "readd_brackets (a copy of the node with its brackets)")})
        k = z3.Int("k")
        env = {"expr": SSeq(ex, n, "obj", "list"), "tensor": SObj(z3.Const("tensor", Obj)), "axis_name": SObj(nm), "count": SInt(z3.Int("count")), "self": SObj(z3.Const("self", Obj)),
               "stage3": SObj(z3.Const("stage3", Obj)), "readd_brackets": eng.contracts["readd_brackets"]}
        # the name occurs at least once in the current expression (it was counted from this very expression family; each step keeps the first occurrence)
        pre = [n >= 0, z3.Exists([k], z3.And(0 <= k, k < n, self.hit(k))), uf("is_None", Obj, B)(z3.Const("tensor", Obj)) == z3.BoolVal(False)]
        return env, pre, {}

    def post(self, eng, out, p):
        if isinstance(out, Raise):
            eng.oblige(f"post:no {out.cls}", p, z3.BoolVal(False), "post")
            return
        n, ex, hit = self.n, self.ex, self.hit
        d = p.ghost.get("diagonal")
        ne = p.ghost.get("new_expr")
        if d is None or ne is None:
            eng.oblige("post:classical.diagonal is applied and the new expression is built", p, z3.BoolVal(False), "post")
            return
        av, kw = d
        ok = len(av) == 1 and isinstance(kw.get("axes_in"), (SSeq, STup)) and isinstance(kw.get("axis_out"), SInt)
        if not ok:
            eng.oblige("post:diagonal is called as (tensor, axes_in=<positions>, axis_out=<position>)", p, z3.BoolVal(False), "post")
            return
        ai = eng.as_seq(kw["axes_in"], p)
        ao = kw["axis_out"].t
        t, u, j = fresh("t"), fresh("u"), fresh("j")
        A = lambda q: z3.Select(ai.arr, q)  # noqa
        eng.oblige("post:every entry of axes_in is a position of that name in the current expression", p, z3.ForAll([t], z3.Implies(z3.And(0 <= t, t < ai.n), z3.And(0 <= A(t), A(t) < n, hit(A(t))))), "post")
        eng.oblige("post:axes_in is strictly increasing", p, z3.ForAll([t, u], z3.Implies(z3.And(0 <= t, t < u, u < ai.n), A(t) < A(u))), "post")
        eng.oblige("post:every position of that name in the current expression is an entry of axes_in", p, z3.ForAll([j], z3.Implies(z3.And(0 <= j, j < n, hit(j)), z3.Exists([t], z3.And(0 <= t, t < ai.n, A(t) == j)))), "post")
        eng.oblige("post:the merged axis stays at the first occurrence (axis_out = axes_in[0])", p, z3.And(ai.n >= 1, ao == A(0)), "post")
        eng.oblige("post:diagonal is applied to the current tensor", p, z3.BoolVal(isinstance(av[0], SObj) and z3.eq(av[0].t, z3.Const("tensor", Obj))), "post")
        # new expression: the nodes at positions that are not later occurrences, in order
        keep = lambda q: z3.Or(z3.Not(hit(q)), q == A(0))  # noqa
        N = lambda q: z3.Select(ne.arr, q)  # noqa
        if hasattr(ne, "filter_of"):
            xs, iota, inv, keep_at = ne.filter_of
            eng.oblige("post:the new expression keeps exactly the nodes that are not later occurrences of the name, in order", p,
                       z3.And(z3.ForAll([t], z3.Implies(z3.And(0 <= t, t < ne.n), z3.And(0 <= iota(t), iota(t) < n, keep(iota(t)), N(t) == self.readd(ex[iota(t)])))),
                              z3.ForAll([t, u], z3.Implies(z3.And(0 <= t, t < u, u < ne.n), iota(t) < iota(u))),
                              z3.ForAll([j], z3.Implies(z3.And(0 <= j, j < n, keep(j)), z3.And(0 <= inv(j), inv(j) < ne.n, iota(inv(j)) == j)))), "post")
        else:
            eng.oblige("post:the new expression is a filtered copy of the current one", p, z3.BoolVal(False), "post")

    def twin(self, tier):
        """native: einx.id with one / two repeated names (interleaved) against explicit loops"""
        import itertools
        import numpy as np
        import einx
        n, fails = 0, []
        names = "abc"
        maxlen = 4 if tier == "quick" else 5
        for ln in range(2, maxlen + 1):
            for seq in itertools.product(names, repeat=ln):
                if len(set(seq)) == ln:
                    continue
                n += 1
                sizes = {"a": 2, "b": 2, "c": 2}
                shape = tuple(sizes[s] for s in seq)
                x = np.arange(int(np.prod(shape))).reshape(shape)
                uniq = list(dict.fromkeys(seq))
                desc = " ".join(seq) + " -> " + " ".join(uniq)
                try:
                    r = np.asarray(einx.id(desc, x))
                except Exception as e:  # noqa
                    fails.append({"detail": f"einx.id({desc!r}) raised {type(e).__name__}: {e}"})
                    continue
                exp = np.zeros([sizes[u] for u in uniq], dtype=x.dtype)
                for idx in itertools.product(*[range(sizes[u]) for u in uniq]):
                    val = dict(zip(uniq, idx))
                    exp[idx] = x[tuple(val[s] for s in seq)]
                if r.shape != exp.shape or not np.array_equal(r, exp):
                    fails.append({"detail": f"einx.id({desc!r}) on arange{shape}: differs from the explicit-loop diagonal"})
        return n, fails[:3]


KERNELS = [DecomposeRepeated()]
