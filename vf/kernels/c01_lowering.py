"""Sidecar contracts for einx/_src/adapter/numpy/classical_from_numpy.py (C01 / C08 kernels)."""
import itertools
import z3
from ..pyvc import *  # noqa
from .base import Kernel

MERGED = z3.IntVal(-1)


class Diagonal(Kernel):
    """diagonal/inner: ghost label sequence of the tensor; numpy diagonal/transpose as callee contracts (index-level laws)."""
    id = "C01.P.diag"
    prop = "C01"
    file = "einx/_src/adapter/numpy/classical_from_numpy.py"
    module = "einx._src.adapter.numpy.classical_from_numpy"
    qual = "diagonal/inner"
    allowed_raises = ("ValueError",)
    describe = ("for every rank n and every strictly increasing list of m>=2 repeated positions: result has rank n-m+1, the merged axis sits at axis_out (= first position), "
                "all other axes are the original non-repeated axes in their original order; callee preconditions of np.diagonal / np.transpose hold")

    def setup(self, eng, bound=None):
        n0, m = z3.Ints("n0 m")
        g = z3.Array("g", I, I)
        lab0 = z3.Array("lab0", I, I)
        self.n0, self.m, self.g = n0, m, g
        k, i, j = z3.Ints("k i j")
        if bound:
            pre = [n0 == bound["n"], m == bound["m"]]
        else:
            pre = []
        pre += [m >= 2, n0 >= m, eng.forall(0, m, lambda k: z3.And(0 <= g[k], g[k] < n0)), z3.ForAll([i, j], z3.Implies(z3.And(0 <= i, i < j, j < m), g[i] < g[j])) if not bound else
                z3.And(*[g[a] < g[a + 1] for a in range(bound["m"] - 1)]), z3.ForAll([k], lab0[k] == k) if not bound else z3.And(*[lab0[a] == a for a in range(bound["n"])])]

        def isgroup(l):
            return z3.Or(l == MERGED, eng.exists(0, m, lambda k: l == g[k]))

        def tensor(nd, L):
            r = SRec("tensor", ndim=SInt(nd), lab=SSeq(L, nd))
            return r

        def c_to_tensor(e, p, av, kw):
            return STup(av)

        def c_diagonal(e, p, av, kw):
            x = av[0]
            a, b = kw["axis1"].t, kw["axis2"].t
            nd, L = x.f["ndim"].t, x.f["lab"].arr
            e.oblige("callee-pre:np.diagonal(axis1 < axis2 in range, both carry the repeated axis)", p, z3.And(0 <= a, a < b, b < nd, isgroup(L[a]), isgroup(L[b])), "callee-pre")
            L2 = fresh("lab", z3.ArraySort(I, I))
            p.pc.append(e.forall(0, nd - 2, lambda q: L2[q] == z3.If(q < a, L[q], z3.If(q < b - 1, L[q + 1], L[q + 2]))))
            p.pc.append(L2[nd - 2] == MERGED)
            return tensor(nd - 1, L2)

        def c_transpose(e, p, av, kw):
            x, perm = av
            perm = e.as_seq(perm, p)
            nd, L = x.f["ndim"].t, x.f["lab"].arr
            q, r = fresh("q"), fresh("r")
            e.oblige("callee-pre:np.transpose(perm is a permutation of range(ndim))", p, z3.And(perm.n == nd, e.forall(0, nd, lambda q: z3.And(0 <= perm.arr[q], perm.arr[q] < nd)),
                     z3.ForAll([q, r], z3.Implies(z3.And(0 <= q, q < r, r < nd), perm.arr[q] != perm.arr[r]))), "callee-pre")
            L2 = fresh("lab", z3.ArraySort(I, I))
            p.pc.append(e.forall(0, nd, lambda q: L2[q] == L[perm.arr[q]]))
            return tensor(nd, L2)

        def inv0(e, p):
            A = e.as_seq(p.lookup("axes_in"), p)
            x = p.lookup("x")
            nd, L = x.f["ndim"].t, x.f["lab"].arr
            la = A.n
            t = m - la
            lim = z3.If(t > 0, nd - 1, nd)
            pp, qq, kk = fresh("p"), fresh("q"), fresh("k")
            return z3.And(la >= 1, la <= m, nd == n0 - t, nd >= la,
                          z3.ForAll([kk], z3.Implies(z3.And(0 <= kk, kk < la - 1), A.arr[kk] == g[kk])),
                          z3.If(t == 0, A.arr[la - 1] == g[m - 1], A.arr[la - 1] == nd - 1),
                          z3.ForAll([pp], z3.Implies(z3.And(0 <= pp, pp < lim), z3.And(L[pp] >= 0, L[pp] < n0))),
                          z3.ForAll([pp, qq], z3.Implies(z3.And(0 <= pp, pp < qq, qq < lim), L[pp] < L[qq])),
                          z3.Implies(t > 0, L[nd - 1] == MERGED),
                          z3.ForAll([pp], z3.Implies(z3.And(0 <= pp, pp < z3.If(t == 0, nd, g[la - 1])), L[pp] == pp)),
                          z3.Implies(t > 0, z3.ForAll([pp, kk], z3.Implies(z3.And(0 <= pp, pp < lim, la - 1 <= kk, kk < m), L[pp] != g[kk]))))

        eng.invariants[0] = inv0
        env = {"x": tensor(n0, lab0), "axes_in": SSeq(g, m, "int", "list"), "axis_out": SInt(g[0]),
               "to_tensor": SContract(c_to_tensor, "to_tensor"), "diagonal": SContract(c_diagonal, "np.diagonal (label law)"), "transpose": SContract(c_transpose, "np.transpose (label law)"),
               "argname_axis1": SConc("axis1"), "argname_axis2": SConc("axis2")}
        return env, pre, {}

    def post(self, eng, out, p):
        if isinstance(out, Raise):
            eng.oblige(f"raises:{out.cls} is unreachable for valid axis lists", p, z3.BoolVal(False), "post")
            return
        r = out.v
        nd, L = r.f["ndim"].t, r.f["lab"].arr
        ao = self.g[0]
        pp, qq = fresh("p"), fresh("q")
        eng.oblige("post:merged axis sits at axis_out", p, L[ao] == MERGED, "post")
        eng.oblige("post:rank = n - m + 1", p, nd == self.n0 - self.m + 1, "post")
        eng.oblige("post:all other axes are original axes", p, z3.ForAll([pp], z3.Implies(z3.And(0 <= pp, pp < nd, pp != ao), z3.And(L[pp] >= 0, L[pp] != MERGED))), "post")
        eng.oblige("post:all other axes keep their relative order", p, z3.ForAll([pp, qq], z3.Implies(z3.And(0 <= pp, pp < qq, qq < nd, pp != ao, qq != ao), L[pp] < L[qq])), "post")

    def twin(self, tier):
        return twin_diagonal(6 if tier == "thorough" else 5)


class LabelTensor:
    """ghost dependency: a tensor is only its label sequence"""
    def __init__(self, labels):
        self.labels = list(labels)
        self.ndim = len(self.labels)


def check_diag(n, axes_in):
    import einx._src.adapter.numpy.classical_from_numpy as M

    def np_diagonal(x, axis1, axis2):
        assert 0 <= axis1 < axis2 < x.ndim
        lab = [l for i, l in enumerate(x.labels) if i not in (axis1, axis2)] + ["M"]
        return LabelTensor(lab)

    def np_transpose(x, perm):
        assert sorted(perm) == list(range(x.ndim)), f"not a permutation: {perm}"
        return LabelTensor([x.labels[q] for q in perm])

    inner = M.diagonal(np_diagonal, np_transpose, lambda *xs: xs)
    try:
        r = inner(LabelTensor(range(n)), axes_in=list(axes_in), axis_out=axes_in[0])
    except AssertionError as e:
        return f"callee precondition violated: {e}"
    exp = [("M" if i == axes_in[0] else i) for i in range(n) if i == axes_in[0] or i not in axes_in]
    return None if r.labels == exp else f"diagonal(rank {n}, axes_in={list(axes_in)}) gives axis labels {r.labels}, expected {exp}"


def twin_diagonal(max_rank):
    n, fails = 0, []
    for r in range(2, max_rank + 1):
        for m in range(2, r + 1):
            for axes in itertools.combinations(range(r), m):
                n += 1
                bad = check_diag(r, list(axes))
                if bad:
                    fails.append({"detail": bad, "rank": r, "axes_in": list(axes), "replay": {"fn": "vf.kernels.c01_lowering:check_diag", "args": [r, list(axes)]},
                                  "lift": f"einx.id with a repeated axis at positions {list(axes)} of a rank-{r} input"})
                    if len(fails) >= 3:
                        return n, fails
    return n, fails


KERNELS = [Diagonal()]


# ------------------------------------------------------------------ shortcut no-ops of the numpy wrappers
op_call = z3.Function("np_op", Obj, Obj, Obj)  # result of the wrapped numpy function (uninterpreted)
to_t = z3.Function("to_tensor", Obj, Obj)
shape_of_obj = uf("attr_shape", Obj, Obj)
_arr_int = uf("seq_arr_int", Obj, z3.ArraySort(I, I))
_len = uf("seq_len", Obj, I)


class _NopWrapper(Kernel):
    prop = "C01"
    file = "einx/_src/adapter/numpy/classical_from_numpy.py"
    module = "einx._src.adapter.numpy.classical_from_numpy"
    wrapper = ""

    @property
    def qual(self):
        return f"{self.wrapper}/{self.wrapper}"

    def setup(self, eng, bound=None):
        self.x = z3.Const("x", Obj)
        self.n = z3.Int("n")
        self.arg = z3.Array("arg", I, I)
        self.called = []

        def c_to_tensor(e, p, av, kw):
            return STup([SObj(to_t(a.t)) for a in av])

        def c_op(e, p, av, kw):
            sq = e.as_seq(av[1], p)
            p.ghost["op_args"] = (av[0], sq)
            po = fresh("argobj", Obj)
            p.pc.append(z3.And(_len(po) == sq.n, e.forall(0, sq.n, lambda k: z3.Select(_arr_int(po), k) == z3.Select(sq.arr, k))))
            return SObj(op_call(av[0].t, po))

        eng.seq_attrs = {"shape": "int"}
        env = {"x": SObj(self.x), self.argname: SSeq(self.arg, self.n, "int", "list"), "op": SContract(c_op, "wrapped numpy function"), "to_tensor": SContract(c_to_tensor, "to_tensor")}
        return env, [self.n >= 0], {}

    def identity_condition(self, eng):
        raise NotImplementedError

    def post(self, eng, out, p):
        if not isinstance(out, Return) or not isinstance(out.v, SObj):
            eng.oblige("post:returns a tensor", p, z3.BoolVal(False), "post")
            return
        r = out.v.t
        unchanged = r == self.x
        if "op_args" in p.ghost:
            a0, sq = p.ghost["op_args"]
            k = fresh("k")
            eng.oblige("post:otherwise the wrapped function is applied to (a conversion of) x with the caller's argument", p,
                       z3.And(a0.t == to_t(self.x), sq.n == self.n, z3.ForAll([k], z3.Implies(z3.And(0 <= k, k < self.n), z3.Select(sq.arr, k) == z3.Select(self.arg, k)))), "post")
        else:
            eng.oblige("post:the argument is returned unchanged only when the numpy call would be the identity", p, z3.And(unchanged, self.identity_condition(eng)), "post")


class NopReshape(_NopWrapper):
    id = "C01.P.nop_reshape"
    wrapper, argname = "reshape", "shape"
    describe = "reshape(x, shape) returns x itself only if shape equals x.shape element-wise; otherwise np.reshape(to_tensor(x), shape)"

    def identity_condition(self, eng):
        k = fresh("k")
        sh = shape_of_obj(self.x)
        return z3.And(_len(sh) == self.n, z3.ForAll([k], z3.Implies(z3.And(0 <= k, k < self.n), z3.Select(_arr_int(sh), k) == z3.Select(self.arg, k))))

    def twin(self, tier):
        return twin_nop("reshape")


class NopBroadcast(NopReshape):
    id = "C01.P.nop_broadcast_to"
    wrapper, argname = "broadcast_to", "shape"
    describe = "broadcast_to(x, shape) returns x itself only if shape equals x.shape element-wise"

    def twin(self, tier):
        return twin_nop("broadcast_to")


class NopTranspose(_NopWrapper):
    id = "C01.P.nop_transpose"
    wrapper, argname = "transpose", "perm"
    describe = "transpose(x, perm) returns x itself only if perm is the identity permutation (perm[k] = k for all k)"

    def identity_condition(self, eng):
        k = fresh("k")
        return z3.ForAll([k], z3.Implies(z3.And(0 <= k, k < self.n), z3.Select(self.arg, k) == k))

    def twin(self, tier):
        return twin_nop("transpose")


def check_nop(which, shape, arg):
    """native: the real wrapper on a sentinel object; returning the sentinel itself is allowed only for the identity"""
    import numpy as np
    import einx._src.adapter.numpy.classical_from_numpy as M

    class X:
        def __init__(self, shape):
            self.shape = tuple(shape)
            self.ndim = len(shape)

    calls = []
    w = getattr(M, which)(lambda x, a: calls.append((x, tuple(a))) or ("op", tuple(a)), to_tensor=lambda *xs: xs)
    x = X(shape)
    r = w(x, list(arg))
    ident = (tuple(arg) == tuple(range(len(arg)))) if which == "transpose" else (tuple(arg) == tuple(shape))
    if r is x:
        return None if ident else f"{which}(x with shape {tuple(shape)}, {list(arg)}) returns x unchanged although the numpy call is not the identity"
    if not (calls and calls[0][0] is x and calls[0][1] == tuple(arg)):
        return f"{which}(x, {list(arg)}) does not call the wrapped function with (x, {tuple(arg)})"
    return None


def twin_nop(which):
    import itertools
    n, fails = 0, []
    for r in range(0, 4):
        for shape in itertools.product([1, 2, 3], repeat=r):
            args = list(itertools.permutations(range(r))) if which == "transpose" else [s for s in itertools.product([1, 2, 3], repeat=r)] + [shape + (1,), shape[:-1]]
            for a in args:
                n += 1
                bad = check_nop(which, shape, a)
                if bad:
                    fails.append({"detail": bad, "replay": {"fn": "vf.kernels.c01_lowering:check_nop", "args": [which, list(shape), list(a)]}})
                    if len(fails) >= 3:
                        return n, fails
    return n, fails


KERNELS += [NopReshape(), NopBroadcast(), NopTranspose()]


class Unsqueeze(Kernel):
    id = "C01.P.axis_unsqueeze"
    prop = "C01"
    file, module, qual = "einx/_src/adapter/_util.py", "einx._src.adapter._util", "_unsqueeze"
    allowed_raises = ("ValueError",)
    describe = "_unsqueeze(t, axis): reshape to t.shape with a 1 inserted at the normalised position (axis in [-ndim-1, ndim]); ValueError exactly when out of range"

    def setup(self, eng, bound=None):
        self.n = z3.Int("n")
        self.sh = z3.Array("shape", I, I)
        self.ax = z3.Int("axis")
        t = SRec("tensor", ndim=SInt(self.n), shape=SSeq(self.sh, self.n, "int", "tuple"))

        def c_reshape(e, p, av, kw):
            p.ghost["reshape"] = av
            return SObj(fresh("reshaped", Obj))

        eng.contracts["classical.reshape"] = SContract(c_reshape)
        return {"classical": SObj(z3.Const("classical", Obj)), "tensor": t, "axis": SInt(self.ax)}, [self.n >= 0], {}

    def post(self, eng, out, p):
        a = z3.If(self.ax < 0, self.ax + self.n + 1, self.ax)
        ok = z3.And(0 <= a, a <= self.n)
        if isinstance(out, Raise):
            eng.oblige("post:ValueError only when the axis is out of range", p, z3.Not(ok), "post")
            return
        av = p.ghost.get("reshape")
        if not av:
            eng.oblige("post:reshape is called", p, z3.BoolVal(False), "post")
            return
        s = eng.as_seq(av[1], p)
        k = fresh("k")
        eng.oblige("post:normal exit only for an axis in range", p, ok, "post")
        eng.oblige("post:new shape = old shape with a 1 inserted at the normalised axis", p,
                   z3.And(s.n == self.n + 1, z3.ForAll([k], z3.Implies(z3.And(0 <= k, k <= self.n), z3.Select(s.arr, k) == z3.If(k < a, z3.Select(self.sh, k), z3.If(k == a, 1, z3.Select(self.sh, k - 1)))))), "post")


KERNELS.append(Unsqueeze())
