"""Sidecar contracts for the thin wrappers of adapter/numpy/classical_from_numpy.py (C01/C17): what exactly reaches the numpy function.

Each wrapper is executed symbolically from its real source; the numpy function `op` and `to_tensor` are recording stubs. The contracts pin the argument
normalisation (axis forms, negative axes, shift broadcasting) and - relevant for C17 - that the wrapped function is called exactly once, unconditionally on
the argument VALUES (the number of emitted backend calls may depend on ranks and argument forms only)."""
import z3
from ..pyvc import *  # noqa
from .base import Kernel

F = "einx/_src/adapter/numpy/classical_from_numpy.py"
M = "einx._src.adapter.numpy.classical_from_numpy"


class _W(Kernel):
    prop = "C01"
    file, module = F, M

    def common(self, eng):
        def c_op(e, p, av, kw):
            p.ghost["op_calls"] = list(p.ghost.get("op_calls", [])) + [(list(av), dict(kw))]
            return SObj(fresh("np_result", Obj))

        def c_to_tensor(e, p, av, kw):
            return STup(list(av), "list")

        eng.contracts.update({"op": SContract(c_op, "the wrapped numpy function"), "to_tensor": SContract(c_to_tensor, "to_tensor (forwards numpy arrays / tracers unchanged)")})
        self.n = z3.Int("ndim")
        self.sh = z3.Array("shape", I, I)
        x = SRec("tensor", ndim=SInt(self.n), shape=SSeq(self.sh, self.n, "int", "tuple"))
        self.x = x
        return x

    def one_call(self, eng, p):
        calls = p.ghost.get("op_calls", [])
        eng.oblige("post:the wrapped numpy function is called exactly once", p, z3.BoolVal(len(calls) == 1), "post")
        return calls[0] if len(calls) == 1 else None


class ReduceWrap(_W):
    qual = "reduce/inner"
    form = "none"
    keep = None

    def setup(self, eng, bound=None):
        x = self.common(eng)
        env = {"x": x, "op": eng.contracts["op"], "to_tensor": eng.contracts["to_tensor"], "no_none_axis": SBool(False), "no_axis_tuple": SBool(False), "scalar_op": SConc(None),
               "argname_axis": SConc("axis"), "argname_keepdims": SConc("keepdims"), "keepdims": SConc(None) if self.keep is None else SBool(self.keep)}
        self.ax = [z3.Int(f"a{i}") for i in range(3)]
        env["axis"] = {"none": SConc(None), "int": SInt(self.ax[0]), "tuple1": STup([SInt(self.ax[0])]), "tuple2": STup([SInt(self.ax[0]), SInt(self.ax[1])]),
                       "list2": STup([SInt(self.ax[0]), SInt(self.ax[1])], "list"), "list1": STup([SInt(self.ax[0])], "list")}[self.form]
        return env, [self.n >= 0], {}

    def post(self, eng, out, p):
        if isinstance(out, Raise):
            eng.oblige(f"post:no {out.cls}", p, z3.BoolVal(False), "post")
            return
        c = self.one_call(eng, p)
        if c is None:
            return
        av, kw = c
        eng.oblige("post:it receives the tensor as its only positional argument", p, z3.BoolVal(len(av) == 1 and av[0] is self.x), "post")
        want_keys = ([] if self.form == "none" else ["axis"]) + ([] if self.keep is None else ["keepdims"])
        eng.oblige("post:exactly the keywords the caller determined (axis only if given, keepdims only if given)", p, z3.BoolVal(sorted(kw) == sorted(want_keys)), "post")
        if sorted(kw) != sorted(want_keys):
            return
        if self.form in ("int", "tuple1", "list1"):
            eng.oblige("post:a single axis is passed as an int", p, kw["axis"].t == self.ax[0] if isinstance(kw["axis"], SInt) else z3.BoolVal(False), "post")
        elif self.form in ("tuple2", "list2"):
            a = kw["axis"]
            okk = isinstance(a, STup) and a.pykind == "tuple" and len(a.items) == 2
            eng.oblige("post:several axes are passed as a tuple, in the caller's order", p, z3.And(a.items[0].t == self.ax[0], a.items[1].t == self.ax[1]) if okk else z3.BoolVal(False), "post")
        if self.keep is not None:
            eng.oblige("post:keepdims is forwarded unchanged", p, eng.truth(kw["keepdims"]) == z3.BoolVal(self.keep), "post")


class RollWrap(_W):
    qual = "roll/roll"
    allowed_raises = ("ValueError",)
    naxis, nshift = None, 1  # axis: None (all), or k positions; shift: int (0) or k entries

    def setup(self, eng, bound=None):
        x = self.common(eng)
        self.ax = [z3.Int(f"a{i}") for i in range(3)]
        self.shv = [z3.Int(f"s{i}") for i in range(3)]
        axis = SConc(None) if self.naxis is None else (SInt(self.ax[0]) if self.naxis == 0 else STup([SInt(a) for a in self.ax[: self.naxis]]))
        shift = SInt(self.shv[0]) if self.nshift == 0 else STup([SInt(s) for s in self.shv[: self.nshift]])

        def c_tuple(e, p, av, kw):
            v = av[0]
            if isinstance(v, SInt):
                return STup([v])
            if isinstance(v, STup):
                return STup(v.items, "tuple")
            if isinstance(v, SSeq):
                return SSeq(v.arr, v.n, v.ek, "tuple")
            raise OutOfSubset("_axis_to_axistuple of an unexpected value")

        eng.contracts["_axis_to_axistuple"] = SContract(c_tuple, "_axis_to_axistuple (int -> 1-tuple, sequence -> tuple; adapter/_util.py)")
        env = {"x": x, "op": eng.contracts["op"], "to_tensor": eng.contracts["to_tensor"], "axis": axis, "shift": shift, "argname_axis": SConc("axis"), "argname_shift": SConc("shift")}
        return env, [self.n >= 0], {}

    def post(self, eng, out, p):
        k_axis = None if self.naxis is None else max(self.naxis, 1)
        k_shift = max(self.nshift, 1)
        if isinstance(out, Raise):
            eng.oblige("post:ValueError only if shift has a length other than 1 that differs from the number of axes", p,
                       z3.BoolVal(k_shift != 1) if k_axis is not None and k_axis != k_shift else (z3.And(self.n != k_shift, z3.BoolVal(k_shift != 1)) if k_axis is None else z3.BoolVal(False)), "post")
            return
        c = self.one_call(eng, p)
        if c is None:
            return
        av, kw = c
        eng.oblige("post:it receives the tensor and exactly axis= and shift=", p, z3.BoolVal(len(av) == 1 and av[0] is self.x and sorted(kw) == ["axis", "shift"]), "post")
        if sorted(kw) != ["axis", "shift"]:
            return
        a, s_ = eng.as_seq(kw["axis"], p), eng.as_seq(kw["shift"], p)
        eng.oblige("post:axis and shift have the same length", p, a.n == s_.n, "post")
        t = fresh("t")
        if k_axis is None:
            eng.oblige("post:without axis= every axis is rolled (axis = range(ndim))", p, z3.And(a.n == self.n, z3.ForAll([t], z3.Implies(z3.And(0 <= t, t < self.n), z3.Select(a.arr, t) == t))), "post")
        else:
            eng.oblige("post:axis is the caller's axis tuple", p, z3.And(a.n == k_axis, *[z3.Select(a.arr, i) == self.ax[i] for i in range(k_axis)]), "post")
        if k_shift == 1:
            eng.oblige("post:a single shift is repeated for every rolled axis", p, z3.ForAll([t], z3.Implies(z3.And(0 <= t, t < s_.n), z3.Select(s_.arr, t) == self.shv[0])), "post")
        else:
            eng.oblige("post:shift is the caller's shift tuple", p, z3.And(s_.n == k_shift, *[z3.Select(s_.arr, i) == self.shv[i] for i in range(k_shift)]), "post")

    def twin(self, tier):
        """native: roll through the public API with shifts that are multiples of the axis length, zero, negative, per-axis: values vs np.roll and ONE np.roll call in the generated code"""
        import numpy as np
        import einx
        n, fails = 0, []
        x = np.arange(24).reshape(4, 6)
        for desc, shift, ref in (("a [b]", 6, lambda: np.roll(x, 6, axis=1)), ("a [b]", 0, lambda: x), ("a [b]", -7, lambda: np.roll(x, -7, axis=1)), ("[a b]", (4, 3), lambda: np.roll(x, (4, 3), axis=(0, 1))),
                                 ("[a b]", 12, lambda: np.roll(x, (12, 12), axis=(0, 1))), ("[a] b", 8, lambda: np.roll(x, 8, axis=0))):
            n += 1
            try:
                got = np.asarray(einx.roll(desc, x, shift=shift))
                code = einx.roll(desc, x, shift=shift, graph=True)
            except Exception as e:  # noqa
                fails.append({"detail": f"einx.roll({desc!r}, shift={shift}) raised {type(e).__name__}: {e}"})
                continue
            if not np.array_equal(got, ref()):
                fails.append({"detail": f"einx.roll({desc!r}, shift={shift}) differs from np.roll"})
            elif str(code).count("np.roll(") != 1:
                fails.append({"detail": f"einx.roll({desc!r}, shift={shift}): generated code has {str(code).count('np.roll(')} np.roll calls (a size-dependent shortcut?)"})
        return n, fails[:3]


class AxisNormWrap(_W):
    """concatenate / split: the axis is normalised to a non-negative position"""
    which = "concatenate"
    allowed_raises = ("ValueError",)

    def setup(self, eng, bound=None):
        x = self.common(eng)
        self.axis = z3.Int("axis")
        if self.which == "concatenate":
            self.qual_ = "concatenate/concatenate"
            self.m = z3.Int("n_tensors")
            xs = STup([x, SRec("tensor", ndim=SInt(self.n), shape=SSeq(z3.Array("shape2", I, I), self.n, "int", "tuple"))], "list")
            env = {"xs": xs, "axis": SInt(self.axis)}
        else:
            self.idx = SObj(z3.Const("indices", Obj))
            env = {"x": x, "indices": self.idx, "axis": SInt(self.axis), "cumulative": SBool(True)}
        env.update({"op": eng.contracts["op"], "to_tensor": eng.contracts["to_tensor"], "argname_axis": SConc("axis")})
        return env, [self.n >= 0], {}

    def post(self, eng, out, p):
        na = z3.If(self.axis < 0, self.axis + self.n, self.axis)
        inr = z3.And(0 <= na, na < self.n)
        if isinstance(out, Raise):
            eng.oblige("post:ValueError only for an axis out of range", p, z3.Not(inr), "post")
            return
        c = self.one_call(eng, p)
        if c is None:
            return
        av, kw = c
        eng.oblige("post:normal exit only for an axis in range", p, inr, "post")
        eng.oblige("post:the numpy function receives the normalised, non-negative axis", p, kw["axis"].t == na if isinstance(kw.get("axis"), SInt) and sorted(kw) == ["axis"] else z3.BoolVal(False), "post")
        if self.which == "concatenate":
            eng.oblige("post:and the list of tensors", p, z3.BoolVal(len(av) == 1 and isinstance(av[0], STup) and len(av[0].items) == 2 and av[0].items[0] is self.x), "post")
        else:
            eng.oblige("post:and (tensor, split points) unchanged (cumulative split points are numpy's own convention)", p, z3.BoolVal(len(av) == 2 and av[0] is self.x and av[1] is self.idx), "post")


def _mk(base, name, **attrs):
    return type(name, (base,), attrs)()


KERNELS = []
for _form in ("none", "int", "tuple1", "tuple2", "list1", "list2"):
    for _keep in (None, True, False):
        if _keep is False and _form not in ("int", "tuple2"):
            continue
        _tag = f"axis={_form}" + ("" if _keep is None else f",keepdims={_keep}")
        KERNELS.append(_mk(ReduceWrap, "ReduceWrap_" + _tag, form=_form, keep=_keep, id=f"C01.P.np_reduce[{_tag}]",
                           describe="numpy reduction wrapper: the function is called exactly once with the tensor; axis is passed as an int for a single axis (also a 1-tuple/1-list), as a tuple otherwise, omitted when not given; keepdims forwarded only if given"))
for _na, _ns in ((None, 0), (None, 2), (0, 0), (1, 1), (2, 0), (2, 1), (2, 2), (3, 2)):
    _tag = f"axis={'all' if _na is None else ('int' if _na == 0 else f'{_na}-tuple')},shift={'int' if _ns == 0 else f'{_ns}-tuple'}"
    KERNELS.append(_mk(RollWrap, "RollWrap_" + _tag, naxis=_na, nshift=_ns, id=f"C17.P.np_roll[{_tag}]", prop="C17",
                       describe="numpy roll wrapper: np.roll is called exactly once, whatever the shift VALUES are, with axis and shift tuples of equal length (a single shift repeated per axis; axis = all axes when omitted); ValueError exactly for a length mismatch"))
KERNELS.append(_mk(AxisNormWrap, "ConcatWrap", which="concatenate", qual="concatenate/concatenate", id="C01.P.np_concatenate", describe="numpy concatenate wrapper: axis normalised to a non-negative position, ValueError iff out of range, one call with the tensor list"))
KERNELS.append(_mk(AxisNormWrap, "SplitWrap", which="split", qual="split/split", id="C01.P.np_split", describe="numpy split wrapper (cumulative split points): axis normalised, ValueError iff out of range, one call with (tensor, split points)"))
