"""Sidecar contracts for further wrappers of adapter/numpy/classical_from_numpy.py: get_at (scalar index / 1-D take / multi-index), sort, dot, matmul, preserve_shape (C01, C14, C03).

As in c01_numpy_wrappers.py the wrapped numpy functions are recording stubs; the contracts pin what reaches them."""
import z3
from ..pyvc import *  # noqa
from .base import Kernel
from .c01_numpy_wrappers import _W, F, M

SLICE_ALL = z3.Const("slice_None", Obj)


def rec_call(name):
    def c(e, p, av, kw):
        p.ghost[name] = list(p.ghost.get(name, [])) + [(list(av), dict(kw))]
        return SObj(fresh(name + "_result", Obj))
    return SContract(c, name)


class GetAtAxis(_W):
    id = "C14.P.np_get_at_axis"
    prop = "C14"
    qual = "get_at/get_at"
    allowed_raises = ("ValueError", "NotImplementedError")
    describe = ("numpy get_at with axis=: for a scalar index (no .shape, or 0-d) __getitem__ receives the tensor and a key of exactly ndim entries - the index at the normalised axis, full slices "
                "everywhere else - and ValueError is raised exactly for an axis outside [-ndim, ndim); for an index tensor of rank >= 1, take(x, indices) is applied exactly when x is 1-D and axis == 0 "
                "(reshape=None as registered for numpy), otherwise NotImplementedError; nothing else reaches numpy")

    def setup(self, eng, bound=None):
        x = self.common(eng)
        self.ax = z3.Int("axis")
        self.ind = z3.Const("indices", Obj)

        def c_slice(e, p, av, kw):
            if len(av) == 1 and isinstance(av[0], SConc) and av[0].v is None:
                return SObj(SLICE_ALL)
            raise OutOfSubset("slice(...) other than slice(None)")

        eng.contracts["slice"] = SContract(c_slice, "slice(None)")
        eng.contracts["getitem"] = rec_call("getitem")
        eng.contracts["take"] = rec_call("take")
        self.has_shape = uf("has_shape", Obj, B)(self.ind)
        self.ind_ndim = uf("attr_ndim", Obj, I)(self.ind)
        self.scalar = z3.Or(z3.Not(self.has_shape), self.ind_ndim == 0)
        return ({"x": x, "indices": SObj(self.ind), "axis": SInt(self.ax), "to_tensor": eng.contracts["to_tensor"], "getitem": eng.contracts["getitem"], "take": eng.contracts["take"], "reshape": SConc(None)},
                [self.n >= 0, self.ind_ndim >= 0], {})

    def post(self, eng, out, p):
        a = z3.If(self.ax < 0, self.ax + self.n, self.ax)
        ok = z3.And(0 <= a, a < self.n)
        takeable = z3.And(self.n == 1, self.ax == 0)
        if isinstance(out, Raise):
            if out.cls == "ValueError":
                eng.oblige("post:ValueError only for a scalar index with the axis out of range", p, z3.And(self.scalar, z3.Not(ok)), "post")
            else:
                eng.oblige("post:NotImplementedError only for an index tensor of rank >= 1 on something other than (1-D tensor, axis 0)", p, z3.And(z3.Not(self.scalar), z3.Not(takeable)), "post")
            return
        gi, tk = p.ghost.get("getitem", []), p.ghost.get("take", [])
        eng.oblige("post:exactly one numpy function is applied, once", p, z3.BoolVal(len(gi) + len(tk) == 1), "post")
        if len(gi) + len(tk) != 1:
            return
        if tk:
            av, kw = tk[0]
            eng.oblige("post:take only for an index tensor of rank >= 1, a 1-D tensor and axis 0", p, z3.And(z3.Not(self.scalar), takeable), "post")
            eng.oblige("post:take receives exactly (tensor, indices)", p, z3.And(z3.BoolVal(len(av) == 2 and av[0] is self.x and not kw and isinstance(av[1], SObj)), av[1].t == self.ind if len(av) == 2 and isinstance(av[1], SObj) else z3.BoolVal(False)), "post")
            eng.oblige("post:the result of take is returned as it is", p, z3.BoolVal(isinstance(out.v, SObj)) if not isinstance(out.v, SObj) else z3.BoolVal(str(out.v.t).startswith("take_result")), "post")
            return
        av, kw = gi[0]
        eng.oblige("post:__getitem__ only for a scalar index and an axis in range", p, z3.And(self.scalar, ok), "post")
        eng.oblige("post:it is applied to the tensor", p, z3.BoolVal(len(av) == 2 and av[0] is self.x and not kw), "post")
        ks = eng.as_seq(av[1], p)
        k = fresh("k")
        eng.oblige("post:the key is a tuple with exactly ndim entries", p, z3.And(z3.BoolVal(ks.pykind == "tuple"), ks.n == self.n), "post")
        eng.oblige("post:every entry other than the one at the normalised axis is a full slice", p, z3.ForAll([k], z3.Implies(z3.And(0 <= k, k < self.n, k != a), z3.Select(ks.arr, k) == SLICE_ALL)), "post")
        eng.oblige("post:the entry at the normalised axis is the index", p, z3.Select(ks.arr, a) == self.ind, "post")

    def twin(self, tier):
        import numpy as np
        import einx._src.adapter.numpy.classical_from_numpy as C
        calls = []
        ga = C.get_at(lambda x, k: calls.append(("getitem", k)) or np.ndarray.__getitem__(x, k), lambda x, i: calls.append(("take", i)) or np.take(x, i), to_tensor=lambda *a: a)
        n, fails = 0, []
        for shape in [(3,), (2, 3), (2, 3, 4)]:
            x = np.arange(int(np.prod(shape))).reshape(shape)
            for axis in range(-len(shape) - 1, len(shape) + 1):
                for idx in (1, np.asarray(1)):
                    n += 1
                    try:
                        got = ga(x, idx, axis=axis)
                    except ValueError:
                        got = None
                    want = np.take(x, 1, axis=axis) if -len(shape) <= axis < len(shape) else None
                    if (got is None) != (want is None) or (got is not None and (got.shape != want.shape or not (got == want).all())):
                        fails.append({"shape": shape, "axis": axis, "detail": "differs from numpy.take(x, 1, axis)"})
        x = np.arange(5) * 10
        idx = np.asarray([[4, 0], [1, 1]])
        n += 1
        if not (ga(x, idx, axis=0) == x[idx]).all():
            fails.append({"detail": "1-D take differs from x[idx]"})
        return n, fails[:3]


class SortWrap(_W):
    qual = "sort/inner"
    allowed_raises = ("ValueError",)
    form = "int"

    def setup(self, eng, bound=None):
        x = self.common(eng)
        self.ax = z3.Int("axis")
        self.extra = z3.Const("extra_kw", Obj)

        def c_axisint(e, p, av, kw):
            a = av[0]
            if isinstance(a, SInt):
                return a
            if isinstance(a, STup):
                if len(a.items) != 1:
                    q = e.may_raise("ValueError", z3.BoolVal(False), p, "axisint", 0)
                    return a
                return a.items[0]
            raise OutOfSubset("_axis_to_axisint form")

        orig_dict = eng.ev_Dict

        def ev_Dict(n, p):  # {**mapping}: a fresh dict with the same entries
            if len(n.keys) == 1 and n.keys[0] is None:
                for v, p1 in eng.ev(n.values[0], p):
                    if not isinstance(v, SDict):
                        raise OutOfSubset("{**x} of a non-dict")
                    yield SDict(dict(v.d)), p1
                return
            yield from orig_dict(n, p)

        eng.ev_Dict = ev_Dict
        eng.contracts["_axis_to_axisint"] = SContract(c_axisint, "_axis_to_axisint: an int, or the only entry of a length-1 list/tuple")
        axis = {"none": SConc(None), "int": SInt(self.ax), "tuple1": STup([SInt(self.ax)]), "list1": STup([SInt(self.ax)], "list")}[self.form]
        return {"x": x, "axis": axis, "kwargs": SDict({"stable": SObj(self.extra)}), "op": eng.contracts["op"], "to_tensor": eng.contracts["to_tensor"], "argname_axis": SConc("axis")}, [self.n >= 0], {}

    def post(self, eng, out, p):
        if isinstance(out, Raise):
            eng.oblige("post:ValueError only without axis= on a tensor that is not 1-D", p, z3.And(z3.BoolVal(self.form == "none"), self.n != 1), "post")
            return
        c = self.one_call(eng, p)
        if c is None:
            return
        av, kw = c
        eng.oblige("post:it receives the tensor as its only positional argument", p, z3.BoolVal(len(av) == 1 and av[0] is self.x), "post")
        eng.oblige("post:keywords = the caller's other keywords, verbatim, plus axis", p, z3.BoolVal(sorted(kw) == ["axis", "stable"] and isinstance(kw.get("stable"), SObj)) if sorted(kw) != ["axis", "stable"] or not isinstance(kw.get("stable"), SObj) else kw["stable"].t == self.extra, "post")
        if "axis" in kw:
            a = kw["axis"]
            if self.form == "none":
                eng.oblige("post:without axis= only a 1-D tensor is sorted, along axis 0", p, z3.And(self.n == 1, a.t == 0) if isinstance(a, SInt) else z3.BoolVal(False), "post")
            else:
                eng.oblige("post:the axis is passed as the caller's int", p, a.t == self.ax if isinstance(a, SInt) else z3.BoolVal(False), "post")

    def twin(self, tier):
        import numpy as np
        import einx._src.adapter.numpy.classical_from_numpy as C
        srt = C.sort(np.sort, to_tensor=lambda *a: a)
        n, fails = 0, []
        x = np.asarray([[3, 1, 2], [9, 8, 7]])
        for axis in (0, 1, -1, (1,), [0]):
            n += 1
            a = axis if isinstance(axis, int) else axis[0]
            if not (srt(x, axis=axis) == np.sort(x, axis=a)).all():
                fails.append({"axis": repr(axis), "detail": "differs from numpy.sort"})
        n += 1
        if not (srt(x[0]) == np.sort(x[0])).all():
            fails.append({"detail": "1-D default differs"})
        kw = {"kind": "stable"}
        srt(x, axis=0, **kw)
        if kw != {"kind": "stable"}:
            fails.append({"detail": "caller's keyword mapping modified"})
        return n, fails[:3]


class DotWrap(_W):
    qual = "dot/inner"
    allowed_raises = ("OperationNotSupportedError", "ValueError")
    count = 2

    def setup(self, eng, bound=None):
        self.common(eng)
        self.ns = [z3.Int(f"ndim{i}") for i in range(self.count)]
        self.shs = [z3.Array(f"shape{i}", I, I) for i in range(self.count)]
        self.ts = [SRec("tensor", ndim=SInt(self.ns[i]), shape=SSeq(self.shs[i], self.ns[i], "int", "tuple")) for i in range(self.count)]
        eng.contracts["dot"] = rec_call("dot")
        return {"tensors": STup(self.ts, "tuple"), "dot": eng.contracts["dot"], "to_tensor": eng.contracts["to_tensor"]}, [n >= 0 for n in self.ns], {}

    def post(self, eng, out, p):
        calls = p.ghost.get("dot", [])
        if isinstance(out, Raise):
            eng.oblige("post:nothing reaches numpy when the call is refused", p, z3.BoolVal(not calls), "post")
            if self.count != 2:
                eng.oblige("post:any number of operands other than two is refused with OperationNotSupportedError", p, z3.BoolVal(out.cls == "OperationNotSupportedError"), "post")
                return
            both1d = z3.And(self.ns[0] == 1, self.ns[1] == 1)
            if out.cls == "OperationNotSupportedError":
                eng.oblige("post:OperationNotSupportedError only when an operand is not 1-D", p, z3.Not(both1d), "post")
            else:
                eng.oblige("post:ValueError only for two 1-D operands of different length", p, z3.And(both1d, z3.Select(self.shs[0], 0) != z3.Select(self.shs[1], 0)), "post")
            return
        eng.oblige("post:normal exit only for exactly two 1-D operands of equal length", p, z3.And(z3.BoolVal(self.count == 2), *([self.ns[0] == 1, self.ns[1] == 1, z3.Select(self.shs[0], 0) == z3.Select(self.shs[1], 0)] if self.count == 2 else [])), "post")
        eng.oblige("post:numpy.dot is applied exactly once, to the two operands in order", p, z3.BoolVal(len(calls) == 1 and len(calls[0][0]) == 2 and calls[0][0][0] is self.ts[0] and calls[0][0][1] is self.ts[1] and not calls[0][1]), "post")

    def twin(self, tier):
        import numpy as np
        import einx._src.adapter.numpy.classical_from_numpy as C
        from einx._src.frontend.errors import OperationNotSupportedError
        d = C.dot(np.dot, to_tensor=lambda *a: a)
        n, fails = 0, []
        for xs, want in [((np.arange(3), np.arange(3) + 1), 8), ((np.arange(3), np.arange(4)), ValueError), ((np.ones((2, 2)), np.ones(2)), OperationNotSupportedError), ((np.ones(2),) * 3, OperationNotSupportedError), ((np.ones(2),), OperationNotSupportedError)]:
            n += 1
            try:
                got = d(*xs)
            except (ValueError, OperationNotSupportedError) as e:
                got = type(e)
            if got is not want and got != want:
                fails.append({"detail": f"dot wrapper: got {got}, expected {want}"})
        return n, fails[:3]


class AxisForm(Kernel):
    prop = "C01"
    file, module = "einx/_src/adapter/_util.py", "einx._src.adapter._util"
    allowed_raises = ("ValueError",)
    which, form = "int", "int"

    def setup(self, eng, bound=None):
        self.a = [z3.Int(f"a{i}") for i in range(3)]
        forms = {"int": SInt(self.a[0]), "tuple0": STup([], "tuple"), "tuple1": STup([SInt(self.a[0])], "tuple"), "list1": STup([SInt(self.a[0])], "list"), "tuple2": STup([SInt(self.a[0]), SInt(self.a[1])], "tuple"),
                 "list3": STup([SInt(x) for x in self.a], "list"), "none": SConc(None), "str": SConc("0")}
        return {"axis": forms[self.form], "name": SConc("axis")}, [], {}

    def post(self, eng, out, p):
        f, v = self.form, getattr(out, "v", None)
        n = {"int": None, "tuple0": 0, "tuple1": 1, "list1": 1, "tuple2": 2, "list3": 3}.get(f, -1)
        if self.which == "int":
            must_raise = f in ("none", "str") or (n is not None and n != 1)
        else:
            must_raise = f in ("none", "str")
        if isinstance(out, Raise):
            eng.oblige("post:ValueError only for something that is not an int or (for axisint: length-1) list/tuple", p, z3.BoolVal(must_raise), "post")
            return
        eng.oblige("post:normal exit only for an accepted form", p, z3.BoolVal(not must_raise), "post")
        if must_raise:
            return
        if self.which == "int":
            eng.oblige("post:the result is the caller's single axis, as an int", p, v.t == self.a[0] if isinstance(v, SInt) else z3.BoolVal(False), "post")
        else:
            k = 1 if n is None else n
            good = isinstance(v, STup) and v.pykind == "tuple" and len(v.items) == k and all(isinstance(x, SInt) for x in v.items)
            eng.oblige("post:the result is a tuple of the caller's axes, in order", p, z3.And(z3.BoolVal(True), *[v.items[i].t == self.a[i] for i in range(k)]) if good else z3.BoolVal(False), "post")

    def twin(self, tier):
        import numpy as np
        from einx._src.adapter import _util as U
        n, fails = 0, []
        cases = [(3, 3, (3,)), ((2,), 2, (2,)), ([1], 1, (1,)), ((1, 2), ValueError, (1, 2)), ([], ValueError, ()), (None, ValueError, ValueError), ("0", ValueError, ValueError), (np.int64(4), 4, (4,)), (np.asarray([5]), 5, (5,))]
        for a, wi, wt in cases:
            n += 1
            for fn, want in ((U._axis_to_axisint, wi), (U._axis_to_axistuple, wt)):
                try:
                    got = fn(a)
                except ValueError:
                    got = ValueError
                if got != want:
                    fails.append({"detail": f"{fn.__name__}({a!r}) = {got!r}, expected {want!r}"})
        return n, fails[:3]


def _mk2(base, name, **attrs):
    return type(name, (base,), attrs)()


KERNELS = [GetAtAxis()]
for form in ("none", "int", "tuple1", "list1"):
    KERNELS.append(_mk2(SortWrap, f"Sort_{form}", form=form, id=f"C01.P.np_sort[{form}]", describe=f"numpy sort/argsort wrapper, axis form {form}: one call op(x, axis=<int>, **other keywords verbatim); without axis only 1-D tensors (axis 0), else ValueError"))
for cnt in (1, 2, 3):
    KERNELS.append(_mk2(DotWrap, f"Dot_{cnt}", count=cnt, id=f"C01.P.np_dot[{cnt} operands]", describe="numpy dot wrapper: exactly two 1-D operands of equal length reach numpy.dot, in order, once; other operand counts or ranks raise OperationNotSupportedError (never a differently-valued result), different lengths ValueError"))
for which, qual in (("int", "_axis_to_axisint"), ("tuple", "_axis_to_axistuple")):
    for form in ("int", "tuple0", "tuple1", "list1", "tuple2", "list3", "none", "str"):
        KERNELS.append(_mk2(AxisForm, f"Axis_{which}_{form}", which=which, form=form, qual=qual, id=f"C01.P.{qual[1:]}[{form}]",
                            describe=f"{qual}, argument form {form}: an int or list/tuple of ints is normalised to " + ("its single int (ValueError unless exactly one)" if which == "int" else "a tuple of the same ints in order") + "; ValueError for anything else"))
