"""Sidecar contract for namedtensor/stage3/transform.py :: any_parent_is (C01 / C03: `is_in_brackets` decides whether an axis is reduced / indexed / kept): a walk up the parent chain."""
import ast
import z3
from ..pyvc import *  # noqa
from .base import Kernel

pred = uf("pred_holds", Obj, B)
parent = uf("attr_parent", Obj, Obj)
is_none = uf("is_None", Obj, B)


class AnyParentIs(Kernel):
    prop = "C01"
    file = "einx/_src/namedtensor/stage3/transform.py"
    module = "einx._src.namedtensor.stage3.transform"
    qual = "any_parent_is"
    include_self = True

    def setup(self, eng, bound=None):
        self.m = z3.Int("chain_length")           # c[0] = the expression, c[k+1] = parent of c[k], c[m] = None (the root's parent)
        self.c = z3.Array("chain", I, Obj)
        k = z3.Int("k")
        pre = [self.m >= 1, z3.ForAll([k], z3.Implies(z3.And(0 <= k, k < self.m), z3.And(z3.Not(is_none(z3.Select(self.c, k))), parent(z3.Select(self.c, k)) == z3.Select(self.c, k + 1)))),
               is_none(z3.Select(self.c, self.m))]
        eng.assumed.add("parent chains are finite: the expression has m >= 1 ancestors-or-self, the root's parent is None")
        orig_apply = eng.apply

        def apply(f, av, kw, p, n):
            if isinstance(f, SObj) and isinstance(n.func, ast.Name) and n.func.id == "pred":
                yield SBool(pred(av[0].t)), p
                return
            yield from orig_apply(f, av, kw, p, n)

        eng.apply = apply
        self.lo = 0 if self.include_self else 1

        def inv(s, p):
            e = p.lookup("expr")
            i, j = fresh("i"), fresh("j")
            if not isinstance(e, SObj):
                return z3.BoolVal(False)
            return z3.Exists([i], z3.And(self.lo <= i, i <= self.m, e.t == z3.Select(self.c, i), z3.ForAll([j], z3.Implies(z3.And(self.lo <= j, j < i), z3.Not(pred(z3.Select(self.c, j)))))))

        eng.invariants[0] = inv
        return {"expr": SObj(z3.Select(self.c, 0)), "pred": SObj(z3.Const("predicate", Obj)), "include_self": SBool(self.include_self)}, pre, {}

    def post(self, eng, out, p):
        if isinstance(out, Raise):
            eng.oblige("post:no exception", p, z3.BoolVal(False), "post")
            return
        k = fresh("k")
        some = z3.Exists([k], z3.And(self.lo <= k, k < self.m, pred(z3.Select(self.c, k))))
        r = eng.truth(out.v)
        eng.oblige("post:True only if the predicate holds for the expression itself (if included) or one of its ancestors", p, z3.Implies(r, some), "post")
        eng.oblige("post:False only if it holds for none of them", p, z3.Implies(z3.Not(r), z3.Not(some)), "post")

    def twin(self, tier):
        import einx._src.namedtensor.stage3 as s3
        from einx._src.namedtensor.stage3.transform import any_parent_is, is_in_brackets
        n, fails = 0, []
        a, b, c = s3.Axis("a", 2), s3.Axis("b", 3), s3.Axis("c", 4)
        t = s3.List.create([a, s3.Brackets.create(s3.List.create([b, s3.FlattenedAxis.create(s3.List.create([c]))]))])
        for ax, want in ((a, False), (b, True), (c, True)):
            n += 1
            if is_in_brackets(ax) != want:
                fails.append({"detail": f"is_in_brackets({ax}) != {want} in '{t}'"})
        n += 1
        br = [x for x in t.nodes() if isinstance(x, s3.Brackets)][0]
        if any_parent_is(br, lambda e: isinstance(e, s3.Brackets), include_self=False) or not any_parent_is(br, lambda e: isinstance(e, s3.Brackets)):
            fails.append({"detail": "include_self handled wrongly for the bracket node itself"})
        return n, fails[:3]


def _mk(base, name, **attrs):
    return type(name, (base,), attrs)()


def _twin_none(self, tier):
    return 0, []


KERNELS = [_mk(AnyParentIs, "AnyParentSelf", include_self=True, id="C01.P.any_parent_is[include_self]", describe="any_parent_is(expr, pred): True iff pred holds for expr or one of its ancestors (walk up the parent chain of any length)"),
           _mk(AnyParentIs, "AnyParentStrict", include_self=False, id="C01.P.any_parent_is[ancestors only]", describe="any_parent_is(expr, pred, include_self=False): True iff pred holds for a proper ancestor")]
for st in (1, 2):  # the same walk exists in the stage1 and stage2 expression layers (used by the parser's and the solver's bracket checks)
    for inc in (True, False):
        KERNELS.append(_mk(AnyParentIs, f"AnyParent_s{st}_{inc}", include_self=inc, file=f"einx/_src/namedtensor/stage{st}/transform.py", module=f"einx._src.namedtensor.stage{st}.transform", twin=_twin_none,
                           id=f"C01.P.any_parent_is[stage{st}, {'include_self' if inc else 'ancestors only'}]", describe=f"stage{st} any_parent_is: True iff pred holds for expr (if included) or one of its ancestors"))
