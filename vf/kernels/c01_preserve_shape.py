"""Sidecar contracts for the shape-preserving family (flip, roll, softmax, sort, ...): numpy wrapper `preserve_shape/inner` and static-shape rule `preserve_shape/inner` (C01)."""
import z3
from ..pyvc import *  # noqa
from .base import Kernel
from .c01_numpy_wrappers import _W
from .c01_shapes import _Sig


class NpPreserve(_W):
    qual = "preserve_shape/inner"
    form, no_none = "absent", False

    def setup(self, eng, bound=None):
        x = self.common(eng)
        self.ax = [z3.Int("a0"), z3.Int("a1")]
        self.extra = SObj(z3.Const("other_keyword", Obj))
        kw = {"k": self.extra}
        if self.form != "absent":
            kw["axis"] = {"int": SInt(self.ax[0]), "tuple2": STup([SInt(a) for a in self.ax], "tuple"), "list2": STup([SInt(a) for a in self.ax], "list")}[self.form]
        return {"x": x, "kwargs": SDict(kw), "op": eng.contracts["op"], "to_tensor": eng.contracts["to_tensor"], "no_none_axis": SBool(self.no_none)}, [self.n >= 0], {}

    def post(self, eng, out, p):
        if isinstance(out, Raise):
            eng.oblige(f"post:no {out.cls}", p, z3.BoolVal(False), "post")
            return
        c = self.one_call(eng, p)
        if c is None:
            return
        av, kw = c
        eng.oblige("post:it receives the tensor as its only positional argument and the caller's other keywords unchanged", p,
                   z3.And(z3.BoolVal(len(av) == 1 and av[0] is self.x and isinstance(kw.get("k"), SObj)), kw["k"].t == self.extra.t if isinstance(kw.get("k"), SObj) else z3.BoolVal(False)), "post")
        a = kw.get("axis")
        if self.form == "absent" and not self.no_none:
            eng.oblige("post:no axis keyword is invented", p, z3.BoolVal(a is None), "post")
        elif self.form == "absent":
            sq = eng.as_seq(a, p) if a is not None else None
            k = fresh("k")
            eng.oblige("post:for functions that need an explicit axis, all axes 0..ndim-1 are passed as a tuple", p,
                       z3.And(z3.BoolVal(sq.pykind == "tuple"), sq.n == self.n, z3.ForAll([k], z3.Implies(z3.And(0 <= k, k < self.n), z3.Select(sq.arr, k) == k))) if sq is not None else z3.BoolVal(False), "post")
        elif self.form == "int":
            eng.oblige("post:an int axis is forwarded unchanged", p, a.t == self.ax[0] if isinstance(a, SInt) else z3.BoolVal(False), "post")
        else:
            ok = isinstance(a, STup) and a.pykind == "tuple" and len(a.items) == 2
            eng.oblige("post:a list/tuple of axes reaches numpy as a tuple with the same entries in order", p, z3.And(a.items[0].t == self.ax[0], a.items[1].t == self.ax[1]) if ok else z3.BoolVal(False), "post")
        eng.oblige("post:exactly the keywords k (+ axis)", p, z3.BoolVal(set(kw) <= {"k", "axis"}), "post")


class SigPreserve(_Sig):
    id = "C01.P.shape_preserve_shape"
    qual = "preserve_shape/inner"
    describe = "static shape of shape-preserving operations (flip, roll, softmax, sort, ...): the input's static shape, whatever the keyword arguments are; the wrapped function receives (x, **kwargs) unchanged"

    def setup(self, eng, bound=None):
        pre = self.common(eng)
        self.x = SObj(z3.Const("x", Obj))
        self.kwv = SObj(z3.Const("kw_axis", Obj))
        return {"x": self.x, "kwargs": SDict({"axis": self.kwv}), "op": eng.contracts["op"], "num_outputs": SConc(1)}, pre, {}

    def post(self, eng, out, p):
        if isinstance(out, Raise):
            eng.oblige("post:no exception", p, z3.BoolVal(False), "post")
            return
        av, kw = p.ghost.get("op_called_with", ([], {}))
        eng.oblige("post:the wrapped function receives (x, axis=<caller's>)", p, z3.And(av[0].t == self.x.t, kw["axis"].t == self.kwv.t) if len(av) == 1 and isinstance(av[0], SObj) and sorted(kw) == ["axis"] else z3.BoolVal(False), "post")
        s = self.static_shape(eng, p)
        k = fresh("k")
        eng.oblige("post:static shape = the input's static shape", p, z3.And(s.n == self.n, z3.ForAll([k], z3.Implies(z3.And(0 <= k, k < self.n), z3.Select(s.arr, k) == z3.Select(self.sh, k)))) if s is not None else z3.BoolVal(False), "post")


def _mk(base, name, **attrs):
    return type(name, (base,), attrs)()


KERNELS = [SigPreserve()]
for form in ("absent", "int", "tuple2", "list2"):
    for nn in (False, True):
        KERNELS.append(_mk(NpPreserve, f"NpPreserve_{form}_{nn}", form=form, no_none=nn, id=f"C01.P.np_preserve_shape[axis {form}{', explicit axes required' if nn else ''}]",
                           describe="numpy wrapper of shape-preserving functions: one call op(x, **keywords); a list of axes becomes a tuple, nothing else changes; functions that need an explicit axis get all axes when none is given"))
