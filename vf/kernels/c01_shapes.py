"""Sidecar contracts for einx/_src/tracer/signature/classical/functions.py: the static shapes attached to traced tensors equal numpy's shape rules
(C01.P.shape_*; these are the 'static shape is sound' precondition of the C05 lemmas and the literals that end up in generated reshape calls)."""
import z3
from ..pyvc import *  # noqa
from .base import Kernel

F = "einx/_src/tracer/signature/classical/functions.py"
M = "einx._src.tracer.signature.classical.functions"


class _Sig(Kernel):
    prop = "C01"
    file, module = F, M

    def common(self, eng):
        self.n = z3.Int("n")
        self.sh = z3.Array("shape_in", I, I)
        self.result_shape = None

        def c_get_shape(e, p, av, kw):
            return SSeq(self.sh, self.n, "int", "tuple")

        def c_op(e, p, av, kw):
            p.ghost["op_called_with"] = (av, kw)
            return SObj(fresh("np_result", Obj))

        def c_cast(e, p, av, kw):
            # tracer.cast(x, partial(Tensor, shape=shape)) : record the static shape given to the output tensor
            p.ghost["cast"] = av
            return SObj(fresh("tensor", Obj))

        def c_partial(e, p, av, kw):
            r = SRec("partial", shape=kw.get("shape"))
            return r

        eng.contracts.update({"_get_shape": SContract(c_get_shape), "op": SContract(c_op), "tracer.cast": SContract(c_cast), "partial": SContract(c_partial)})
        return [self.n >= 0, eng.forall(0, self.n, lambda k: z3.Select(self.sh, k) >= 0) if False else z3.BoolVal(True)]

    def static_shape(self, eng, p):
        c = p.ghost.get("cast")
        if not c:
            return None
        part = c[1]
        if isinstance(part, SRec) and part.f.get("shape") is not None:
            return eng.as_seq(part.f["shape"], p)
        return None


class TransposeShape(_Sig):
    id = "C01.P.shape_transpose"
    qual = "transpose/inner"
    describe = "static shape of transpose(x, axes): shape_out[k] = shape_in[axes[k]], rank = len(axes); the wrapped function receives (x, axes)"
    allowed_raises = ("IndexError",)

    def setup(self, eng, bound=None):
        pre = self.common(eng)
        self.m = z3.Int("m")
        self.ax = z3.Array("axes", I, I)
        k = z3.Int("k")
        pre += [self.m == self.n, z3.ForAll([k], z3.Implies(z3.And(0 <= k, k < self.m), z3.And(0 <= self.ax[k], self.ax[k] < self.n)))]
        return {"x": SObj(z3.Const("x", Obj)), "axes": SSeq(self.ax, self.m, "int", "tuple"), "op": eng.contracts["op"]}, pre, {}

    def post(self, eng, out, p):
        if isinstance(out, Raise):
            eng.oblige("post:no IndexError for a permutation of range(ndim)", p, z3.BoolVal(False), "post")
            return
        s = self.static_shape(eng, p)
        if s is None:
            eng.oblige("post:result is cast to a tensor with a static shape", p, z3.BoolVal(False), "post")
            return
        k = fresh("k")
        eng.oblige("post:static shape is the permuted input shape", p, z3.And(s.n == self.m, z3.ForAll([k], z3.Implies(z3.And(0 <= k, k < self.m), z3.Select(s.arr, k) == z3.Select(self.sh, z3.Select(self.ax, k))))), "post")


class SetShape(_Sig):
    id = "C01.P.shape_set_shape"
    qual = "set_shape/inner"
    describe = "static shape of reshape/broadcast_to(x, shape) is exactly the requested shape; the wrapped function receives (x, shape)"

    def setup(self, eng, bound=None):
        pre = self.common(eng)
        self.m = z3.Int("m")
        self.req = z3.Array("req", I, I)
        return {"x": SObj(z3.Const("x", Obj)), "shape": SSeq(self.req, self.m, "int", "tuple"), "op": eng.contracts["op"]}, pre + [self.m >= 0], {}

    def post(self, eng, out, p):
        if isinstance(out, Raise):
            return
        s = self.static_shape(eng, p)
        if s is None:
            eng.oblige("post:result is cast to a tensor with a static shape", p, z3.BoolVal(False), "post")
            return
        k = fresh("k")
        eng.oblige("post:static shape is the requested shape", p, z3.And(s.n == self.m, z3.ForAll([k], z3.Implies(z3.And(0 <= k, k < self.m), z3.Select(s.arr, k) == z3.Select(self.req, k)))), "post")
        av, kw = p.ghost.get("op_called_with", ([], {}))
        okc = len(av) == 2 and isinstance(av[1], SSeq)
        eng.oblige("post:the wrapped numpy function is called with (x, shape)", p, z3.And(av[1].n == self.m, z3.ForAll([k], z3.Implies(z3.And(0 <= k, k < self.m), z3.Select(av[1].arr, k) == z3.Select(self.req, k)))) if okc else z3.BoolVal(False), "post")


KERNELS = [TransposeShape(), SetShape()]
