"""Sidecar contracts for einx/_src/tracer/signature/classical/functions.py: the static shapes attached to traced tensors equal numpy's shape rules
(C01.P.shape_*; these are the 'static shape is sound' precondition of the C05 lemmas and the literals that end up in generated reshape calls)."""
import z3
from ..pyvc import *  # noqa
from .base import Kernel

F = "einx/_src/tracer/signature/classical/functions.py"
M = "einx._src.tracer.signature.classical.functions"


class _Sig(Kernel):
    prop = "C01"
    file, module = F, M

    def common(self, eng):
        self.n = z3.Int("n")
        self.sh = z3.Array("shape_in", I, I)
        self.result_shape = None

        def c_get_shape(e, p, av, kw):
            return SSeq(self.sh, self.n, "int", "tuple")

        def c_op(e, p, av, kw):
            p.ghost["op_called_with"] = (av, kw)
            return SObj(fresh("np_result", Obj))

        def c_cast(e, p, av, kw):
            # tracer.cast(x, partial(Tensor, shape=shape)) : record the static shape given to the output tensor
            p.ghost["cast"] = av
            return SObj(fresh("tensor", Obj))

        def c_partial(e, p, av, kw):
            r = SRec("partial", shape=kw.get("shape"))
            return r

        eng.contracts.update({"_get_shape": SContract(c_get_shape), "op": SContract(c_op), "tracer.cast": SContract(c_cast), "partial": SContract(c_partial)})
        return [self.n >= 0, eng.forall(0, self.n, lambda k: z3.Select(self.sh, k) >= 0) if False else z3.BoolVal(True)]

    def static_shape(self, eng, p):
        c = p.ghost.get("cast")
        if not c:
            return None
        part = c[1]
        if isinstance(part, SRec) and part.f.get("shape") is not None:
            return eng.as_seq(part.f["shape"], p)
        return None


class TransposeShape(_Sig):
    id = "C01.P.shape_transpose"
    qual = "transpose/inner"
    describe = "static shape of transpose(x, axes): shape_out[k] = shape_in[axes[k]], rank = len(axes); the wrapped function receives (x, axes)"
    allowed_raises = ("IndexError",)

    def setup(self, eng, bound=None):
        pre = self.common(eng)
        self.m = z3.Int("m")
        self.ax = z3.Array("axes", I, I)
        k = z3.Int("k")
        pre += [self.m == self.n, z3.ForAll([k], z3.Implies(z3.And(0 <= k, k < self.m), z3.And(0 <= self.ax[k], self.ax[k] < self.n)))]
        return {"x": SObj(z3.Const("x", Obj)), "axes": SSeq(self.ax, self.m, "int", "tuple"), "op": eng.contracts["op"]}, pre, {}

    def post(self, eng, out, p):
        if isinstance(out, Raise):
            eng.oblige("post:no IndexError for a permutation of range(ndim)", p, z3.BoolVal(False), "post")
            return
        s = self.static_shape(eng, p)
        if s is None:
            eng.oblige("post:result is cast to a tensor with a static shape", p, z3.BoolVal(False), "post")
            return
        k = fresh("k")
        eng.oblige("post:static shape is the permuted input shape", p, z3.And(s.n == self.m, z3.ForAll([k], z3.Implies(z3.And(0 <= k, k < self.m), z3.Select(s.arr, k) == z3.Select(self.sh, z3.Select(self.ax, k))))), "post")


class SetShape(_Sig):
    id = "C01.P.shape_set_shape"
    qual = "set_shape/inner"
    describe = "static shape of reshape/broadcast_to(x, shape) is exactly the requested shape; the wrapped function receives (x, shape)"

    def setup(self, eng, bound=None):
        pre = self.common(eng)
        self.m = z3.Int("m")
        self.req = z3.Array("req", I, I)
        return {"x": SObj(z3.Const("x", Obj)), "shape": SSeq(self.req, self.m, "int", "tuple"), "op": eng.contracts["op"]}, pre + [self.m >= 0], {}

    def post(self, eng, out, p):
        if isinstance(out, Raise):
            return
        s = self.static_shape(eng, p)
        if s is None:
            eng.oblige("post:result is cast to a tensor with a static shape", p, z3.BoolVal(False), "post")
            return
        k = fresh("k")
        eng.oblige("post:static shape is the requested shape", p, z3.And(s.n == self.m, z3.ForAll([k], z3.Implies(z3.And(0 <= k, k < self.m), z3.Select(s.arr, k) == z3.Select(self.req, k)))), "post")
        av, kw = p.ghost.get("op_called_with", ([], {}))
        okc = len(av) == 2 and isinstance(av[1], SSeq)
        eng.oblige("post:the wrapped numpy function is called with (x, shape)", p, z3.And(av[1].n == self.m, z3.ForAll([k], z3.Implies(z3.And(0 <= k, k < self.m), z3.Select(av[1].arr, k) == z3.Select(self.req, k)))) if okc else z3.BoolVal(False), "post")


KERNELS = [TransposeShape(), SetShape()]


class DiagonalShape(_Sig):
    id = "C01.P.shape_diagonal"
    qual = "diagonal/inner"
    allowed_raises = ("ValueError",)
    describe = ("static shape of diagonal(x, axis1, axis2): the input shape with both axes removed and their common length appended (numpy's rule); ValueError iff an axis is out of range "
                "or the two lengths differ; the wrapped function receives the normalised axes")

    def setup(self, eng, bound=None):
        pre = self.common(eng)
        self.a1, self.a2 = z3.Ints("axis1 axis2")
        x = SRec("tensor", ndim=SInt(self.n))
        env = {"x": x, "kwargs": SDict({"axis1": SInt(self.a1), "axis2": SInt(self.a2)}), "op": eng.contracts["op"],
               "axis_always_last": SBool(False), "argname_axis1": SConc("axis1"), "argname_axis2": SConc("axis2")}
        k = z3.Int("k")
        # precondition from the call sites: the two axes are distinct (classical_from_numpy.diagonal/inner passes axis1 < axis2, which is the
        # callee-precondition obligation discharged in C01.P.diag). Without it `del shape_out[max]; del shape_out[min]` deletes one index twice
        # (model found by z3: ndim 1, axis1 = axis2 = 0 -> IndexError) - unreachable from einx, hence a precondition, not a finding.
        distinct = self.norm(self.a1) != self.norm(self.a2)
        return env, pre + [self.n >= 0, distinct, z3.ForAll([k], z3.Implies(z3.And(0 <= k, k < self.n), self.sh[k] >= 0))], {}

    def norm(self, a):
        return z3.If(a < 0, a + self.n, a)

    def post(self, eng, out, p):
        n1, n2 = self.norm(self.a1), self.norm(self.a2)
        inr = z3.And(0 <= n1, n1 < self.n, 0 <= n2, n2 < self.n)
        valid = z3.And(inr, n1 != n2, z3.Select(self.sh, n1) == z3.Select(self.sh, n2))
        if isinstance(out, Raise):
            eng.oblige("post:ValueError only for out-of-range axes or different lengths", p, z3.Not(z3.And(inr, z3.Select(self.sh, n1) == z3.Select(self.sh, n2))), "post")
            return
        s = self.static_shape(eng, p)
        if s is None:
            eng.oblige("post:result is cast to a tensor with a static shape", p, z3.BoolVal(False), "post")
            return
        lo, hi = z3.If(n1 < n2, n1, n2), z3.If(n1 < n2, n2, n1)
        k = fresh("k")
        eng.oblige("post:normal exit only for in-range axes of equal length", p, z3.And(inr, z3.Select(self.sh, n1) == z3.Select(self.sh, n2)), "post")
        eng.oblige("post:static shape = input shape without the two axes, their common length appended", p,
                   z3.Implies(n1 != n2, z3.And(s.n == self.n - 1, z3.Select(s.arr, self.n - 2) == z3.Select(self.sh, n1),
                                                z3.ForAll([k], z3.Implies(z3.And(0 <= k, k < self.n - 2), z3.Select(s.arr, k) == z3.If(k < lo, z3.Select(self.sh, k), z3.If(k < hi - 1, z3.Select(self.sh, k + 1), z3.Select(self.sh, k + 2))))))), "post")
        av, kw = p.ghost.get("op_called_with", ([], {}))
        okc = isinstance(kw.get("axis1"), SInt) and isinstance(kw.get("axis2"), SInt)
        eng.oblige("post:the wrapped function receives the normalised axes", p, z3.And(kw["axis1"].t == n1, kw["axis2"].t == n2) if okc else z3.BoolVal(False), "post")


KERNELS.append(DiagonalShape())
