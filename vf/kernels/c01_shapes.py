"""Sidecar contracts for einx/_src/tracer/signature/classical/functions.py: the static shapes attached to traced tensors equal numpy's shape rules
(C01.P.shape_*; these are the 'static shape is sound' precondition of the C05 lemmas and the literals that end up in generated reshape calls)."""
import z3
from ..pyvc import *  # noqa
from .base import Kernel

F = "einx/_src/tracer/signature/classical/functions.py"
M = "einx._src.tracer.signature.classical.functions"


class _Sig(Kernel):
    prop = "C01"
    file, module = F, M

    def common(self, eng):
        self.n = z3.Int("n")
        self.sh = z3.Array("shape_in", I, I)
        self.result_shape = None

        def c_get_shape(e, p, av, kw):
            return SSeq(self.sh, self.n, "int", "tuple")

        def c_op(e, p, av, kw):
            p.ghost["op_called_with"] = (av, kw)
            return SObj(fresh("np_result", Obj))

        def c_cast(e, p, av, kw):
            # tracer.cast(x, partial(Tensor, shape=shape)) : record the static shape given to the output tensor
            p.ghost["cast"] = av
            return SObj(fresh("tensor", Obj))

        def c_partial(e, p, av, kw):
            r = SRec("partial", shape=kw.get("shape"))
            return r

        eng.contracts.update({"_get_shape": SContract(c_get_shape), "op": SContract(c_op), "tracer.cast": SContract(c_cast), "partial": SContract(c_partial)})
        return [self.n >= 0, eng.forall(0, self.n, lambda k: z3.Select(self.sh, k) >= 0) if False else z3.BoolVal(True)]

    def static_shape(self, eng, p):
        c = p.ghost.get("cast")
        if not c:
            return None
        part = c[1]
        if isinstance(part, SRec) and part.f.get("shape") is not None:
            return eng.as_seq(part.f["shape"], p)
        return None


class TransposeShape(_Sig):
    id = "C01.P.shape_transpose"
    qual = "transpose/inner"
    describe = "static shape of transpose(x, axes): shape_out[k] = shape_in[axes[k]], rank = len(axes); the wrapped function receives (x, axes)"
    allowed_raises = ("IndexError",)

    def setup(self, eng, bound=None):
        pre = self.common(eng)
        self.m = z3.Int("m")
        self.ax = z3.Array("axes", I, I)
        k = z3.Int("k")
        pre += [self.m == self.n, z3.ForAll([k], z3.Implies(z3.And(0 <= k, k < self.m), z3.And(0 <= self.ax[k], self.ax[k] < self.n)))]
        return {"x": SObj(z3.Const("x", Obj)), "axes": SSeq(self.ax, self.m, "int", "tuple"), "op": eng.contracts["op"]}, pre, {}

    def post(self, eng, out, p):
        if isinstance(out, Raise):
            eng.oblige("post:no IndexError for a permutation of range(ndim)", p, z3.BoolVal(False), "post")
            return
        s = self.static_shape(eng, p)
        if s is None:
            eng.oblige("post:result is cast to a tensor with a static shape", p, z3.BoolVal(False), "post")
            return
        k = fresh("k")
        eng.oblige("post:static shape is the permuted input shape", p, z3.And(s.n == self.m, z3.ForAll([k], z3.Implies(z3.And(0 <= k, k < self.m), z3.Select(s.arr, k) == z3.Select(self.sh, z3.Select(self.ax, k))))), "post")


class SetShape(_Sig):
    id = "C01.P.shape_set_shape"
    qual = "set_shape/inner"
    describe = "static shape of reshape/broadcast_to(x, shape) is exactly the requested shape; the wrapped function receives (x, shape)"

    def setup(self, eng, bound=None):
        pre = self.common(eng)
        self.m = z3.Int("m")
        self.req = z3.Array("req", I, I)
        return {"x": SObj(z3.Const("x", Obj)), "shape": SSeq(self.req, self.m, "int", "tuple"), "op": eng.contracts["op"]}, pre + [self.m >= 0], {}

    def post(self, eng, out, p):
        if isinstance(out, Raise):
            return
        s = self.static_shape(eng, p)
        if s is None:
            eng.oblige("post:result is cast to a tensor with a static shape", p, z3.BoolVal(False), "post")
            return
        k = fresh("k")
        eng.oblige("post:static shape is the requested shape", p, z3.And(s.n == self.m, z3.ForAll([k], z3.Implies(z3.And(0 <= k, k < self.m), z3.Select(s.arr, k) == z3.Select(self.req, k)))), "post")
        av, kw = p.ghost.get("op_called_with", ([], {}))
        okc = len(av) == 2 and isinstance(av[1], SSeq)
        eng.oblige("post:the wrapped numpy function is called with (x, shape)", p, z3.And(av[1].n == self.m, z3.ForAll([k], z3.Implies(z3.And(0 <= k, k < self.m), z3.Select(av[1].arr, k) == z3.Select(self.req, k)))) if okc else z3.BoolVal(False), "post")


KERNELS = [TransposeShape(), SetShape()]


class DiagonalShape(_Sig):
    id = "C01.P.shape_diagonal"
    qual = "diagonal/inner"
    allowed_raises = ("ValueError",)
    describe = ("static shape of diagonal(x, axis1, axis2): the input shape with both axes removed and their common length appended (numpy's rule); ValueError iff an axis is out of range "
                "or the two lengths differ; the wrapped function receives the normalised axes")

    def setup(self, eng, bound=None):
        pre = self.common(eng)
        self.a1, self.a2 = z3.Ints("axis1 axis2")
        x = SRec("tensor", ndim=SInt(self.n))
        env = {"x": x, "kwargs": SDict({"axis1": SInt(self.a1), "axis2": SInt(self.a2)}), "op": eng.contracts["op"],
               "axis_always_last": SBool(False), "argname_axis1": SConc("axis1"), "argname_axis2": SConc("axis2")}
        k = z3.Int("k")
        # precondition from the call sites: the two axes are distinct (classical_from_numpy.diagonal/inner passes axis1 < axis2, which is the
        # callee-precondition obligation discharged in C01.P.diag). Without it `del shape_out[max]; del shape_out[min]` deletes one index twice
        # (model found by z3: ndim 1, axis1 = axis2 = 0 -> IndexError) - unreachable from einx, hence a precondition, not a finding.
        distinct = self.norm(self.a1) != self.norm(self.a2)
        return env, pre + [self.n >= 0, distinct, z3.ForAll([k], z3.Implies(z3.And(0 <= k, k < self.n), self.sh[k] >= 0))], {}

    def norm(self, a):
        return z3.If(a < 0, a + self.n, a)

    def post(self, eng, out, p):
        n1, n2 = self.norm(self.a1), self.norm(self.a2)
        inr = z3.And(0 <= n1, n1 < self.n, 0 <= n2, n2 < self.n)
        valid = z3.And(inr, n1 != n2, z3.Select(self.sh, n1) == z3.Select(self.sh, n2))
        if isinstance(out, Raise):
            eng.oblige("post:ValueError only for out-of-range axes or different lengths", p, z3.Not(z3.And(inr, z3.Select(self.sh, n1) == z3.Select(self.sh, n2))), "post")
            return
        s = self.static_shape(eng, p)
        if s is None:
            eng.oblige("post:result is cast to a tensor with a static shape", p, z3.BoolVal(False), "post")
            return
        lo, hi = z3.If(n1 < n2, n1, n2), z3.If(n1 < n2, n2, n1)
        k = fresh("k")
        eng.oblige("post:normal exit only for in-range axes of equal length", p, z3.And(inr, z3.Select(self.sh, n1) == z3.Select(self.sh, n2)), "post")
        eng.oblige("post:static shape = input shape without the two axes, their common length appended", p,
                   z3.Implies(n1 != n2, z3.And(s.n == self.n - 1, z3.Select(s.arr, self.n - 2) == z3.Select(self.sh, n1),
                                                z3.ForAll([k], z3.Implies(z3.And(0 <= k, k < self.n - 2), z3.Select(s.arr, k) == z3.If(k < lo, z3.Select(self.sh, k), z3.If(k < hi - 1, z3.Select(self.sh, k + 1), z3.Select(self.sh, k + 2))))))), "post")
        av, kw = p.ghost.get("op_called_with", ([], {}))
        okc = isinstance(kw.get("axis1"), SInt) and isinstance(kw.get("axis2"), SInt)
        eng.oblige("post:the wrapped function receives the normalised axes", p, z3.And(kw["axis1"].t == n1, kw["axis2"].t == n2) if okc else z3.BoolVal(False), "post")


KERNELS.append(DiagonalShape())


# ------------------------------------------------------------------------------------------------------------------------------------------
# further static-shape rules (numpy's documented shape rules as specifications)

def _tensor_obj(name):
    return SObj(z3.Const(name, Obj))


SHAPE = lambda t: uf("attr_shape", Obj, Obj)(t)  # noqa  (the engine's reading of `.shape` on an opaque object)
SEQ_LEN = lambda o: uf("seq_len", Obj, I)(o)  # noqa
SEQ_ARR = lambda o: uf("seq_arr_int", Obj, z3.ArraySort(I, I))(o)  # noqa
NDIM = lambda t: uf("attr_ndim", Obj, I)(t)  # noqa


class ConcatenateShape(_Sig):
    id = "C01.P.shape_concatenate"
    qual = "concatenate/inner"
    allowed_raises = ("ValueError", "IndexError")
    describe = ("static shape of concatenate(xs, axis): the shape of xs[0] with the entry at the normalised axis replaced by the sum of all xs[i].shape[axis]; "
                "ValueError iff the axis is out of range for xs[0]; the wrapped function receives xs and the caller's keywords unchanged")

    def setup(self, eng, bound=None):
        self.common(eng)
        m = self.m = z3.Int("n_tensors")
        xs = self.xs = z3.Array("xs", I, Obj)
        ax = self.ax = z3.Int("axis")
        eng.int_attrs = set(eng.int_attrs) | {"ndim"}
        eng.seq_attrs = dict(eng.seq_attrs, shape="int")
        k = z3.Int("k")
        # type invariant of tensors (is_valid): ndim == len(shape); all operands have the rank of xs[0] (numpy's own precondition for concatenate)
        r0 = NDIM(xs[0])
        pre = [m >= 1, z3.ForAll([k], z3.Implies(z3.And(0 <= k, k < m), z3.And(NDIM(xs[k]) == SEQ_LEN(SHAPE(xs[k])), NDIM(xs[k]) == r0))), r0 >= 0]
        env = {"xs": SSeq(xs, m, "obj", "list"), "kwargs": SDict({"axis": SInt(ax)}), "op": eng.contracts["op"], "argname_axis": SConc("axis")}
        return env, pre, {}

    def post(self, eng, out, p):
        xs, m, ax = self.xs, self.m, self.ax
        r0 = NDIM(xs[0])
        na = z3.If(ax < 0, ax + r0, ax)
        inr = z3.And(0 <= na, na < r0)
        if isinstance(out, Raise):
            if out.cls == "IndexError":
                eng.oblige("post:no IndexError for operands of equal rank", p, z3.BoolVal(False), "post")
            else:
                eng.oblige("post:ValueError only for an axis out of range", p, z3.Not(inr), "post")
            return
        s = self.static_shape(eng, p)
        if s is None:
            eng.oblige("post:result is cast to a tensor with a static shape", p, z3.BoolVal(False), "post")
            return
        k = fresh("k")
        s0 = SEQ_ARR(SHAPE(xs[0]))
        eng.oblige("post:normal exit only for an axis in range", p, inr, "post")
        eng.oblige("post:rank and all other dimensions are those of xs[0]", p, z3.And(s.n == r0, z3.ForAll([k], z3.Implies(z3.And(0 <= k, k < r0, k != na), z3.Select(s.arr, k) == z3.Select(s0, k)))), "post")
        # the dimension at the axis: sum of the operands' lengths at the NORMALISED axis (ghost lemma L3 relates the engine's comprehension array to the spec array)
        L = fresh("lens", z3.ArraySort(I, I))
        q = p.fork()
        q.pc.append(z3.ForAll([k], z3.Implies(z3.And(0 <= k, k < m), z3.Select(L, k) == z3.Select(SEQ_ARR(SHAPE(xs[k])), na))))
        tot = eng.seqsum(L, m)
        cand = [t for t in _seqsum_terms(z3.Select(s.arr, na), q)]
        for arr_t, n_t in cand:
            kk = fresh("kk")
            eng.oblige("lemma-premise:L3:the summed lengths are the operands' lengths at the normalised axis", q, z3.And(n_t == m, z3.ForAll([kk], z3.Implies(z3.And(0 <= kk, kk < m), z3.Select(arr_t, kk) == z3.Select(L, kk)))), "post")
            q.pc.append(eng.seqsum(arr_t, n_t) == tot)
            eng.assumed.add("ghost lemma L3 seqsum_congr (lemmas/Lemmas.lean, checked by Lean 4 + Mathlib); premise is an obligation of this kernel")
        eng.oblige("post:the dimension at the axis is the sum of all operands' lengths at that axis", q, z3.Select(s.arr, na) == tot, "post")
        av, kw = p.ghost.get("op_called_with", ([], {}))
        okc = len(av) == 1 and isinstance(av[0], SSeq) and z3.eq(av[0].arr, xs) and isinstance(kw.get("axis"), SInt)
        eng.oblige("post:the wrapped function receives xs and the caller's axis", p, (kw["axis"].t == ax) if okc else z3.BoolVal(False), "post")

    def twin(self, tier):
        import itertools
        import numpy as np
        import einx._src.tracer as tracer
        import einx._src.tracer.signature.classical.functions as Fn
        n, fails = 0, []
        T = tracer.signature.classical.Tensor
        for r in range(1, 4):
            for base in itertools.product([1, 2], repeat=r):
                for axis in range(-r, r):
                    for lens in ([3], [1, 2], [2, 2, 1]):
                        shapes = [tuple(l if i == axis % r else b for i, b in enumerate(base)) for l in lens]
                        n += 1
                        got = Fn.concatenate(lambda xs, **kw: T(None, ()))( [T(None, s) for s in shapes], axis=axis)
                        exp = np.concatenate([np.zeros(s) for s in shapes], axis=axis).shape
                        if tuple(got.shape) != tuple(exp):
                            fails.append({"detail": f"signature concatenate(shapes={shapes}, axis={axis}): static shape {tuple(got.shape)}, numpy gives {exp}"})
        return n, fails[:3]


def _seqsum_terms(t, p):
    """the (array, length) arguments of every seqsum application inside term t (after looking through the path's equalities is not needed: the static shape is a Store chain)"""
    out, todo, seen = [], [t], set()
    while todo:
        e = todo.pop()
        if e.get_id() in seen:
            continue
        seen.add(e.get_id())
        if z3.is_app(e) and e.decl().name() == "seqsum":
            out.append((e.arg(0), e.arg(1)))
        todo.extend(e.children())
    return out


KERNELS.append(ConcatenateShape())


class _ReduceBase(_Sig):
    qual = "reduce/inner"
    allowed_raises = ()
    naxes = None  # None: axis absent; 0: axis is an int; k>0: axis is a k-tuple
    keep = None  # None: keepdims absent; True/False: given

    def setup(self, eng, bound=None):
        self.common(eng)
        n = self.n
        x = SRec("tensor", ndim=SInt(n))
        kw = {}
        pre = [n >= 0]
        self.axes = []
        if self.naxes == 0:
            a = z3.Int("axis")
            self.axes = [a]
            kw["axis"] = SInt(a)
        elif self.naxes:
            self.axes = [z3.Int(f"axis{i}") for i in range(self.naxes)]
            kw["axis"] = STup([SInt(a) for a in self.axes])
        for a in self.axes:
            pre.append(z3.And(0 <= a, a < n))  # call sites pass non-negative positions (decomposednamedtensor_from_classical.reduce: indices of marked axes)
        if len(self.axes) > 1:
            pre.append(z3.Distinct(*self.axes))
        if self.keep is not None:
            kw["keepdims"] = SBool(self.keep)
        if self.naxes is None:
            # axes = list(range(ndim)) has symbolic length: loop 0 (`shape[a] = 1`) and loop 1 (`del shape[a]`, descending) carry invariants
            def inv_keep(e, p, i):
                shp = e.as_seq(p.lookup("shape"), p)
                k = fresh("k")
                return z3.And(shp.n == n, z3.ForAll([k], z3.Implies(z3.And(0 <= k, k < n), z3.Select(shp.arr, k) == z3.If(k < i, 1, z3.Select(self.sh, k)))))

            def inv_del(e, p, i):
                return e.as_seq(p.lookup("shape"), p).n == n - i

            eng.invariants[0], eng.invariants[1] = inv_keep, inv_del
        env = {"x": x, "kwargs": SDict(kw), "op": eng.contracts["op"], "argname_axis": SConc("axis"), "argname_keepdims": SConc("keepdims")}
        return env, pre, {}

    def post(self, eng, out, p):
        if isinstance(out, Raise):
            eng.oblige(f"post:no {out.cls} for in-range, pairwise distinct axes", p, z3.BoolVal(False), "post")
            return
        s = self.static_shape(eng, p)
        if s is None:
            eng.oblige("post:result is cast to a tensor with a static shape", p, z3.BoolVal(False), "post")
            return
        n, sh = self.n, self.sh
        k = fresh("k")
        reduced = (lambda t: z3.BoolVal(True)) if self.naxes is None else (lambda t: z3.Or(*[t == a for a in self.axes]))
        if self.keep:
            eng.oblige("post:keepdims: same rank, reduced axes have length 1, the others keep their length", p,
                       z3.And(s.n == n, z3.ForAll([k], z3.Implies(z3.And(0 <= k, k < n), z3.Select(s.arr, k) == z3.If(reduced(k), 1, z3.Select(sh, k))))), "post")
        elif self.naxes is None:
            eng.oblige("post:full reduction gives a scalar shape ()", p, s.n == 0, "post")
        else:
            m = len(self.axes)
            # position k of the result is original position k + #{reduced axes a with a - #{reduced b < a} <= k}: spelled out for the (concrete) number of reduced axes
            def rank_below(a):
                return z3.Sum([z3.If(b < a, 1, 0) for b in self.axes]) if self.axes else z3.IntVal(0)

            def src(kk):
                return kk + z3.Sum([z3.If(a - rank_below(a) <= kk, 1, 0) for a in self.axes])

            eng.oblige("post:rank drops by the number of reduced axes", p, s.n == n - m, "post")
            eng.oblige("post:the remaining axes keep their lengths and their order", p, z3.ForAll([k], z3.Implies(z3.And(0 <= k, k < n - m), z3.Select(s.arr, k) == z3.Select(sh, src(k)))), "post")
        av, kw = p.ghost.get("op_called_with", ([], {}))
        eng.oblige("post:the wrapped function receives x and the caller's keywords unchanged", p, z3.BoolVal(len(av) == 1 and sorted(kw) == sorted(k_ for k_ in (["axis"] if self.naxes is not None else []) + (["keepdims"] if self.keep is not None else []))), "post")

    def twin(self, tier):
        import itertools
        import numpy as np
        import einx._src.tracer as tracer
        import einx._src.tracer.signature.classical.functions as Fn
        T = tracer.signature.classical.Tensor
        n, fails = 0, []
        f = Fn.reduce(lambda x, **kw: T(None, ()))
        for r in range(0, 5):
            shape = tuple(range(2, 2 + r))
            for m in range(0, r + 1):
                for axes in itertools.permutations(range(r), m):
                    for keep in (None, False, True):
                        for form in ("tuple", "int", "none"):
                            if form == "int" and m != 1 or form == "none" and m != r:
                                continue
                            kw = {}
                            if form == "tuple":
                                kw["axis"] = tuple(axes)
                            elif form == "int":
                                kw["axis"] = axes[0]
                            if keep is not None:
                                kw["keepdims"] = keep
                            n += 1
                            got = tuple(f(T(None, shape), **kw).shape)
                            exp = np.sum(np.zeros(shape), **kw).shape
                            if got != tuple(exp):
                                fails.append({"detail": f"signature reduce(shape={shape}, {kw}): static shape {got}, numpy gives {tuple(exp)}"})
        return n, fails[:3]


def _mk_reduce(naxes, keep, tag):
    cls = type(f"ReduceShape_{tag}", (_ReduceBase,), {"naxes": naxes, "keep": keep, "id": f"C01.P.shape_reduce[{tag}]",
               "describe": f"static shape of reduce(x, {tag}) = numpy's rule (reduced axes removed, or kept with length 1 under keepdims), for every rank; in-range distinct non-negative axes (call-site precondition)"})
    return cls()


for _na, _kp, _tag in [(None, None, "all"), (None, True, "all,keepdims"), (0, None, "axis=int"), (0, True, "axis=int,keepdims"), (1, False, "axis=1-tuple"), (2, None, "axis=2-tuple"),
                       (2, True, "axis=2-tuple,keepdims"), (3, False, "axis=3-tuple"), (3, True, "axis=3-tuple,keepdims")]:
    KERNELS.append(_mk_reduce(_na, _kp, _tag))


class _ElementwiseBase(_Sig):
    qual = "elementwise/inner"
    allowed_raises = ("ValueError",)
    kinds = ("t", "t")  # per operand: 't' tensor of symbolic rank, 's' Python scalar (no .shape)

    def setup(self, eng, bound=None):
        self.common(eng)
        self.ranks, self.shapes, xs, pre = [], [], [], []
        k = z3.Int("k")
        for i, kd in enumerate(self.kinds):
            if kd == "t":
                r, a = z3.Int(f"rank{i}"), z3.Array(f"shape{i}", I, I)
                self.ranks.append(r)
                self.shapes.append(a)
                xs.append(SRec("tensor", shape=SSeq(a, r, "int", "tuple")))
                pre += [r >= 0, z3.ForAll([k], z3.Implies(z3.And(0 <= k, k < r), a[k] >= 1))]
            else:
                self.ranks.append(None)
                self.shapes.append(None)
                xs.append(SInt(z3.Int(f"scalar{i}")))
        ts = [i for i, kd in enumerate(self.kinds) if kd == "t"]
        self.ts = ts
        R = self.R = (ts and self._max([self.ranks[i] for i in ts])) if ts else None
        # numpy's own precondition: aligned dimensions are equal or 1 (broadcast-compatible operands)
        for x_ in range(len(ts)):
            for y_ in range(x_ + 1, len(ts)):
                i, j = ts[x_], ts[y_]
                di, dj = self.dim(i, k), self.dim(j, k)
                pre.append(z3.ForAll([k], z3.Implies(z3.And(0 <= k, k < R), z3.Or(di == dj, di == 1, dj == 1))))

        def c_maximum(e, p, av, kw):
            a, b = (e.as_seq(v, p) for v in av)
            e.oblige("callee-pre:np.maximum on shape vectors of equal length", p, a.n == b.n, "callee-pre")
            r = fresh("max", z3.ArraySort(I, I))
            p.pc.append(e.forall(0, a.n, lambda q: z3.Select(r, q) == z3.If(z3.Select(a.arr, q) >= z3.Select(b.arr, q), z3.Select(a.arr, q), z3.Select(b.arr, q))))
            return SSeq(r, a.n, "int", "tuple")

        eng.contracts["np.maximum"] = SContract(c_maximum, "np.maximum (element-wise maximum of equally long vectors)")

        # while-loops 1 and 2 (source order; loop 0 is the for over the operands): left-pad the shorter shape with ones
        def pad_inv(name, other, ordn):
            def inv(e, p):
                cur, oth = e.as_seq(p.lookup(name), p), e.as_seq(p.lookup(other), p)
                ent = e.as_seq(p.ghost[f"entry{ordn}"][name], p)
                j = cur.n - ent.n
                t = fresh("t")
                tgt = z3.If(ent.n >= oth.n, ent.n, oth.n)
                return z3.And(j >= 0, cur.n <= tgt, z3.ForAll([t], z3.Implies(z3.And(0 <= t, t < cur.n), z3.Select(cur.arr, t) == z3.If(t < j, 1, z3.Select(ent.arr, t - j)))))
            return inv

        eng.invariants[1] = pad_inv("shape", "shape2", 1)
        eng.invariants[2] = pad_inv("shape2", "shape", 2)
        env = {"xs": STup(xs), "op": eng.contracts["op"], "num_outputs": SInt(1)}
        return env, pre, {}

    @staticmethod
    def _max(ts):
        r = ts[0]
        for t in ts[1:]:
            r = z3.If(t > r, t, r)
        return r

    def dim(self, i, k):
        """length of operand i at right-aligned position k of the common rank R (1 where the operand has no such axis)"""
        off = self.R - self.ranks[i]
        return z3.If(k - off >= 0, z3.Select(self.shapes[i], k - off), 1)

    def post(self, eng, out, p):
        if isinstance(out, Raise):
            eng.oblige("post:ValueError only if no operand has a shape", p, z3.BoolVal(not self.ts), "post")
            return
        s = self.static_shape(eng, p)
        if s is None:
            eng.oblige("post:result is cast to a tensor with a static shape", p, z3.BoolVal(False), "post")
            return
        if not self.ts:
            eng.oblige("post:normal exit needs an operand with a shape", p, z3.BoolVal(False), "post")
            return
        k = fresh("k")
        eng.oblige("post:rank of the result is the largest operand rank", p, s.n == self.R, "post")
        eng.oblige("post:every result dimension is the maximum of the right-aligned operand dimensions (numpy broadcasting)", p,
                   z3.ForAll([k], z3.Implies(z3.And(0 <= k, k < self.R), z3.Select(s.arr, k) == self._max([self.dim(i, k) for i in self.ts]))), "post")
        av, kw = p.ghost.get("op_called_with", ([], {}))
        eng.oblige("post:the wrapped function receives all operands", p, z3.BoolVal(len(av) == len(self.kinds) and not kw), "post")

    def twin(self, tier):
        import itertools
        import numpy as np
        import einx._src.tracer as tracer
        import einx._src.tracer.signature.classical.functions as Fn
        T = tracer.signature.classical.Tensor
        f = Fn.elementwise(lambda *xs: T(None, ()))
        n, fails = 0, []
        shapes = [s for r in range(0, 4) for s in itertools.product([1, 2, 3], repeat=r)]
        pool = shapes if tier != "quick" else shapes[:: 3]
        for a in pool:
            for b in pool:
                try:
                    exp = np.broadcast_shapes(a, b)
                except ValueError:
                    continue
                n += 1
                got = tuple(int(v) for v in f(T(None, a), T(None, b)).shape)
                if got != tuple(exp):
                    fails.append({"detail": f"signature elementwise(shapes {a}, {b}): static shape {got}, numpy broadcasting gives {tuple(exp)}"})
                got = tuple(int(v) for v in f(T(None, a), 2.0, T(None, b)).shape)
                if got != tuple(exp):
                    fails.append({"detail": f"signature elementwise(shapes {a}, scalar, {b}): static shape {got}, numpy broadcasting gives {tuple(exp)}"})
        return n, fails[:3]


for _kinds in [("t",), ("t", "t"), ("t", "s"), ("s", "t"), ("t", "t", "t"), ("s", "s")]:
    KERNELS.append(type("ElementwiseShape_" + "".join(_kinds), (_ElementwiseBase,), {"kinds": _kinds, "id": f"C01.P.shape_elementwise[{','.join('tensor' if q == 't' else 'scalar' for q in _kinds)}]",
                        "describe": "static shape of an element-wise call = numpy's broadcast shape of the operands that have a shape (right-aligned maximum), for all ranks; ValueError iff no operand has a shape"})())


def _sym_tensor(name, with_ndim=True):
    r, a = z3.Int(f"rank_{name}"), z3.Array(f"shape_{name}", I, I)
    f = {"shape": SSeq(a, r, "int", "tuple")}
    if with_ndim:
        f["ndim"] = SInt(r)
    return SRec("tensor", **f), r, a


class MatmulShape(_Sig):
    id = "C01.P.shape_matmul"
    qual = "matmul/matmul"
    allowed_raises = ("ValueError",)
    describe = ("static shape of matmul(x, y) for operands of equal rank >= 2: element-wise maximum of the batch dimensions, then (x.shape[-2], y.shape[-1]) (numpy's rule for "
                "broadcast-compatible batches); ValueError iff the ranks differ or are below 2")

    def setup(self, eng, bound=None):
        self.common(eng)
        x, self.rx, self.ax = _sym_tensor("x")
        y, self.ry, self.ay = _sym_tensor("y")
        eng.contracts["np.maximum"] = SContract(_c_maximum, "np.maximum (element-wise maximum of equally long vectors)")
        return {"x": x, "y": y, "op": eng.contracts["op"]}, [self.rx >= 0, self.ry >= 0], {}

    def post(self, eng, out, p):
        rx, ry = self.rx, self.ry
        if isinstance(out, Raise):
            eng.oblige("post:ValueError only for operands of different rank or rank < 2", p, z3.Or(rx != ry, rx < 2, ry < 2), "post")
            return
        s = self.static_shape(eng, p)
        if s is None:
            eng.oblige("post:result is cast to a tensor with a static shape", p, z3.BoolVal(False), "post")
            return
        k = fresh("k")
        eng.oblige("post:normal exit only for equal ranks >= 2", p, z3.And(rx == ry, rx >= 2), "post")
        eng.oblige("post:rank is kept; batch dimensions are the element-wise maximum; the last two are x.shape[-2], y.shape[-1]", p,
                   z3.And(s.n == rx, z3.Select(s.arr, rx - 2) == z3.Select(self.ax, rx - 2), z3.Select(s.arr, rx - 1) == z3.Select(self.ay, ry - 1),
                          z3.ForAll([k], z3.Implies(z3.And(0 <= k, k < rx - 2), z3.Select(s.arr, k) == z3.If(z3.Select(self.ax, k) >= z3.Select(self.ay, k), z3.Select(self.ax, k), z3.Select(self.ay, k))))), "post")

    def twin(self, tier):
        import itertools
        import numpy as np
        import einx._src.tracer as tracer
        import einx._src.tracer.signature.classical.functions as Fn
        T = tracer.signature.classical.Tensor
        f = Fn.matmul(lambda x, y: T(None, ()))
        n, fails = 0, []
        for r in range(2, 5):
            for bx in itertools.product([1, 3], repeat=r - 2):
                for by in itertools.product([1, 3], repeat=r - 2):
                    sx, sy = bx + (2, 4), by + (4, 5)
                    n += 1
                    got = tuple(int(v) for v in f(T(None, sx), T(None, sy)).shape)
                    exp = np.matmul(np.zeros(sx), np.zeros(sy)).shape
                    if got != tuple(exp):
                        fails.append({"detail": f"signature matmul(shapes {sx}, {sy}): static shape {got}, numpy gives {tuple(exp)}"})
        return n, fails[:3]


def _c_maximum(e, p, av, kw):
    a, b = (e.as_seq(v, p) for v in av)
    e.oblige("callee-pre:np.maximum on shape vectors of equal length", p, a.n == b.n, "callee-pre")
    r = fresh("max", z3.ArraySort(I, I))
    p.pc.append(e.forall(0, a.n, lambda q: z3.Select(r, q) == z3.If(z3.Select(a.arr, q) >= z3.Select(b.arr, q), z3.Select(a.arr, q), z3.Select(b.arr, q))))
    return SSeq(r, a.n, "int", "tuple")


class TakeShape(_Sig):
    qual = "take/inner"
    allowed_raises = ("ValueError",)
    with_axis, idx_has_shape = True, True

    def setup(self, eng, bound=None):
        self.common(eng)
        x, self.rx, self.ax = _sym_tensor("x")
        if self.idx_has_shape:
            ind, self.ri, self.ai = _sym_tensor("indices", with_ndim=False)
        else:
            ind, self.ri, self.ai = SInt(z3.Int("index")), z3.IntVal(0), None
        self.axis = z3.Int("axis")
        kw = {"axis": SInt(self.axis)} if self.with_axis else {}
        return {"x": x, "indices": ind, "kwargs": SDict(kw), "op": eng.contracts["op"], "argname_axis": SConc("axis")}, [self.rx >= 0, self.ri >= 0], {}

    def post(self, eng, out, p):
        rx, ri, a = self.rx, self.ri, self.axis
        na = z3.If(a < 0, a + rx, a)
        inr = z3.And(0 <= na, na < rx)
        if isinstance(out, Raise):
            eng.oblige("post:ValueError only for an axis out of range", p, z3.Not(inr) if self.with_axis else z3.BoolVal(False), "post")
            return
        s = self.static_shape(eng, p)
        if s is None:
            eng.oblige("post:result is cast to a tensor with a static shape", p, z3.BoolVal(False), "post")
            return
        k = fresh("k")
        if not self.with_axis:
            eng.oblige("post:without axis the result has the shape of the indices (flattened take)", p, z3.And(s.n == ri, z3.ForAll([k], z3.Implies(z3.And(0 <= k, k < ri), z3.Select(s.arr, k) == z3.Select(self.ai, k)))), "post")
            return
        eng.oblige("post:normal exit only for an axis in range", p, inr, "post")
        idx_dim = (lambda t: z3.Select(self.ai, t)) if self.ai is not None else (lambda t: z3.IntVal(0))
        eng.oblige("post:the axis is replaced by the shape of the indices; the dimensions before and after it are kept (numpy's rule)", p,
                   z3.And(s.n == rx - 1 + ri, z3.ForAll([k], z3.Implies(z3.And(0 <= k, k < rx - 1 + ri),
                          z3.Select(s.arr, k) == z3.If(k < na, z3.Select(self.ax, k), z3.If(k < na + ri, idx_dim(k - na), z3.Select(self.ax, k - ri + 1)))))), "post")

    def twin(self, tier):
        import itertools
        import numpy as np
        import einx._src.tracer as tracer
        import einx._src.tracer.signature.classical.functions as Fn
        T = tracer.signature.classical.Tensor
        f = Fn.take(lambda x, i, **kw: T(None, ()))
        n, fails = 0, []
        for r in range(1, 4):
            sx = tuple(range(2, 2 + r))
            for si in [(), (3,), (2, 3)]:
                for axis in list(range(-r, r)):
                    n += 1
                    got = tuple(int(v) for v in f(T(None, sx), T(None, si), axis=axis).shape)
                    exp = np.take(np.zeros(sx), np.zeros(si, dtype=int), axis=axis).shape
                    if got != tuple(exp):
                        fails.append({"detail": f"signature take(shape {sx}, indices {si}, axis={axis}): static shape {got}, numpy gives {tuple(exp)}"})
        return n, fails[:3]


for _wa, _ih, _tag in [(True, True, "axis,tensor-indices"), (True, False, "axis,scalar-index"), (False, True, "no-axis")]:
    KERNELS.append(type("TakeShape_" + _tag, (TakeShape,), {"with_axis": _wa, "idx_has_shape": _ih, "id": f"C01.P.shape_take[{_tag}]",
                        "describe": "static shape of take(x, indices, axis) = x.shape[:axis] + indices.shape + x.shape[axis+1:] for every rank (numpy's rule); ValueError iff the axis is out of range"})())
KERNELS.append(MatmulShape())


class GetShapeK(Kernel):
    """the helper that the other signature kernels use under contract"""
    id = "C01.P.shape_get_shape"
    prop = "C01"
    file, module = F, M
    qual = "_get_shape"
    allowed_raises = ("ValueError",)
    kind_ = "tensor"
    describe = "_get_shape(x) = tuple(x.shape) for a traced tensor, () for a Python/numpy scalar, ValueError otherwise"

    def setup(self, eng, bound=None):
        self.n, self.sh = z3.Int("n"), z3.Array("shape_in", I, I)
        if self.kind_ == "tensor":
            x = SRec("tensor", shape=SSeq(self.sh, self.n, "int", "tuple"))
            x.isa = ("tensor", "Tensor", "tracer.signature.classical.Tensor")
        elif self.kind_ == "scalar":
            x = SInt(z3.Int("scalar"))
        else:
            x = SConc("a string is neither a tensor nor a scalar")
        return {"x": x}, [self.n >= 0], {}

    def post(self, eng, out, p):
        if isinstance(out, Raise):
            eng.oblige("post:ValueError only for a value that is neither tensor nor scalar", p, z3.BoolVal(self.kind_ == "other"), "post")
            return
        r = eng.as_seq(out.v, p)
        k = fresh("k")
        if self.kind_ == "tensor":
            eng.oblige("post:the shape tuple of the tensor", p, z3.And(r.n == self.n, z3.ForAll([k], z3.Implies(z3.And(0 <= k, k < self.n), z3.Select(r.arr, k) == z3.Select(self.sh, k)))), "post")
        else:
            eng.oblige("post:() for a scalar, no normal exit for anything else", p, z3.And(r.n == 0, z3.BoolVal(self.kind_ == "scalar")), "post")


for _k in ("tensor", "scalar", "other"):
    KERNELS.append(type("GetShape_" + _k, (GetShapeK,), {"kind_": _k, "id": f"C01.P.shape_get_shape[{_k}]"})())


class SplitShape(_Sig):
    qual = "split/inner"
    allowed_raises = ("ValueError",)
    npoints = 1

    def setup(self, eng, bound=None):
        self.common(eng)
        x, self.rx, self.ax = _sym_tensor("x")
        self.axis = z3.Int("axis")
        self.pts = [z3.Int(f"split{i}") for i in range(self.npoints)]

        def c_cast_list(e, p, av, kw):
            p.ghost["cast"] = av
            return SObj(fresh("tensors", Obj))

        eng.contracts["tracer.cast"] = SContract(c_cast_list)
        env = {"x": x, "arg1": STup([SInt(q) for q in self.pts], "list"), "kwargs": SDict({"axis": SInt(self.axis)}), "op": eng.contracts["op"], "cumulative": SBool(True), "argname_axis": SConc("axis")}
        return env, [self.rx >= 0], {}

    def post(self, eng, out, p):
        rx, a = self.rx, self.axis
        na = z3.If(a < 0, a + rx, a)
        inr = z3.And(0 <= na, na < rx)
        if isinstance(out, Raise):
            eng.oblige("post:ValueError only for an axis out of range", p, z3.Not(inr), "post")
            return
        eng.oblige("post:normal exit only for an axis in range", p, inr, "post")
        shapes = p.lookup("shapes") if p.has("shapes") else None
        okk = isinstance(shapes, STup) and len(shapes.items) == self.npoints + 1
        eng.oblige("post:one static shape per part (number of split points + 1)", p, z3.BoolVal(okk), "post")
        if not okk:
            return
        bounds = [z3.IntVal(0)] + self.pts + [z3.Select(self.ax, na)]
        k = fresh("k")
        for i, sh in enumerate(shapes.items):
            s = eng.as_seq(sh, p)
            eng.oblige(f"post:part {i} has the input shape with the split axis replaced by the distance between consecutive split points", p,
                       z3.And(s.n == rx, z3.ForAll([k], z3.Implies(z3.And(0 <= k, k < rx), z3.Select(s.arr, k) == z3.If(k == na, bounds[i + 1] - bounds[i], z3.Select(self.ax, k))))), "post")

    def twin(self, tier):
        import numpy as np
        import einx._src.tracer as tracer
        import einx._src.tracer.signature.classical.functions as Fn
        T = tracer.signature.classical.Tensor
        n, fails = 0, []

        class L(list):
            pass

        f = Fn.split(lambda x, idx, **kw: T(None, ()), cumulative=True)
        for shape in ((6,), (2, 6), (6, 2, 3)):
            for axis in range(-len(shape), len(shape)):
                if shape[axis] != 6:
                    continue
                for pts in ([2], [1, 4], [3, 3]):
                    n += 1
                    import einx._src.tracer as tr
                    got = f(T(None, shape), pts, axis=axis)
                    exp = [tuple(a.shape) for a in np.split(np.zeros(shape), pts, axis=axis)]
                    gs = [tuple(int(v) for v in t.shape) for t in got]
                    if gs != exp:
                        fails.append({"detail": f"signature split(shape {shape}, {pts}, axis={axis}): static shapes {gs}, numpy gives {exp}"})
        return n, fails[:3]


for _np in (1, 2):
    KERNELS.append(type(f"SplitShape{_np}", (SplitShape,), {"npoints": _np, "id": f"C01.P.shape_split[{_np} split point{'s' if _np > 1 else ''}]",
                        "describe": "static shapes of split(x, cumulative split points, axis): one part per interval, each with the input shape except the split axis = distance between consecutive points (numpy's rule); ValueError iff the axis is out of range"})())
