"""Sidecar contracts for further static-shape rules of tracer/signature/classical/functions.py (C01, C14): getitem, dot, arange, preserve_shape."""
import z3
from ..pyvc import *  # noqa
from .base import Kernel
from .c01_shapes import _Sig

SLICE_ALL = z3.Const("slice_None", Obj)
SLICE_REV = z3.Const("slice_None_None_-1", Obj)
is_int = uf("is_int", Obj, B)
is_npint = uf("is_np.integer", Obj, B)
is_none = uf("is_None", Obj, B)


class GetItemShape(_Sig):
    qual = "getitem/getitem"
    allowed_raises = ("ValueError",)
    form = "one_index"   # one_index: exactly one integer at position a, full (possibly reversed) slices elsewhere ; all_slices: only slices (flip)

    def setup(self, eng, bound=None):
        pre = self.common(eng)
        self.m = z3.Int("key_len")
        self.key = z3.Array("key", I, Obj)
        self.a = z3.Int("a")
        t = SRec("tensor", ndim=SInt(self.n), shape=SSeq(self.sh, self.n, "int", "tuple"), tag=SConc("tensor"))
        self.t = t
        k = z3.Int("k")

        def c_slice(e, p, av, kw):
            vals = tuple(a.v if isinstance(a, SConc) else (int(str(z3.simplify(a.t))) if isinstance(a, SInt) else "?") for a in av)
            if vals == (None,):
                return SObj(SLICE_ALL)
            if vals == (None, None, -1):
                return SObj(SLICE_REV)
            raise OutOfSubset(f"slice{vals}")

        def c_getitem(e, p, av, kw):
            p.ghost["getitem"] = av
            return SObj(fresh("item", Obj))

        eng.contracts.update({"slice": SContract(c_slice, "slice(None) / slice(None, None, -1)"), "tracer.signature.python.getitem": SContract(c_getitem, "traced __getitem__")})
        is_slice = lambda o: z3.Or(o == SLICE_ALL, o == SLICE_REV)  # noqa
        is_t = lambda o: z3.Or(uf("is_tracer.signature.classical.Tensor", Obj, B)(o), uf("is_tracer.signature.classical.ConvertibleTensor", Obj, B)(o))  # noqa
        is_index = lambda o: z3.Or(is_int(o), is_npint(o), z3.And(is_t(o), uf("attr_ndim", Obj, I)(o) == 0))  # noqa  (Python / numpy integer, or a traced 0-d tensor)
        # entry classes are disjoint: an index is not a slice object, neither is None
        pre += [self.m >= 0, SLICE_ALL != SLICE_REV, z3.Not(is_int(SLICE_ALL)), z3.Not(is_npint(SLICE_ALL)), z3.Not(is_int(SLICE_REV)), z3.Not(is_npint(SLICE_REV)), z3.Not(is_none(SLICE_ALL)), z3.Not(is_none(SLICE_REV))]
        for cls in ("tracer.signature.classical.Tensor", "tracer.signature.classical.ConvertibleTensor"):
            pre += [z3.Not(uf("is_" + cls, Obj, B)(SLICE_ALL)), z3.Not(uf("is_" + cls, Obj, B)(SLICE_REV))]
        if self.form == "one_index":
            pre += [0 <= self.a, self.a < self.m, is_index(z3.Select(self.key, self.a)), z3.ForAll([k], z3.Implies(z3.And(0 <= k, k < self.m, k != self.a), is_slice(z3.Select(self.key, k))))]
        else:
            pre += [self.a == self.m, z3.ForAll([k], z3.Implies(z3.And(0 <= k, k < self.m), is_slice(z3.Select(self.key, k))))]
        eng.bool_attrs = set(getattr(eng, "bool_attrs", ()))

        def inv(s, p, i):
            ins = s.as_seq(p.lookup("in_shape"), p)
            out = s.as_seq(p.lookup("shape"), p)
            j = fresh("j")
            kept = i - z3.If(self.a < i, 1, 0)
            return z3.And(ins.n == self.n - i, z3.ForAll([j], z3.Implies(z3.And(0 <= j, j < self.n - i), z3.Select(ins.arr, j) == z3.Select(self.sh, j + i))),
                          out.n == kept, z3.ForAll([j], z3.Implies(z3.And(0 <= j, j < kept), z3.Select(out.arr, j) == z3.Select(self.sh, j + z3.If(j >= self.a, 1, 0)))))

        eng.invariants[0] = inv
        eng.local_types = dict(getattr(eng, "local_types", {}), shape=("list", "int"))
        return {"tensor": t, "key": SSeq(self.key, self.m, "obj", "tuple")}, pre, {}

    def post(self, eng, out, p):
        if isinstance(out, Raise):
            eng.oblige("post:ValueError only if the number of key entries differs from the rank", p, self.m != self.n, "post")
            return
        eng.oblige("post:normal exit only for one key entry per dimension", p, self.m == self.n, "post")
        gi = p.ghost.get("getitem")
        eng.oblige("post:the traced __getitem__ receives the tensor and the caller's key", p, z3.BoolVal(bool(gi) and gi[0] is self.t), "post")
        s = self.static_shape(eng, p)
        if s is None:
            eng.oblige("post:a static shape is attached", p, z3.BoolVal(False), "post")
            return
        j = fresh("j")
        if self.form == "one_index":
            eng.oblige("post:static shape = input shape without the indexed dimension (rank - 1, order kept)", p,
                       z3.And(s.n == self.n - 1, z3.ForAll([j], z3.Implies(z3.And(0 <= j, j < self.n - 1), z3.Select(s.arr, j) == z3.Select(self.sh, j + z3.If(j >= self.a, 1, 0))))), "post")
        else:
            eng.oblige("post:full (possibly reversed) slices keep the shape", p, z3.And(s.n == self.n, z3.ForAll([j], z3.Implies(z3.And(0 <= j, j < self.n), z3.Select(s.arr, j) == z3.Select(self.sh, j)))), "post")

    def twin(self, tier):
        import numpy as np
        import einx
        n, fails = 0, []
        x = np.arange(24.0).reshape(2, 3, 4)
        for desc, want in [("a [b] c, -> a c", None)]:
            pass
        for axis, d in enumerate(["[a] b c, [1] -> b c", "a [b] c, [1] -> a c", "a b [c], [1] -> a b"]):
            n += 1
            r = einx.get_at(d, x, np.asarray([1]))
            w = np.take(x, 1, axis=axis)
            if r.shape != w.shape or not (r == w).all():
                fails.append({"detail": f"get_at({d!r}) differs from np.take(x, 1, axis={axis})"})
        for d, ax in [("a [b] c", 1), ("[a] b [c]", (0, 2))]:
            n += 1
            r = einx.flip(d, x)
            if r.shape != x.shape or not (r == np.flip(x, axis=ax)).all():
                fails.append({"detail": f"flip({d!r}) differs from np.flip"})
        return n, fails[:3]


class DotShape(_Sig):
    id = "C01.P.shape_dot"
    qual = "dot/inner"
    allowed_raises = ("ValueError",)
    describe = "static shape of dot(x, y): () for two 1-D operands, ValueError otherwise; the wrapped function receives (x, y)"

    def setup(self, eng, bound=None):
        pre = self.common(eng)
        self.nx, self.ny = z3.Int("ndim_x"), z3.Int("ndim_y")
        self.x, self.y = SRec("tensor", ndim=SInt(self.nx), tag=SConc("x")), SRec("tensor", ndim=SInt(self.ny), tag=SConc("y"))
        return {"x": self.x, "y": self.y, "op": eng.contracts["op"]}, pre + [self.nx >= 0, self.ny >= 0], {}

    def post(self, eng, out, p):
        both = z3.And(self.nx == 1, self.ny == 1)
        if isinstance(out, Raise):
            eng.oblige("post:ValueError only when an operand is not 1-D", p, z3.Not(both), "post")
            return
        eng.oblige("post:normal exit only for two 1-D operands", p, both, "post")
        av, kw = p.ghost.get("op_called_with", ([], {}))
        eng.oblige("post:the wrapped function receives (x, y)", p, z3.BoolVal(len(av) == 2 and av[0] is self.x and av[1] is self.y and not kw), "post")
        s = self.static_shape(eng, p)
        eng.oblige("post:static shape = ()", p, s.n == 0 if s is not None else z3.BoolVal(False), "post")


class ArangeShape(_Sig):
    id = "C01.P.shape_arange"
    qual = "arange/inner"
    describe = "static shape of arange(n, ...): (n,); the wrapped function receives n and the caller's other arguments unchanged"

    def setup(self, eng, bound=None):
        pre = self.common(eng)
        self.cnt = z3.Int("count")
        self.extra = z3.Const("dtype", Obj)
        return {"n": SInt(self.cnt), "args": STup([], "tuple"), "kwargs": SDict({"dtype": SObj(self.extra)}), "op": eng.contracts["op"]}, pre, {}

    def post(self, eng, out, p):
        if isinstance(out, Raise):
            eng.oblige("post:no exception", p, z3.BoolVal(False), "post")
            return
        av, kw = p.ghost.get("op_called_with", ([], {}))
        ok = len(av) == 1 and isinstance(av[0], SInt) and sorted(kw) == ["dtype"] and isinstance(kw["dtype"], SObj)
        eng.oblige("post:the wrapped function receives (n, dtype=<caller's>)", p, z3.And(av[0].t == self.cnt, kw["dtype"].t == self.extra) if ok else z3.BoolVal(False), "post")
        s = self.static_shape(eng, p)
        eng.oblige("post:static shape = (n,)", p, z3.And(s.n == 1, z3.Select(s.arr, 0) == self.cnt) if s is not None else z3.BoolVal(False), "post")


def _mk(base, name, **attrs):
    return type(name, (base,), attrs)()


KERNELS = [_mk(GetItemShape, "GetItem_one", form="one_index", id="C01.P.shape_getitem[one index]", prop="C14",
               describe="static shape of tensor[key] for a key with one integer / 0-d index at position a and full (possibly reversed) slices elsewhere, ANY rank: input shape without dimension a; ValueError iff len(key) != rank (the form produced by the numpy get_at wrapper, C14.P.np_get_at_axis)"),
           _mk(GetItemShape, "GetItem_slices", form="all_slices", id="C01.P.shape_getitem[slices only]",
               describe="static shape of tensor[key] for a key of full / reversed slices only (einx.flip), ANY rank: unchanged; ValueError iff len(key) != rank"),
           DotShape(), ArangeShape()]
