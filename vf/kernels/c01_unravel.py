"""Sidecar contract for adapter/_util.py :: _unravel (C01: 'row-major index arithmetic for parenthesised axes', as used by argmax/argmin over several bracketed axes)."""
import ast
import z3
from ..pyvc import *  # noqa
from .base import Kernel


class Unravel(Kernel):
    prop = "C01"
    file = "einx/_src/adapter/_util.py"
    module = "einx._src.adapter._util"
    qual = "_unravel"
    rank = 2
    allowed_raises = ()

    def __init__(self, rank, axis_none=False):
        self.rank, self.none = rank, axis_none
        self.id = f"C01.P.unravel[rank={rank}{',axis=None' if axis_none else ''}]"
        self.describe = (f"_unravel of a flat index over {rank} ravelled axes of arbitrary positive lengths s (element-wise, so stated for one element): the coordinates o handed to _stack, in axis order and with the "
                         "caller's axis=, satisfy 0 <= o[i] < s[i] and flat = q*prod(s) + sum_i o[i]*prod(s[i+1:]) (row-major), with q = 0 whenever 0 <= flat < prod(s); "
                         "for one axis the index tensor is passed through (axis=None) or only unsqueezed at axis")

    def setup(self, eng, bound=None):
        r = self.rank
        self.flat = z3.Int("flat")
        self.s = [z3.Int(f"s{i}") for i in range(r)]
        self.axis_none = z3.Bool("axis_is_none")
        ax = z3.Int("axis")

        def c_divmod(e, p, av, kw):
            t, s = av
            e.oblige("callee-pre:divmod by a positive axis length", p, s.t >= 1, "callee-pre")
            q, m = fresh("quot"), fresh("rem")
            p.pc.append(z3.And(t.t == q * s.t + m, 0 <= m, m < s.t))
            return STup([SInt(q), SInt(m)])

        def c_stack(e, p, av, kw):
            p.ghost["stack"] = (av[1], kw.get("axis"))
            return SRec("stacked")

        def c_unsqueeze(e, p, av, kw):
            p.ghost["unsqueeze"] = (av[1], av[2])
            return SRec("unsqueezed")

        # item store into a concrete-length list of mixed values ([None] * n, filled in by index)
        orig_assign = eng.assign

        def assign(target, v, p):
            if isinstance(target, ast.Subscript) and isinstance(target.value, ast.Name) and p.has(target.value.id):
                o = p.lookup(target.value.id)
                if isinstance(o, STup) and o.pykind == "list":
                    (k, _), = list(eng.ev(target.slice, p))
                    kc = z3.simplify(k.t) if isinstance(k, SInt) else None
                    if kc is not None and z3.is_int_value(kc) and 0 <= kc.as_long() < len(o.items):
                        items = list(o.items)
                        items[kc.as_long()] = v
                        p.bind(target.value.id, STup(items, "list"))
                        return True
            return orig_assign(target, v, p)

        eng.assign = assign
        eng.contracts.update({"_stack": SContract(c_stack, "_stack(classical, tensors, axis) (new axis with one entry per coordinate)"), "_unsqueeze": SContract(c_unsqueeze, "_unsqueeze (C01.P.unsqueeze)")})
        classical = SRec("classical", divmod=SContract(c_divmod, "classical.divmod: element-wise floor division with remainder, t = q*s + r and 0 <= r < s for s >= 1"))
        self.ax = ax
        env = {"classical": classical, "tensor": SInt(self.flat), "ravel_shape": STup([SInt(x) for x in self.s], "tuple"), "axis": SInt(ax)}
        if self.none:
            env["axis"] = SConc(None)
        return env, [x >= 1 for x in self.s], {}

    def post(self, eng, out, p):
        r = self.rank
        if isinstance(out, Raise):
            eng.oblige("post:no exception", p, z3.BoolVal(False), "post")
            return
        if r == 1:
            v = out.v
            if isinstance(p.lookup("axis"), SConc):
                eng.oblige("post:one ravelled axis, axis=None: the flat index is returned as it is", p, z3.BoolVal(isinstance(v, SInt)) if not isinstance(v, SInt) else v.t == self.flat, "post")
            else:
                u = p.ghost.get("unsqueeze")
                ok = u is not None and isinstance(u[0], SInt) and isinstance(u[1], SInt)
                eng.oblige("post:one ravelled axis: the flat index is only unsqueezed, at the caller's axis", p, z3.And(u[0].t == self.flat, u[1].t == self.ax) if ok else z3.BoolVal(False), "post")
            return
        st = p.ghost.get("stack")
        if st is None or not isinstance(st[0], STup) or len(st[0].items) != r or not all(isinstance(x, SInt) for x in st[0].items):
            eng.oblige(f"post:_stack receives one integer coordinate per ravelled axis ({r})", p, z3.BoolVal(False), "post")
            return
        o = [x.t for x in st[0].items]
        a = st[1]
        if isinstance(p.lookup("axis"), SConc):
            eng.oblige("post:the coordinates are stacked along the caller's axis (None)", p, z3.BoolVal(isinstance(a, SConc) and a.v is None), "post")
        else:
            eng.oblige("post:the coordinates are stacked along the caller's axis", p, a.t == self.ax if isinstance(a, SInt) else z3.BoolVal(False), "post")
        for i in range(r):
            eng.oblige(f"post:coordinate {i} lies in [0, s{i})", p, z3.And(0 <= o[i], o[i] < self.s[i]), "post")
        q = p.lookup("tensor")
        if not isinstance(q, SInt):
            eng.oblige("post:quotient left over is an integer", p, z3.BoolVal(False), "post")
            return
        acc = q.t
        for i in range(r):
            acc = acc * self.s[i] + o[i]
        eng.oblige("post:row-major: flat = ((q*s0 + o0)*s1 + o1)*... (Horner form of q*prod(s) + sum o[i]*stride[i])", p, self.flat == acc, "post")
        prod = z3.IntVal(1)
        for x in self.s:
            prod = prod * x
        # 0 <= flat < prod(s) -> q = 0 : nonlinear; helped by the two product facts below (ghost steps, each itself an obligation)
        inner = z3.IntVal(0)
        for i in range(r):
            inner = inner * self.s[i] + o[i]
        eng.oblige("post:ghost: the coordinates alone address a position below prod(s)", p, z3.And(0 <= inner, inner + 1 <= prod), "post")
        p.pc.append(z3.And(0 <= inner, inner + 1 <= prod))
        eng.oblige("post:ghost: flat = q*prod(s) + (position addressed by the coordinates)", p, self.flat == q.t * prod + inner, "post")
        p.pc.append(self.flat == q.t * prod + inner)
        eng.oblige("post:for 0 <= flat < prod(s) nothing is left over (q = 0), i.e. the coordinates are the unique row-major decomposition", p, z3.Implies(z3.And(0 <= self.flat, self.flat < prod), q.t == 0), "post")

    def twin(self, tier):
        import itertools
        import numpy as np
        import types
        from einx._src.adapter._util import _unravel
        cl = types.SimpleNamespace(divmod=lambda t, s: np.divmod(t, s), reshape=lambda t, s: np.reshape(t, s), concatenate=lambda ts, axis=0: np.concatenate(ts, axis=axis))
        n, fails = 0, []
        for shape in itertools.product((1, 2, 3, 5), repeat=self.rank):
            total = int(np.prod(shape))
            flat = np.arange(total)
            n += 1
            got = _unravel(cl, flat, shape, axis=0)
            want = np.stack(np.unravel_index(flat, shape), axis=0) if self.rank > 1 else flat[None]
            if got.shape != want.shape or not (got == want).all():
                fails.append({"shape": shape, "detail": "differs from numpy.unravel_index"})
        return n, fails[:3]


class Stack(Kernel):
    prop = "C01"
    file = "einx/_src/adapter/_util.py"
    module = "einx._src.adapter._util"
    qual = "_stack"
    allowed_raises = ("ValueError",)

    def __init__(self, count):
        self.count = count
        self.id = f"C01.P.stack[{count}]"
        self.describe = (f"_stack of {count} tensors of one (arbitrary) rank n: every tensor is unsqueezed at the normalised axis a (axis in [-n-1, n]), in the given order, and the results are "
                         "concatenated along that same a; ValueError exactly for an axis out of range. (_unsqueeze has its own contract, C01.P.axis_unsqueeze.)")

    def setup(self, eng, bound=None):
        self.n = z3.Int("n")
        self.ax = z3.Int("axis")
        self.ts = [SRec("tensor", id=SConc(i), ndim=SInt(self.n), shape=SSeq(z3.Array(f"shape{i}", I, I), self.n, "int", "tuple")) for i in range(self.count)]

        def c_unsqueeze(e, p, av, kw):
            a = z3.If(av[2].t < 0, av[2].t + self.n + 1, av[2].t)
            e.oblige("callee-pre:_unsqueeze with an axis in range", p, z3.And(0 <= a, a <= self.n), "callee-pre")
            return SRec("unsqueezed", of=av[1].f["id"], at=SInt(a))

        def c_concat(e, p, av, kw):
            p.ghost["concat"] = (av[0], kw.get("axis"))
            return SRec("concatenated")

        eng.contracts.update({"_unsqueeze": SContract(c_unsqueeze, "_unsqueeze (C01.P.axis_unsqueeze)")})
        classical = SRec("classical", concatenate=SContract(c_concat, "classical.concatenate"))
        return {"classical": classical, "tensors": STup(self.ts, "list"), "axis": SInt(self.ax)}, [self.n >= 0], {}

    def post(self, eng, out, p):
        a = z3.If(self.ax < 0, self.ax + self.n + 1, self.ax)
        ok = z3.And(0 <= a, a <= self.n)
        if isinstance(out, Raise):
            eng.oblige("post:ValueError only when the axis is out of range", p, z3.Not(ok), "post")
            return
        eng.oblige("post:normal exit only for an axis in range", p, ok, "post")
        c = p.ghost.get("concat")
        good = c is not None and isinstance(c[0], (STup,)) and len(c[0].items) == self.count and all(isinstance(x, SRec) and x.cls == "unsqueezed" for x in c[0].items) and isinstance(c[1], SInt)
        if not good:
            eng.oblige(f"post:concatenate receives the {self.count} unsqueezed tensors and an integer axis", p, z3.BoolVal(False), "post")
            return
        eng.oblige("post:the tensors are concatenated in the given order", p, z3.BoolVal(all(x.f["of"].v == i for i, x in enumerate(c[0].items))), "post")
        eng.oblige("post:every tensor is unsqueezed at the normalised axis", p, z3.And(*[x.f["at"].t == a for x in c[0].items]), "post")
        eng.oblige("post:concatenation runs along the same normalised axis", p, c[1].t == a, "post")

    def twin(self, tier):
        import itertools
        import numpy as np
        import types
        from einx._src.adapter._util import _stack
        cl = types.SimpleNamespace(reshape=lambda t, s: np.reshape(t, s), concatenate=lambda ts, axis=0: np.concatenate(ts, axis=axis))
        n, fails = 0, []
        for shape in [(), (2,), (2, 3), (1, 2, 1)]:
            ts = [np.arange(int(np.prod(shape))).reshape(shape) + 10 * i for i in range(self.count)]
            for axis in range(-len(shape) - 3, len(shape) + 3):
                n += 1
                try:
                    want = np.stack(ts, axis=axis)
                except Exception:
                    want = None
                try:
                    got = _stack(cl, ts, axis)
                except ValueError:
                    got = None
                if (want is None) != (got is None) or (want is not None and (want.shape != got.shape or not (want == got).all())):
                    fails.append({"shape": shape, "axis": axis, "detail": "differs from numpy.stack"})
        return n, fails[:3]


KERNELS = [Unravel(1), Unravel(1, True), Unravel(2), Unravel(3), Unravel(3, True), Stack(2), Stack(3)]
