"""Sidecar contracts for namedtensor/stage3/tree.py (C02 'each tensor dimension equals the product/sum its expression denotes', C01 'shape of the output expression'):
the representation invariant of solved expression trees,

    value(List) = prod value(children)     value(ConcatenatedAxis) = sum value(children)     value(FlattenedAxis) = value(Brackets) = value(inner),

is established by every constructor and kept by the normalising factories (List.create flattens nested lists, Brackets.create of an empty expression, ...).
Together with frame rule C02.S.tree_fields_frozen (value/children/inner are written only in constructors) the invariant holds for every stage3 node at all times.
Node values are mathematical integers (Python ints are unbounded: exact beyond 2**31)."""
import ast
import z3
from ..pyvc import *  # noqa
from .base import Kernel

F = "einx/_src/namedtensor/stage3/tree.py"
M = "einx._src.namedtensor.stage3.tree"


def node(cls, name, **f):
    r = SRec(cls, value=SInt(z3.Int(f"value_{name}")), tag=SConc(name), **f)
    return r


class _T(Kernel):
    prop = "C02"
    file, module = F, M

    def hooks(self, eng):
        def c_expr_init(e, p, av, kw):
            # Expression.__init__(self, value, ...) : contract of C02.P.tree_expression_init (value must be an int; stored as it is)
            me, v = av[0], av[1]
            if not isinstance(v, SInt):
                raise OutOfSubset("Expression.__init__ with a non-int value in this kernel")
            f = dict(me.f)
            f["value"] = v
            f["parent"] = SConc(None)
            nr = SRec(me.cls, **f)
            p.bind("self", nr, nonlocal_=True)
            return SConc(None)

        def c_prod(e, p, av, kw):
            xs = av[0]
            if not isinstance(xs, STup) or not all(isinstance(x, SInt) for x in xs.items):
                raise OutOfSubset("math.prod of a non-concrete-length int sequence")
            t = z3.IntVal(1)
            for x in xs.items:
                t = t * x.t
            return SInt(t)

        eng.contracts.update({"Expression.__init__": SContract(c_expr_init, "Expression.__init__ (C02.P.tree_expression_init)"), "math.prod": SContract(c_prod, "math.prod of finitely many ints = their product")})
        orig_len = eng.bi_len

        def bi_len(n, p):  # len(node) = node.ndim (Expression.__len__)
            for v, p1 in eng.ev(n.args[0], p):
                if isinstance(v, SRec) and "ndim" in v.f:
                    yield v.f["ndim"], p1
                    return
            yield from orig_len(n, p)

        eng.bi_len = bi_len


class ExprInit(_T):
    qual = "Expression/__init__"
    allowed_raises = ("TypeError",)
    form = "int"

    def setup(self, eng, bound=None):
        self.v = z3.Int("value")
        val = {"int": SInt(self.v), "none": SConc(None), "str": SConc("3"), "float": SConc(2.5)}[self.form]
        return {"self": SRec("Expression"), "value": val, "begin_pos": SConc(None), "end_pos": SConc(None)}, [], {}

    def post(self, eng, out, p):
        if isinstance(out, Raise):
            eng.oblige("post:TypeError only for a value that is not an integer", p, z3.BoolVal(self.form != "int"), "post")
            return
        eng.oblige("post:normal exit only for an integer value", p, z3.BoolVal(self.form == "int"), "post")
        me = p.lookup("self")
        v = me.f.get("value")
        eng.oblige("post:the node's value is the given integer, exactly (no truncation)", p, v.t == self.v if isinstance(v, SInt) else z3.BoolVal(False), "post")


class ListInit(_T):
    qual = "List/__init__"
    allowed_raises = ("AssertionError",)
    count = 2

    def setup(self, eng, bound=None):
        self.hooks(eng)
        self.ch = [node("Axis", f"c{i}") for i in range(self.count)]
        return {"self": SRec("List"), "children": STup(self.ch, "list"), "begin_pos": SConc(None), "end_pos": SConc(None)}, [], {}

    def post(self, eng, out, p):
        if isinstance(out, Raise):
            eng.oblige("post:AssertionError only for exactly one child (List.create never builds such a list)", p, z3.BoolVal(self.count == 1), "post")
            return
        me = p.lookup("self")
        prod = z3.IntVal(1)
        for c in self.ch:
            prod = prod * c.f["value"].t
        v = me.f.get("value")
        eng.oblige("post:value = product of the children's values (1 for no children)", p, v.t == prod if isinstance(v, SInt) else z3.BoolVal(False), "post")
        ch = me.f.get("children")
        eng.oblige("post:children are the given nodes, in order", p, z3.BoolVal(isinstance(ch, STup) and len(ch.items) == self.count and all(isinstance(x, SRec) and x.f["tag"].v == f"c{i}" for i, x in enumerate(ch.items))), "post")


class ConcatInit(_T):
    qual = "ConcatenatedAxis/__init__"
    allowed_raises = ("ValueError",)
    count = 2

    def setup(self, eng, bound=None):
        self.hooks(eng)
        self.nd = [z3.Int(f"ndim_c{i}") for i in range(self.count)]
        self.ch = [node("Axis", f"c{i}", ndim=SInt(self.nd[i])) for i in range(self.count)]
        return {"self": SRec("ConcatenatedAxis"), "children": STup(self.ch, "list"), "begin_pos": SConc(None), "end_pos": SConc(None)}, [n >= 0 for n in self.nd], {}

    def post(self, eng, out, p):
        all1 = z3.And(z3.BoolVal(True), *[n == 1 for n in self.nd])
        if isinstance(out, Raise):
            eng.oblige("post:ValueError only without children or for a child that is not exactly one dimension", p, z3.Or(z3.BoolVal(self.count == 0), z3.Not(all1)), "post")
            return
        eng.oblige("post:normal exit only for >= 1 children of exactly one dimension each", p, z3.And(z3.BoolVal(self.count > 0), all1), "post")
        me = p.lookup("self")
        tot = z3.IntVal(0)
        for c in self.ch:
            tot = tot + c.f["value"].t
        v = me.f.get("value")
        eng.oblige("post:value = sum of the children's values", p, v.t == tot if isinstance(v, SInt) else z3.BoolVal(False), "post")
        ch = me.f.get("children")
        eng.oblige("post:children are the given nodes, in order", p, z3.BoolVal(isinstance(ch, STup) and len(ch.items) == self.count and all(isinstance(x, SRec) and x.f["tag"].v == f"c{i}" for i, x in enumerate(ch.items))), "post")


class WrapInit(_T):
    qual = "FlattenedAxis/__init__"
    allowed_raises = ("AssertionError",)
    inner_cls = "List"

    def setup(self, eng, bound=None):
        self.hooks(eng)
        self.inner = node(self.inner_cls, "inner")
        return {"self": SRec(self.qual.split("/")[0]), "inner": self.inner, "begin_pos": SConc(None), "end_pos": SConc(None)}, [], {}

    def post(self, eng, out, p):
        if isinstance(out, Raise):
            eng.oblige("post:AssertionError only for a flattened axis directly inside a flattened axis", p, z3.BoolVal(self.qual.startswith("FlattenedAxis") and self.inner_cls == "FlattenedAxis"), "post")
            return
        me = p.lookup("self")
        v = me.f.get("value")
        eng.oblige("post:value = value of the inner expression", p, v.t == self.inner.f["value"].t if isinstance(v, SInt) else z3.BoolVal(False), "post")
        i = me.f.get("inner")
        eng.oblige("post:inner is the given node", p, z3.BoolVal(isinstance(i, SRec) and i.f["tag"].v == "inner"), "post")


class ListCreate(_T):
    qual = "List/create"
    shape = ("A", "A")  # per child: "A" = a non-list node, ("L", k) = a List with k non-list children

    def setup(self, eng, bound=None):
        self.hooks(eng)
        self.leaves, kids = [], []
        for i, sp in enumerate(self.shape):
            if sp == "A":
                n = node("Axis", f"a{i}")
                self.leaves.append(n)
                kids.append(n)
            else:
                sub = [node("Axis", f"a{i}_{j}") for j in range(sp[1])]
                self.leaves.extend(sub)
                ln = node("List", f"l{i}", children=STup(sub, "list"))
                kids.append(ln)
        self.kids = kids

        def c_list(e, p, av, kw):
            ch = av[0]
            e.oblige("callee-pre:List(...) is built from a list of != 1 nodes, none of them a List", p, z3.BoolVal(isinstance(ch, STup) and len(ch.items) != 1 and all(isinstance(x, SRec) and x.cls != "List" for x in ch.items)), "callee-pre")
            t = z3.IntVal(1)
            for x in ch.items:
                t = t * x.f["value"].t
            return SRec("List", value=SInt(t), children=ch, tag=SConc("new"))

        eng.contracts["List"] = SContract(c_list, "List.__init__ (C02.P.tree_list_init: value = product of children)")
        pre = []
        for kd in kids:  # representation invariant of the given List children
            if kd.cls == "List":
                t = z3.IntVal(1)
                for x in kd.f["children"].items:
                    t = t * x.f["value"].t
                pre.append(kd.f["value"].t == t)
        return {"children": STup(kids, "list"), "begin_pos": SConc(None), "end_pos": SConc(None)}, pre, {}

    def post(self, eng, out, p):
        if isinstance(out, Raise):
            eng.oblige("post:no exception", p, z3.BoolVal(False), "post")
            return
        r = out.v
        total = z3.IntVal(1)
        for kd in self.kids:
            total = total * kd.f["value"].t
        eng.oblige("post:the result denotes the product of the given children's values (flattening nested lists keeps the value)", p, r.f["value"].t == total if isinstance(r, SRec) and isinstance(r.f.get("value"), SInt) else z3.BoolVal(False), "post")
        if len(self.leaves) == 1:
            eng.oblige("post:a single remaining node is returned itself, not wrapped", p, z3.BoolVal(isinstance(r, SRec) and r.f["tag"].v == self.leaves[0].f["tag"].v), "post")
        else:
            ch = r.f.get("children") if isinstance(r, SRec) else None
            eng.oblige("post:the result is a List whose children are the non-list nodes in left-to-right order", p,
                       z3.BoolVal(isinstance(r, SRec) and r.cls == "List" and isinstance(ch, STup) and [x.f["tag"].v for x in ch.items] == [x.f["tag"].v for x in self.leaves]), "post")


class ConcatCreate(_T):
    qual = "ConcatenatedAxis/create"
    allowed_raises = ("ValueError",)
    count = 2

    def setup(self, eng, bound=None):
        self.hooks(eng)
        self.ch = [node("Axis", f"c{i}") for i in range(self.count)]

        def c_concat(e, p, av, kw):
            ch = av[0]
            t = z3.IntVal(0)
            for x in ch.items:
                t = t + x.f["value"].t
            return SRec("ConcatenatedAxis", value=SInt(t), children=ch, tag=SConc("new"))

        eng.contracts["ConcatenatedAxis"] = SContract(c_concat, "ConcatenatedAxis.__init__ (C02.P.tree_concat_init: value = sum of children)")
        return {"children": STup(self.ch, "list"), "begin_pos": SConc(None), "end_pos": SConc(None)}, [], {}

    def post(self, eng, out, p):
        if isinstance(out, Raise):
            eng.oblige("post:ValueError only without children", p, z3.BoolVal(self.count == 0), "post")
            return
        r = out.v
        tot = z3.IntVal(0)
        for c in self.ch:
            tot = tot + c.f["value"].t
        eng.oblige("post:normal exit only with children", p, z3.BoolVal(self.count > 0), "post")
        eng.oblige("post:the result denotes the sum of the children's values", p, r.f["value"].t == tot if isinstance(r, SRec) and isinstance(r.f.get("value"), SInt) else z3.BoolVal(False), "post")
        if self.count == 1:
            eng.oblige("post:a single child is returned itself", p, z3.BoolVal(isinstance(r, SRec) and r.f["tag"].v == "c0"), "post")


class WrapCreate(_T):
    qual = "Brackets/create"
    inner_cls = "Axis"

    def setup(self, eng, bound=None):
        self.hooks(eng)
        self.nd = z3.Int("ndim_inner")
        self.inner = node(self.inner_cls, "inner", ndim=SInt(self.nd))
        me = self.qual.split("/")[0]

        def c_wrap(e, p, av, kw):
            return SRec(me, value=av[0].f["value"], inner=av[0], tag=SConc("new"))

        def c_list(e, p, av, kw):
            e.oblige("callee-pre:List([]) only", p, z3.BoolVal(isinstance(av[0], STup) and not av[0].items), "callee-pre")
            return SRec("List", value=SInt(z3.IntVal(1)), children=av[0], tag=SConc("empty"))

        eng.contracts[me] = SContract(c_wrap, f"{me}.__init__ (value = value of inner)")
        eng.contracts["List"] = SContract(c_list, "List([]) (value 1)")
        # an expression without dimensions denotes the empty product
        return {"inner": self.inner, "begin_pos": SConc(None), "end_pos": SConc(None)}, [self.nd >= 0, z3.Implies(self.nd == 0, self.inner.f["value"].t == 1)], {}

    def post(self, eng, out, p):
        if isinstance(out, Raise):
            eng.oblige("post:no exception", p, z3.BoolVal(False), "post")
            return
        r = out.v
        eng.oblige("post:the result denotes the value of the inner expression", p, r.f["value"].t == self.inner.f["value"].t if isinstance(r, SRec) and isinstance(r.f.get("value"), SInt) else z3.BoolVal(False), "post")
        me = self.qual.split("/")[0]
        if self.inner_cls == me:
            eng.oblige("post:wrapping twice is wrapping once (the inner node is returned)", p, z3.BoolVal(isinstance(r, SRec) and r.f["tag"].v == "inner"), "post")


def tree_twin():
    """bounded twin shared by all kernels of this file: random stage3 trees built through the real factories satisfy the invariant at every node"""
    import math
    import random
    import einx._src.namedtensor.stage3.tree as T
    rng = random.Random(0)
    n, fails = 0, []

    def build(d):
        k = rng.random()
        if d == 0 or k < 0.3:
            return T.Axis(f"a{rng.randrange(10**6)}", rng.choice([1, 2, 3, 2**33 + 1]))
        if k < 0.55:
            return T.List.create([build(d - 1) for _ in range(rng.randrange(0, 4))])
        if k < 0.7:
            return T.FlattenedAxis.create(build(d - 1))
        if k < 0.85:
            return T.Brackets.create(build(d - 1))
        ch = [c for c in (build(d - 1) for _ in range(rng.randrange(1, 4))) if len(c) == 1]
        return T.ConcatenatedAxis.create(ch) if ch else T.List.create([])

    def inv(x):
        if isinstance(x, T.List):
            return x.value == math.prod(c.value for c in x.children) and not any(isinstance(c, T.List) for c in x.children) and len(x.children) != 1
        if isinstance(x, T.ConcatenatedAxis):
            return x.value == sum(c.value for c in x.children)
        if isinstance(x, T.FlattenedAxis | T.Brackets):
            return x.value == x.inner.value
        return True

    for _ in range(300):
        n += 1
        t = build(4)
        bad = [str(x) for x in t.nodes() if not inv(x)]
        if bad:
            fails.append({"tree": str(t), "detail": f"node {bad[0]!r} violates value = prod/sum/inner"})
        if t.value != math.prod(t.shape) and not isinstance(t, T.ConcatenatedAxis):
            fails.append({"tree": str(t), "detail": "value != prod(shape)"})
    return n, fails[:3]


_T.twin = lambda self, tier: tree_twin()


def _mk(base, name, **attrs):
    return type(name, (base,), attrs)()


KERNELS = []
for form in ("int", "none", "str", "float"):
    KERNELS.append(_mk(ExprInit, f"ExprInit_{form}", form=form, id=f"C02.P.tree_expression_init[{form}]", describe="stage3 Expression.__init__: the node's value is the given integer exactly; TypeError for anything that is not an integer"))
for k in (0, 2, 3, 4):
    KERNELS.append(_mk(ListInit, f"ListInit_{k}", count=k, id=f"C02.P.tree_list_init[{k}]", describe=f"stage3 List.__init__ with {k} children: value = product of the children's values; children kept in order"))
for k in (0, 1, 2, 3):
    KERNELS.append(_mk(ConcatInit, f"ConcatInit_{k}", count=k, id=f"C02.P.tree_concat_init[{k}]", describe=f"stage3 ConcatenatedAxis.__init__ with {k} children: value = sum of the children's values; ValueError without children or for a child that is not one-dimensional"))
for q in ("FlattenedAxis", "Brackets"):
    for ic in ("List", "Axis"):
        KERNELS.append(_mk(WrapInit, f"Wrap_{q}_{ic}", qual=f"{q}/__init__", inner_cls=ic, id=f"C02.P.tree_{q.lower()}_init[{ic}]", describe=f"stage3 {q}.__init__: value = value of the inner expression"))
for name, shape in (("flat2", ("A", "A")), ("single", ("A",)), ("empty", ()), ("nested", ("A", ("L", 2))), ("nested_single", (("L", 0), "A")), ("two_lists", (("L", 2), ("L", 2))), ("only_empty", (("L", 0),)), ("deep3", ("A", ("L", 3), "A"))):
    KERNELS.append(_mk(ListCreate, f"ListCreate_{name}", shape=shape, id=f"C02.P.tree_list_create[{name}]", describe=f"stage3 List.create on children of form {shape}: nested lists are flattened in order, the denoted product is kept, a single remaining node is returned unwrapped"))
for k in (0, 1, 2, 3):
    KERNELS.append(_mk(ConcatCreate, f"ConcatCreate_{k}", count=k, id=f"C02.P.tree_concat_create[{k}]", describe="stage3 ConcatenatedAxis.create: the denoted sum is kept; a single child is returned itself; ValueError without children"))
for q in ("Brackets", "FlattenedAxis"):
    for ic in ("Axis", "List", q):
        KERNELS.append(_mk(WrapCreate, f"WrapCreate_{q}_{ic}", qual=f"{q}/create", inner_cls=ic, id=f"C02.P.tree_{q.lower()}_create[{ic}]", describe=f"stage3 {q}.create: the denoted value is that of the inner expression (also for the normalised forms: double wrapping, brackets around nothing)"))
