"""Sidecar contracts for the `value` properties of stage1 / stage2 expression nodes (C02 'arithmetic is exact for lengths and products beyond 2**31'):
the value of a product node is the mathematical product of its children's values and the value of a concatenation their sum (Python integers, no fixed width),
and it is None exactly when some child is still unknown. These are the sites repaired by the fix commits e9dbc7c and 1e47d8a."""
import z3
from ..pyvc import *  # noqa
from .base import Kernel


class NodeValue(Kernel):
    prop = "C02"
    stage, cls, known = 2, "List", (True, True)

    def setup(self, eng, bound=None):
        self.vs = [z3.Int(f"v{i}") for i in range(len(self.known))]
        kids = [SRec("Axis", value=SInt(self.vs[i]) if kn else SConc(None)) for i, kn in enumerate(self.known)]

        def c_prod(e, p, av, kw):
            xs = av[0]
            if not isinstance(xs, STup) or not all(isinstance(x, SInt) for x in xs.items):
                raise OutOfSubset("math.prod of a non-concrete-length int sequence")
            t = z3.IntVal(1)
            for x in xs.items:
                t = t * x.t
            return SInt(t)

        eng.contracts["math.prod"] = SContract(c_prod, "math.prod of finitely many Python ints = their mathematical product")
        return {"self": SRec(self.cls, children=STup(kids, "list"))}, [], {}

    def post(self, eng, out, p):
        if isinstance(out, Raise):
            eng.oblige("post:no exception", p, z3.BoolVal(False), "post")
            return
        r = out.v
        if not all(self.known):
            eng.oblige("post:None as long as some child is unknown", p, z3.BoolVal(isinstance(r, SConc) and r.v is None), "post")
            return
        want = z3.IntVal(1 if self.cls == "List" else 0)
        for v in self.vs:
            want = want * v if self.cls == "List" else want + v
        eng.oblige("post:the value is the exact " + ("product" if self.cls == "List" else "sum") + " of the children's values (mathematical integers)", p, r.t == want if isinstance(r, SInt) else z3.BoolVal(False), "post")

    def twin(self, tier):
        import math
        import einx._src.namedtensor.stage1 as s1
        import einx._src.namedtensor.stage2 as s2
        n, fails = 0, []
        big = [2 ** 31 + 7, 2 ** 40 + 1, 3 ** 25, 65536, 2 ** 63 - 1]
        for a in big:
            for b in big:
                n += 1
                l2 = s2.List([s2.Axis("a", a, []), s2.Axis("b", b, [])], [])
                c2 = s2.ConcatenatedAxis([s2.Axis("a", a, []), s2.Axis("b", b, [])], [])
                if l2.value != a * b or c2.value != a + b or type(l2.value) is not int:
                    fails.append({"detail": f"stage2 values for {a}, {b}: product {l2.value}, sum {c2.value}"})
                t1 = s1.parse_arg(f"({a} {b}) ({a} + {b})")
                vals = [c.value for c in t1.children]
                if [int(v) for v in vals] != [a * b, a + b]:
                    fails.append({"detail": f"stage1 values for {a}, {b}: {vals}"})
        return n, fails[:3]


def _mk(base, name, **attrs):
    return type(name, (base,), attrs)()


KERNELS = []
for stage, f in ((1, "einx/_src/namedtensor/stage1/tree.py"), (2, "einx/_src/namedtensor/stage2/tree.py")):
    for cls in ("List", "ConcatenatedAxis"):
        for known in ((), (True,), (True, True), (True, True, True), (True, False), (False,)):
            if cls == "ConcatenatedAxis" and known == ():
                continue
            tag = "".join("k" if x else "u" for x in known) or "empty"
            KERNELS.append(_mk(NodeValue, f"V{stage}{cls}{tag}", stage=stage, cls=cls, known=known, file=f, module=f.replace("/", ".")[:-3], qual=f"{cls}/value",
                               id=f"C02.P.stage{stage}_{cls.lower()}_value[{tag}]", describe=f"stage{stage} {cls}.value with children {tag} (k = known, u = unknown): exact " + ("product" if cls == "List" else "sum") + " of the known values; None iff a child is unknown"))
