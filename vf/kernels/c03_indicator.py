"""Sidecar contracts for namedtensor/util.py :: ExpressionIndicator (C03 / C12): the helpers that compute caret positions for error messages.

These helpers end in `assert all(0 <= p < len(text) for p in pos)`; an AssertionError there replaces the documented error by an internal one (C03) and loses
the caller's text (C12). Contracts:
  get_pos_for_literal   total for ALL texts and ALL literals (string theory): every reported position lies inside the text, the assertion cannot fail, and the
                        positions are exactly the characters covered by an occurrence of the literal;
  get_pos_for_exprs / _brackets / _ellipses / _concat / _axisnames
                        no AssertionError whenever the nodes carry spans inside the text (0 <= begin <= end <= len(text)) - the representation invariant that
                        parse_op establishes (C12.P.lexer) - where synthetic nodes (begin < 0) are skipped by the helpers that are reachable with them.
"""
import z3
from ..pyvc import *  # noqa
from .base import Kernel

F = "einx/_src/namedtensor/util.py"
M = "einx._src.namedtensor.util"


class PosLiteral(Kernel):
    id = "C03.P.pos_literal"
    prop = "C03"
    file, module = F, M
    qual = "ExpressionIndicator/get_pos_for_literal"
    z3_timeout = 20
    describe = ("get_pos_for_literal(literal), for every text and every literal: never raises (the trailing assertion holds - also when the literal does not occur at all), "
                "and every returned position lies inside an occurrence of the literal in the text")

    def setup(self, eng, bound=None):
        self.text, self.lit = z3.String("text"), z3.String("literal")
        me = SRec("ExpressionIndicator", text=SStr(self.text))

        def inv(e, p, it):
            pos = e.as_seq(p.lookup("pos"), p)
            t = fresh("t")
            return z3.And(pos.n >= 0, z3.ForAll([t], z3.Implies(z3.And(0 <= t, t < pos.n), z3.And(0 <= z3.Select(pos.arr, t), z3.Select(pos.arr, t) < z3.Length(self.text),
                                                                                                   self.covered(z3.Select(pos.arr, t))))))

        eng.invariants[0] = inv
        eng.local_types = {"pos": ("list", "int")}
        return {"self": me, "literal": SStr(self.lit)}, [], {}

    def covered(self, q):
        i = fresh("occ")
        return z3.Exists([i], z3.And(0 <= i, i <= q, q < i + z3.Length(self.lit), z3.PrefixOf(self.lit, z3.SubString(self.text, i, z3.Length(self.text) - i))))

    def post(self, eng, out, p):
        if isinstance(out, Raise):
            eng.oblige(f"post:no {out.cls} for any text and literal", p, z3.BoolVal(False), "post")
            return
        r = eng.as_seq(out.v, p)
        t = fresh("t")
        eng.oblige("post:every position is inside the text and covered by an occurrence of the literal", p,
                   z3.ForAll([t], z3.Implies(z3.And(0 <= t, t < r.n), z3.And(0 <= z3.Select(r.arr, t), z3.Select(r.arr, t) < z3.Length(self.text), self.covered(z3.Select(r.arr, t))))), "post")

    def twin(self, tier):
        import itertools
        from einx._src.namedtensor.util import ExpressionIndicator
        n, fails = 0, []
        alpha = "a-> ,"
        for ln in range(0, 6):
            for chars in itertools.product(alpha, repeat=ln):
                text = "".join(chars)
                for lit in ("->", ",", " ", "a", "", "->->", "x"):
                    n += 1
                    try:
                        got = ExpressionIndicator(text).get_pos_for_literal(lit)
                    except Exception as e:  # noqa
                        fails.append({"detail": f"ExpressionIndicator({text!r}).get_pos_for_literal({lit!r}) raised {type(e).__name__}"})
                        continue
                    exp = sorted({q for i in range(len(text)) if text.startswith(lit, i) for q in range(i, i + len(lit))})
                    if sorted(set(got)) != exp:
                        fails.append({"detail": f"ExpressionIndicator({text!r}).get_pos_for_literal({lit!r}) = {got}, expected the characters {exp}"})
        return n, fails[:3]


class PosNodes(Kernel):
    """the node-based helpers: no AssertionError for nodes whose spans lie inside the text"""
    prop = "C03"
    file, module = F, M
    which = "brackets"

    def setup(self, eng, bound=None):
        self.text = z3.String("text")
        me = SRec("ExpressionIndicator", text=SStr(self.text))
        n = self.n = z3.Int("n_nodes")
        nodes = self.nodes = z3.Array("nodes", I, Obj)
        bp, ep = uf("attr_begin_pos", Obj, I), uf("attr_end_pos", Obj, I)
        self.bp, self.ep = bp, ep
        eng.int_attrs = set(eng.int_attrs) | {"begin_pos", "end_pos"}
        eng.opaque_seq_kind = "obj"
        root = SObj(z3.Const("root", Obj))
        eng.contracts["expr.nodes"] = SContract(lambda e, p, av, kw: SSeq(nodes, n, "obj", "list"), "expr.nodes() (all nodes of the expression)")
        L = z3.Length(self.text)
        k = z3.Int("k")
        # representation invariant of parsed expressions: spans inside the text; synthetic nodes carry begin_pos < 0 (and are skipped where they can occur)
        minlen = {"brackets": 1, "ellipses": 3, "concat": 0, "exprs": 0}[self.which]
        inv_pos = z3.ForAll([k], z3.Implies(z3.And(0 <= k, k < n), z3.Or(bp(nodes[k]) < 0, z3.And(bp(nodes[k]) + minlen <= ep(nodes[k]), ep(nodes[k]) <= L))))
        if self.which == "exprs":
            inv_pos = z3.ForAll([k], z3.Implies(z3.And(0 <= k, k < n), z3.And(0 <= bp(nodes[k]), bp(nodes[k]) <= ep(nodes[k]), ep(nodes[k]) <= L)))
            env = {"self": me, "exprs": SSeq(nodes, n, "obj", "list")}
        else:
            env = {"self": me, "exprs": STup([root], "list")}
        eng.local_types = {"pos": ("list", "int")}

        def inv_outer(e, p, it):
            return self.inside(e, p)

        def inv_inner(e, p, it):
            return self.inside(e, p)

        eng.invariants[0] = inv_outer
        eng.invariants[1] = inv_inner
        return env, [n >= 0, inv_pos], {}

    def inside(self, e, p):
        pos = e.as_seq(p.lookup("pos"), p)
        t = fresh("t")
        return z3.And(pos.n >= 0, z3.ForAll([t], z3.Implies(z3.And(0 <= t, t < pos.n), z3.And(0 <= z3.Select(pos.arr, t), z3.Select(pos.arr, t) < z3.Length(self.text)))))

    def post(self, eng, out, p):
        if isinstance(out, Raise):
            eng.oblige(f"post:no {out.cls} for nodes whose spans lie inside the text", p, z3.BoolVal(False), "post")
            return
        r = eng.as_seq(out.v, p)
        t = fresh("t")
        eng.oblige("post:every reported position lies inside the text", p, z3.ForAll([t], z3.Implies(z3.And(0 <= t, t < r.n), z3.And(0 <= z3.Select(r.arr, t), z3.Select(r.arr, t) < z3.Length(self.text)))), "post")


KERNELS = [PosLiteral()]
for _w in ("brackets", "ellipses", "concat", "exprs"):
    KERNELS.append(type("PosNodes_" + _w, (PosNodes,), {"which": _w, "id": f"C03.P.pos_{_w}", "qual": f"ExpressionIndicator/get_pos_for_{_w}",
                        "describe": f"get_pos_for_{_w}: for nodes whose spans lie inside the text (synthetic nodes with begin_pos < 0 are skipped), every reported position is inside the text and the trailing assertion cannot fail"})())
