"""Sidecar contract for adapter/einx_from_namedtensor.py :: update_at/op_with_zerosized_args (C03, finding F-zero-size-update-shortcut): the exact extent of the shortcut."""
import ast
import z3
from ..pyvc import *  # noqa
from .base import Kernel


class ZeroSized(Kernel):
    id = "C03.P.zerosized_shortcut"
    prop = "C03"
    file = "einx/_src/adapter/einx_from_namedtensor.py"
    module = "einx._src.adapter.einx_from_namedtensor"
    qual = "update_at/op_with_zerosized_args"
    describe = ("set_at/add_at/subtract_at wrapper, three tensors of ANY rank and shape: the validating operation is bypassed (the first tensor is returned as it is) EXACTLY when a coordinate or "
                "update tensor with a known shape has a zero-length dimension - the extent of finding F-zero-size-update-shortcut; in every other case the operation receives the caller's "
                "description, tensors and keyword arguments unchanged, once, and its result is returned. A zero-length dimension of the TARGET alone does not bypass validation")
    unknown_shape = False

    def setup(self, eng, bound=None):
        self.ns = [z3.Int(f"rank{i}") for i in range(3)]
        self.shs = [z3.Array(f"shape{i}", I, I) for i in range(3)]
        self.ts = [SRec("tensor", tag=SConc(i), shape=SSeq(self.shs[i], self.ns[i], "int", "tuple")) for i in range(3)]
        if self.unknown_shape:
            self.ts[2] = SRec("tensor", tag=SConc(2), shape=SConc(None))
        self.desc = z3.Const("description", Obj)
        self.kw = z3.Const("kw_backend", Obj)

        def c_op(e, p, av, kw):
            p.ghost["calls"] = list(p.ghost.get("calls", [])) + [(list(av), dict(kw))]
            return SObj(z3.Const("op_result", Obj))

        eng.contracts["op"] = SContract(c_op, "the validating, lowering operation")
        orig_any = eng.bi_any

        def bi_any(n, p):  # any(<elt> for t in <concrete-length list> for i in t.shape): disjunction over the outer items of the inner any(...)
            g = n.args[0]
            if isinstance(g, ast.GeneratorExp) and len(g.generators) == 2 and not g.generators[0].ifs and not g.generators[1].ifs:
                for outer, p1 in eng.ev(g.generators[0].iter, p):
                    if not isinstance(outer, STup):
                        raise OutOfSubset("outer generator over a symbolic-length sequence")
                    terms, cur = [], p1
                    for item in outer.items:
                        q = cur.fork()
                        q.frames.append({})
                        eng.assign(g.generators[0].target, item, q)
                        inner = ast.Call(func=ast.Name(id="any", ctx=ast.Load()), args=[ast.GeneratorExp(elt=g.elt, generators=[g.generators[1]])], keywords=[])
                        ast.copy_location(inner, n)
                        ast.fix_missing_locations(inner)
                        (v, q2), = list(orig_any(inner, q))
                        terms.append(eng.truth(v))
                        q2.frames.pop()
                        cur = q2
                    yield SBool(z3.Or(*terms) if terms else z3.BoolVal(False)), cur
                return
            yield from orig_any(n, p)

        eng.bi_any = bi_any
        return {"description": SObj(self.desc), "tensors": STup(self.ts, "tuple"), "kwargs": SDict({"backend": SObj(self.kw)}), "op": eng.contracts["op"]}, [n >= 0 for n in self.ns], {}

    def post(self, eng, out, p):
        if isinstance(out, Raise):
            eng.oblige("post:no exception from the wrapper itself", p, z3.BoolVal(False), "post")
            return
        k = fresh("k")
        idx = [1] if self.unknown_shape else [1, 2]
        zero = z3.Or(*[z3.Exists([k], z3.And(0 <= k, k < self.ns[i], z3.Select(self.shs[i], k) == 0)) for i in idx])
        calls = p.ghost.get("calls", [])
        r = out.v
        if not calls:
            eng.oblige("post:validation is bypassed only if a coordinate / update tensor of known shape has a zero-length dimension", p, zero, "post")
            eng.oblige("post:the bypass returns the first tensor itself", p, z3.BoolVal(r is self.ts[0]), "post")
            return
        eng.oblige("post:the operation runs only if no coordinate / update tensor has a zero-length dimension", p, z3.Not(zero), "post")
        av, kw = calls[0]
        ok = len(calls) == 1 and len(av) == 4 and isinstance(av[0], SObj) and all(av[i + 1] is self.ts[i] for i in range(3)) and sorted(kw) == ["backend"]
        eng.oblige("post:it receives the caller's description, tensors and keywords unchanged, exactly once", p, z3.And(av[0].t == self.desc, kw["backend"].t == self.kw) if ok else z3.BoolVal(False), "post")
        eng.oblige("post:its result is returned", p, r.t == z3.Const("op_result", Obj) if isinstance(r, SObj) else z3.BoolVal(False), "post")


class ZeroSizedUnknown(ZeroSized):
    id = "C03.P.zerosized_shortcut[unknown update shape]"
    unknown_shape = True


KERNELS = [ZeroSized(), ZeroSizedUnknown()]
