"""Sidecar contract for frontend/api.py :: _api_withoutbackend/inner - the entry point of every einx operation (C04 'the text returned with graph=True is exactly the code that is
executed for the same call', C13 'never invoked when graph=True is requested', C09 / C06: what reaches the cached constructor and what reaches the compiled function)."""
import ast
import z3
from ..pyvc import *  # noqa
from .base import Kernel
from .c06_freeze import dictcomp_hook


class ApiInner(Kernel):
    prop = "C04"
    file = "einx/_src/frontend/api.py"
    module = "einx._src.frontend.api"
    qual = "_api_withoutbackend/inner"
    graph = False

    def setup(self, eng, bound=None):
        dictcomp_hook(eng)
        self.t = [SObj(z3.Const(f"tensor{i}", Obj)) for i in range(2)]
        self.desc, self.kwv, self.be_arg = SObj(z3.Const("description", Obj)), SObj(z3.Const("kw_size", Obj)), SObj(z3.Const("backend_argument", Obj))
        self.backend = SObj(z3.Const("selected_backend", Obj))
        self.fn, self.code = z3.Const("compiled_function", Obj), z3.Const("source_text", Obj)
        targs = [SRec("TensorArg", value=x) for x in self.t]

        def c_split(e, p, av, kw):
            p.ghost["split"] = (av[1], av[2])
            return STup([STup([self.desc] + targs, "list"), SDict({"backend": self.be_arg, "a": self.kwv}), STup(list(self.t), "list")], "tuple")

        def c_get(e, p, av, kw):
            p.ghost["get"] = list(av)
            return self.backend

        def c_tracer(e, p, av, kw):
            x = av[0]
            if isinstance(x, SRec) and x.cls == "TensorArg":
                return SRec("Tracer", of=x.f["value"], backend=av[1])
            return x

        def c_construct(e, p, av, kw):
            p.ghost["construct"] = list(p.ghost.get("construct", [])) + [(list(av), dict(kw))]
            return STup([SObj(self.fn), SObj(self.code)], "tuple")

        def c_function(e, p, av, kw):
            p.ghost["run"] = list(p.ghost.get("run", [])) + [(list(av), dict(kw))]
            return SObj(z3.Const("result", Obj))

        eng.contracts.update({"_split_tensors": SContract(c_split, "_split_tensors (C15.P.split_tensors)"), "registry.get": SContract(c_get, "registry.get (C11)"), "_to_tracer": SContract(c_tracer, "_to_tracer (C06.P.to_tracer)"),
                              "construct_graph_with_cache": SContract(c_construct, "lru_cache(_construct_graph): returns (function, code) of ONE compilation"),
                              "backend.raise_on_import_failure": SContract(lambda e, p, av, kw: SConc(None)), "to_ord_str": SContract(lambda e, p, av, kw: SConc("<ord>"))})
        orig_apply = eng.apply

        def apply(f, av, kw, p, n):
            if isinstance(f, SObj) and isinstance(n.func, ast.Name) and n.func.id == "function":
                yield c_function(eng, p, av, kw), p
                return
            yield from orig_apply(f, av, kw, p, n)

        eng.apply = apply

        def st_Delete(st, p):  # del mapping[key] on a dict with concrete keys
            for tg in st.targets:
                if not (isinstance(tg, ast.Subscript) and isinstance(tg.value, ast.Name)):
                    raise OutOfSubset("del of something else than name[key]")
                d = p.lookup(tg.value.id)
                (k, _), = list(eng.ev(tg.slice, p))
                if not (isinstance(d, SDict) and isinstance(k, SConc) and k.v in d.d):
                    raise OutOfSubset("del of a missing / symbolic key")
                nd = dict(d.d)
                del nd[k.v]
                p.bind(tg.value.id, SDict(nd))
            yield None, p

        eng.st_Delete = st_Delete
        orig_binop = eng.ev_BinOp

        def ev_BinOp(n, p):  # dict | dict
            if isinstance(n.op, ast.BitOr):
                for a, p1 in eng.ev(n.left, p):
                    for b, p2 in eng.ev(n.right, p1):
                        if isinstance(a, SDict) and isinstance(b, SDict):
                            d = dict(a.d)
                            d.update(b.d)
                            yield SDict(d), p2
                            return
                        break
                    break
            yield from orig_binop(n, p)

        eng.ev_BinOp = ev_BinOp

        def st_Try(st, p):
            if st.finalbody or st.orelse:
                raise OutOfSubset("try with else/finally")
            for out, q in eng.exec_block(st.body, [p]):
                if isinstance(out, Raise):
                    raise OutOfSubset("exception inside a try body")
                yield out, q

        eng.st_Try = st_Try
        self.sig = SObj(z3.Const("signature", Obj))
        return {"args": STup([self.desc] + self.t, "tuple"), "kwargs": SDict({"a": self.kwv}), "backend": self.be_arg, "graph": SBool(self.graph), "signature": self.sig,
                "registry": SObj(z3.Const("registry", Obj))}, [], {}

    def post(self, eng, out, p):
        if isinstance(out, Raise):
            eng.oblige("post:no exception of the entry point itself", p, z3.BoolVal(False), "post")
            return
        g = p.ghost
        get = g.get("get", [])
        ok_get = len(get) == 2 and isinstance(get[0], SObj) and isinstance(get[1], STup)
        eng.oblige("post:the backend is selected from the backend argument and the raw tensor arguments only", p,
                   z3.And(get[0].t == self.be_arg.t, z3.BoolVal(len(get[1].items) == 2), *[x.t == y.t for x, y in zip(get[1].items, self.t)]) if ok_get else z3.BoolVal(False), "post")
        cons = g.get("construct", [])
        ok = len(cons) == 1 and not cons[0][0] and sorted(cons[0][1]) == ["args", "kwargs"]
        eng.oblige("post:the cached constructor is called exactly once, with keywords args and kwargs", p, z3.BoolVal(ok), "post")
        if ok:
            a, k = cons[0][1]["args"], cons[0][1]["kwargs"]
            items = list(a.items) if isinstance(a, STup) else []
            tr = [x for x in items if isinstance(x, SRec) and x.cls == "Tracer"]
            eng.oblige("post:it receives the description unchanged and, for every tensor, a tracer made from that tensor and the selected backend - never the tensor itself", p,
                       z3.And(z3.BoolVal(len(items) == 3 and isinstance(items[0], SObj) and len(tr) == 2 and not any(isinstance(x, SObj) and any(x.t.eq(t.t) for t in self.t) for x in items)),
                              items[0].t == self.desc.t if items and isinstance(items[0], SObj) else z3.BoolVal(False), *[q.f["of"].t == t.t for q, t in zip(tr, self.t)], *[q.f["backend"].t == self.backend.t for q in tr]), "post")
            kd = k.d if isinstance(k, SDict) else {}
            eng.oblige("post:its keywords are the caller's keyword arguments plus the SELECTED backend (not the backend argument)", p,
                       z3.And(z3.BoolVal(sorted(kd) == ["a", "backend"]), kd["a"].t == self.kwv.t, kd["backend"].t == self.backend.t) if sorted(kd) == ["a", "backend"] and all(isinstance(v, SObj) for v in kd.values()) else z3.BoolVal(False), "post")
        runs = g.get("run", [])
        r = out.v
        if self.graph:
            eng.oblige("post:graph=True returns the source text of the very compilation whose function would run, and runs nothing", p, z3.And(z3.BoolVal(not runs), r.t == self.code if isinstance(r, SObj) else z3.BoolVal(False)), "post")
        else:
            okr = len(runs) == 1 and len(runs[0][0]) == 2 and not runs[0][1]
            eng.oblige("post:the compiled function runs exactly once, on exactly the caller's tensor arguments in order, and its result is returned", p,
                       z3.And(*[x.t == y.t for x, y in zip(runs[0][0], self.t)], r.t == z3.Const("result", Obj) if isinstance(r, SObj) else z3.BoolVal(False)) if okr else z3.BoolVal(False), "post")


class ApiInnerGraph(ApiInner):
    id = "C04.P.api_entry[graph=True]"
    graph = True
    describe = "entry point of every operation, graph=True: the returned text is the `code` of the same (function, code) pair the cached constructor returned; nothing is executed, no factory can run"


class ApiInnerRun(ApiInner):
    id = "C04.P.api_entry[run]"
    graph = False
    describe = ("entry point of every operation: backend selected from (backend argument, raw tensors); the cached constructor gets the description, tracers (never tensors) and the selected backend; "
                "the compiled function runs exactly once on exactly the caller's tensors, in order")


KERNELS = [ApiInnerRun(), ApiInnerGraph()]
