"""Sidecar contract for frontend/api.py :: _api_withoutbackend/inner - the entry point of every einx operation (C04 'the text returned with graph=True is exactly the code that is
executed for the same call', C13 'never invoked when graph=True is requested', C09 / C06: what reaches the cached constructor and what reaches the compiled function)."""
import ast
import z3
from ..pyvc import *  # noqa
from .base import Kernel
from .c06_freeze import dictcomp_hook


class ApiInner(Kernel):
    prop = "C04"
    file = "einx/_src/frontend/api.py"
    module = "einx._src.frontend.api"
    qual = "_api_withoutbackend/inner"
    graph = False

    def setup(self, eng, bound=None):
        dictcomp_hook(eng)
        self.t = [SObj(z3.Const(f"tensor{i}", Obj)) for i in range(2)]
        self.desc, self.kwv, self.be_arg = SObj(z3.Const("description", Obj)), SObj(z3.Const("kw_size", Obj)), SObj(z3.Const("backend_argument", Obj))
        self.backend = SObj(z3.Const("selected_backend", Obj))
        self.fn, self.code = z3.Const("compiled_function", Obj), z3.Const("source_text", Obj)
        targs = [SRec("TensorArg", value=x) for x in self.t]

        def c_split(e, p, av, kw):
            p.ghost["split"] = (av[1], av[2])
            return STup([STup([self.desc] + targs, "list"), SDict({"backend": self.be_arg, "a": self.kwv}), STup(list(self.t), "list")], "tuple")

        def c_get(e, p, av, kw):
            p.ghost["get"] = list(av)
            return self.backend

        def c_tracer(e, p, av, kw):
            x = av[0]
            if isinstance(x, SRec) and x.cls == "TensorArg":
                return SRec("Tracer", of=x.f["value"], backend=av[1])
            return x

        def c_construct(e, p, av, kw):
            p.ghost["construct"] = list(p.ghost.get("construct", [])) + [(list(av), dict(kw))]
            return STup([SObj(self.fn), SObj(self.code)], "tuple")

        def c_function(e, p, av, kw):
            p.ghost["run"] = list(p.ghost.get("run", [])) + [(list(av), dict(kw))]
            return SObj(z3.Const("result", Obj))

        eng.contracts.update({"_split_tensors": SContract(c_split, "_split_tensors (C15.P.split_tensors)"), "registry.get": SContract(c_get, "registry.get (C11)"), "_to_tracer": SContract(c_tracer, "_to_tracer (C06.P.to_tracer)"),
                              "construct_graph_with_cache": SContract(c_construct, "lru_cache(_construct_graph): returns (function, code) of ONE compilation"),
                              "backend.raise_on_import_failure": SContract(lambda e, p, av, kw: SConc(None)), "to_ord_str": SContract(lambda e, p, av, kw: SConc("<ord>"))})
        orig_apply = eng.apply

        def apply(f, av, kw, p, n):
            if isinstance(f, SObj) and isinstance(n.func, ast.Name) and n.func.id == "function":
                yield c_function(eng, p, av, kw), p
                return
            yield from orig_apply(f, av, kw, p, n)

        eng.apply = apply

        def st_Delete(st, p):  # del mapping[key] on a dict with concrete keys
            for tg in st.targets:
                if not (isinstance(tg, ast.Subscript) and isinstance(tg.value, ast.Name)):
                    raise OutOfSubset("del of something else than name[key]")
                d = p.lookup(tg.value.id)
                (k, _), = list(eng.ev(tg.slice, p))
                if not (isinstance(d, SDict) and isinstance(k, SConc) and k.v in d.d):
                    raise OutOfSubset("del of a missing / symbolic key")
                nd = dict(d.d)
                del nd[k.v]
                p.bind(tg.value.id, SDict(nd))
            yield None, p

        eng.st_Delete = st_Delete
        orig_binop = eng.ev_BinOp

        def ev_BinOp(n, p):  # dict | dict
            if isinstance(n.op, ast.BitOr):
                for a, p1 in eng.ev(n.left, p):
                    for b, p2 in eng.ev(n.right, p1):
                        if isinstance(a, SDict) and isinstance(b, SDict):
                            d = dict(a.d)
                            d.update(b.d)
                            yield SDict(d), p2
                            return
                        break
                    break
            yield from orig_binop(n, p)

        eng.ev_BinOp = ev_BinOp

        def st_Try(st, p):
            if st.finalbody or st.orelse:
                raise OutOfSubset("try with else/finally")
            for out, q in eng.exec_block(st.body, [p]):
                if isinstance(out, Raise):
                    raise OutOfSubset("exception inside a try body")
                yield out, q

        eng.st_Try = st_Try
        self.sig = SObj(z3.Const("signature", Obj))
        return {"args": STup([self.desc] + self.t, "tuple"), "kwargs": SDict({"a": self.kwv}), "backend": self.be_arg, "graph": SBool(self.graph), "signature": self.sig,
                "registry": SObj(z3.Const("registry", Obj))}, [], {}

    def post(self, eng, out, p):
        if isinstance(out, Raise):
            eng.oblige("post:no exception of the entry point itself", p, z3.BoolVal(False), "post")
            return
        g = p.ghost
        get = g.get("get", [])
        ok_get = len(get) == 2 and isinstance(get[0], SObj) and isinstance(get[1], STup)
        eng.oblige("post:the backend is selected from the backend argument and the raw tensor arguments only", p,
                   z3.And(get[0].t == self.be_arg.t, z3.BoolVal(len(get[1].items) == 2), *[x.t == y.t for x, y in zip(get[1].items, self.t)]) if ok_get else z3.BoolVal(False), "post")
        cons = g.get("construct", [])
        ok = len(cons) == 1 and not cons[0][0] and sorted(cons[0][1]) == ["args", "kwargs"]
        eng.oblige("post:the cached constructor is called exactly once, with keywords args and kwargs", p, z3.BoolVal(ok), "post")
        if ok:
            a, k = cons[0][1]["args"], cons[0][1]["kwargs"]
            items = list(a.items) if isinstance(a, STup) else []
            tr = [x for x in items if isinstance(x, SRec) and x.cls == "Tracer"]
            eng.oblige("post:it receives the description unchanged and, for every tensor, a tracer made from that tensor and the selected backend - never the tensor itself", p,
                       z3.And(z3.BoolVal(len(items) == 3 and isinstance(items[0], SObj) and len(tr) == 2 and not any(isinstance(x, SObj) and any(x.t.eq(t.t) for t in self.t) for x in items)),
                              items[0].t == self.desc.t if items and isinstance(items[0], SObj) else z3.BoolVal(False), *[q.f["of"].t == t.t for q, t in zip(tr, self.t)], *[q.f["backend"].t == self.backend.t for q in tr]), "post")
            kd = k.d if isinstance(k, SDict) else {}
            eng.oblige("post:its keywords are the caller's keyword arguments plus the SELECTED backend (not the backend argument)", p,
                       z3.And(z3.BoolVal(sorted(kd) == ["a", "backend"]), kd["a"].t == self.kwv.t, kd["backend"].t == self.backend.t) if sorted(kd) == ["a", "backend"] and all(isinstance(v, SObj) for v in kd.values()) else z3.BoolVal(False), "post")
        runs = g.get("run", [])
        r = out.v
        if self.graph:
            eng.oblige("post:graph=True returns the source text of the very compilation whose function would run, and runs nothing", p, z3.And(z3.BoolVal(not runs), r.t == self.code if isinstance(r, SObj) else z3.BoolVal(False)), "post")
        else:
            okr = len(runs) == 1 and len(runs[0][0]) == 2 and not runs[0][1]
            eng.oblige("post:the compiled function runs exactly once, on exactly the caller's tensor arguments in order, and its result is returned", p,
                       z3.And(*[x.t == y.t for x, y in zip(runs[0][0], self.t)], r.t == z3.Const("result", Obj) if isinstance(r, SObj) else z3.BoolVal(False)) if okr else z3.BoolVal(False), "post")


class ApiInnerGraph(ApiInner):
    id = "C04.P.api_entry[graph=True]"
    graph = True
    describe = "entry point of every operation, graph=True: the returned text is the `code` of the same (function, code) pair the cached constructor returned; nothing is executed, no factory can run"


class ApiInnerRun(ApiInner):
    id = "C04.P.api_entry[run]"
    graph = False
    describe = ("entry point of every operation: backend selected from (backend argument, raw tensors); the cached constructor gets the description, tracers (never tensors) and the selected backend; "
                "the compiled function runs exactly once on exactly the caller's tensors, in order")


class ConstructGraph(Kernel):
    id = "C04.P.construct_graph"
    prop = "C04"
    file = "einx/_src/frontend/api.py"
    module = "einx._src.frontend.api"
    qual = "_construct_graph"
    describe = ("_construct_graph: the operation is traced once, on the given arguments, inside depend_on(all input tracers); the graph's inputs are exactly the tracer-valued arguments in order "
                "(positional first, then keyword values); it is optimised with the selected backend's optimizations and compiled ONCE; the returned (function, code) are the two results of that "
                "single compile call - the text handed out with graph=True belongs to the function that runs")

    def setup(self, eng, bound=None):
        self.desc = SObj(z3.Const("description", Obj))
        self.tr = [SRec("Tracer", tag=SConc(i)) for i in range(2)]
        for t in self.tr:
            t.isa = ("Tracer", "tracer.Tracer")
        self.kwt = SRec("Tracer", tag=SConc("kw"))
        self.kwt.isa = ("Tracer", "tracer.Tracer")
        self.size = SObj(z3.Const("axis_size", Obj))
        self.backend = SRec("Backend", optimizations=SObj(z3.Const("optimizations", Obj)), compiler=SObj(z3.Const("compiler", Obj)), tag=SConc("backend"))
        log = lambda name, result: SContract(lambda e, p, av, kw: (p.ghost.__setitem__(name, list(p.ghost.get(name, [])) + [(list(av), dict(kw), dict(in_with=p.ghost.get("in_with")))]), result(av, kw))[1], name)  # noqa
        eng.contracts.update({"func": log("trace", lambda av, kw: SObj(z3.Const("output_tracer", Obj))),
                              "tracer.depend_on": log("depend_on", lambda av, kw: SObj(z3.Const("cm", Obj))),
                              "tracer.Graph": log("graph", lambda av, kw: SObj(z3.Const("graph", Obj))),
                              "tracer.optimize": log("optimize", lambda av, kw: SObj(z3.Const("optimized_graph", Obj))),
                              "backend.compiler.compile": log("compile", lambda av, kw: STup([SObj(z3.Const("compiled_function", Obj)), SObj(z3.Const("source_text", Obj))], "tuple"))})
        pre = [z3.Not(uf("is_tracer.Tracer", Obj, B)(self.desc.t)), z3.Not(uf("is_tracer.Tracer", Obj, B)(self.size.t))]

        def st_With(st, p):  # the body runs between __enter__ and __exit__ of the context manager (its effect is the callee's contract)
            for item in st.items:
                for _, p in eng.ev(item.context_expr, p):
                    break
            p.ghost["in_with"] = True
            for out, q in eng.exec_block(st.body, [p]):
                q.ghost["in_with"] = False
                yield out, q

        eng.st_With = st_With
        return {"args": STup([self.desc] + self.tr, "list"), "kwargs": SDict({"a": self.size, "w": self.kwt, "backend": self.backend}), "backend": SConc(None), "func": eng.contracts["func"]}, pre, {}

    def post(self, eng, out, p):
        if isinstance(out, Raise):
            eng.oblige("post:no exception of _construct_graph itself", p, z3.BoolVal(False), "post")
            return
        g = p.ghost
        want_inputs = self.tr + [self.kwt]
        tr, dep, gr, opt, comp = (g.get(k, []) for k in ("trace", "depend_on", "graph", "optimize", "compile"))
        eng.oblige("post:each of depend_on, the traced operation, Graph, optimize and compile is called exactly once", p, z3.BoolVal(all(len(x) == 1 for x in (tr, dep, gr, opt, comp))), "post")
        if not all(len(x) == 1 for x in (tr, dep, gr, opt, comp)):
            return
        eng.oblige("post:depend_on receives exactly the tracer-valued arguments (positional first, then keyword values), and the operation is traced inside it", p,
                   z3.BoolVal(len(dep[0][0]) == 3 and all(a is b for a, b in zip(dep[0][0], want_inputs)) and tr[0][2]["in_with"] is True), "post")
        a, k = tr[0][0], tr[0][1]
        eng.oblige("post:the operation is traced on the given arguments and keywords, unchanged (the backend included)", p,
                   z3.And(z3.BoolVal(len(a) == 3 and a[1] is self.tr[0] and a[2] is self.tr[1] and sorted(k) == ["a", "backend", "w"] and k["w"] is self.kwt and k["backend"] is self.backend), a[0].t == self.desc.t, k["a"].t == self.size.t)
                   if len(a) == 3 and isinstance(a[0], SObj) and isinstance(k.get("a"), SObj) else z3.BoolVal(False), "post")
        gk = gr[0][1]
        ins = gk.get("inputs")
        eng.oblige("post:the graph's inputs are those tracers, in that order, and its output is what the traced operation returned", p,
                   z3.And(z3.BoolVal(isinstance(ins, STup) and len(ins.items) == 3 and all(x is y for x, y in zip(ins.items, want_inputs))), gk["output"].t == z3.Const("output_tracer", Obj)) if isinstance(gk.get("output"), SObj) else z3.BoolVal(False), "post")
        eng.oblige("post:the graph is optimised with the optimizations of the selected backend", p, z3.And(opt[0][0][0].t == z3.Const("graph", Obj), opt[0][1]["optimizations"].t == z3.Const("optimizations", Obj))
                   if len(opt[0][0]) == 1 and isinstance(opt[0][1].get("optimizations"), SObj) else z3.BoolVal(False), "post")
        eng.oblige("post:the optimised graph is compiled with return_code=True", p, z3.And(comp[0][0][0].t == z3.Const("optimized_graph", Obj), eng.truth(comp[0][1]["return_code"])) if len(comp[0][0]) == 1 and "return_code" in comp[0][1] else z3.BoolVal(False), "post")
        r = out.v
        okr = isinstance(r, STup) and len(r.items) == 2 and all(isinstance(x, SObj) for x in r.items)
        eng.oblige("post:the returned (function, code) are the two results of that one compile call", p, z3.And(r.items[0].t == z3.Const("compiled_function", Obj), r.items[1].t == z3.Const("source_text", Obj)) if okr else z3.BoolVal(False), "post")


KERNELS = [ApiInnerRun(), ApiInnerGraph(), ConstructGraph()]
