"""Sidecar contracts for tracer/signature/python.py :: call / call_inplace / Call.__init__ / CallInplace.__init__ (C04 'in-place updates are ordered after the reads they depend on',
'every value is computed once'): what a traced call node depends on.

A traced call is created with the additional dependencies that are current at trace time (the tracers named by the enclosing `with tracer.depend_on(...)` blocks) and its input list
is [function] + positional args + keyword values + additional dependencies (for in-place calls: the updated object first) - the code generator orders statements by these inputs."""
import z3
from ..pyvc import *  # noqa
from .base import Kernel

F = "einx/_src/tracer/signature/python.py"
M = "einx._src.tracer.signature.python"


class CallFn(Kernel):
    prop = "C04"
    file, module = F, M
    inplace = False

    @property
    def qual(self):
        return "call_inplace" if self.inplace else "call"

    def setup(self, eng, bound=None):
        self.deps = z3.Const("current_dependencies", Obj)
        self.vals = {k: SObj(z3.Const(k, Obj)) for k in (["xs"] if self.inplace else []) + ["func", "args", "kwargs"]}

        def c_node(e, p, av, kw):
            p.ghost["node"] = list(p.ghost.get("node", [])) + [(list(av), dict(kw))]
            return SRec("Application", output=SObj(z3.Const("node_output", Obj)))

        def c_list(e, p, av, kw):
            return SRec("list_copy", of=av[0])

        eng.contracts.update({"Call": SContract(c_node, "Call(...)"), "CallInplace": SContract(c_node, "CallInplace(...)"), "list": SContract(c_list, "list(x): a copy"),
                              "tracer.get_additional_dependencies": SContract(lambda e, p, av, kw: SObj(self.deps), "the tracers named by the enclosing depend_on blocks of this thread")})
        return dict(self.vals), [], {}

    def post(self, eng, out, p):
        if isinstance(out, Raise):
            eng.oblige("post:no exception", p, z3.BoolVal(False), "post")
            return
        nodes = p.ghost.get("node", [])
        n_args = 5 if self.inplace else 4
        ok = len(nodes) == 1 and len(nodes[0][0]) == n_args and not nodes[0][1]
        eng.oblige("post:exactly one application node is created, from the caller's function, arguments and keyword arguments in order", p,
                   z3.And(*[a.t == b.t for a, b in zip(nodes[0][0][:n_args - 1], self.vals.values())]) if ok and all(isinstance(a, SObj) for a in nodes[0][0][:n_args - 1]) else z3.BoolVal(False), "post")
        last = nodes[0][0][-1] if ok else None
        eng.oblige("post:its additional dependencies are a copy of the dependencies current at trace time", p, last.f["of"].t == self.deps if isinstance(last, SRec) and last.cls == "list_copy" and isinstance(last.f["of"], SObj) else z3.BoolVal(False), "post")
        eng.oblige("post:the node's output tracer is returned", p, out.v.t == z3.Const("node_output", Obj) if isinstance(out.v, SObj) else z3.BoolVal(False), "post")


class CallInit(Kernel):
    prop = "C04"
    file, module = F, M
    inplace = False
    allowed_raises = ("ValueError", "TypeError")

    @property
    def qual(self):
        return ("CallInplace" if self.inplace else "Call") + "/__init__"

    def setup(self, eng, bound=None):
        self.fn, self.xs = z3.Const("function", Obj), z3.Const("xs", Obj)
        self.a = [z3.Const(f"arg{i}", Obj) for i in range(2)]
        self.kv = z3.Const("kwvalue", Obj)
        self.nd, self.dep = z3.Int("n_deps"), z3.Array("deps", I, Obj)

        def c_super_init(e, p, av, kw):
            p.ghost["app"] = dict(kw)
            return SConc(None)

        eng.contracts["super().__init__"] = SContract(c_super_init, "Application.__init__(inputs=, output=)")
        eng.contracts["dict"] = SContract(lambda e, p, av, kw: SDict(dict(av[0].d)) if av and isinstance(av[0], SDict) else SDict({}), "dict(mapping): a copy")
        orig_method = eng.method

        def method(n, o, attr, av, kw, p):
            if isinstance(o, SDict) and attr == "values" and not av:
                yield STup(list(o.d.values()), "list"), p
                return
            yield from orig_method(n, o, attr, av, kw, p)

        eng.method = method
        env = {"self": SRec("Call"), "function": SObj(self.fn), "args": STup([SObj(x) for x in self.a], "list"), "kwargs": SDict({"axis": SObj(self.kv)}),
               "additional_dependencies": SSeq(self.dep, self.nd, "obj", "list"), "Value": SObj(z3.Const("Value", Obj))}
        pre = [self.nd >= 0]
        if self.inplace:
            env["xs"] = SObj(self.xs)
            pre.append(uf("is_tracer.Tracer", Obj, B)(self.fn))
        return env, pre, {}

    def post(self, eng, out, p):
        if isinstance(out, Raise):
            eng.oblige("post:no exception for a list of arguments, a dict of keyword arguments with str keys" + (" and a traced function" if self.inplace else ""), p, z3.BoolVal(False), "post")
            return
        app = p.ghost.get("app")
        if not app or "inputs" not in app:
            eng.oblige("post:Application.__init__ receives the input list", p, z3.BoolVal(False), "post")
            return
        ins = eng.as_seq(app["inputs"], p)
        head = ([self.xs] if self.inplace else []) + [self.fn] + self.a + [self.kv]
        k = fresh("k")
        eng.oblige("post:inputs = " + ("[updated object, function]" if self.inplace else "[function]") + " + positional arguments + keyword values + additional dependencies, in this order", p,
                   z3.And(ins.n == len(head) + self.nd, *[z3.Select(ins.arr, i) == h for i, h in enumerate(head)], z3.ForAll([k], z3.Implies(z3.And(0 <= k, k < self.nd), z3.Select(ins.arr, len(head) + k) == z3.Select(self.dep, k)))), "post")


def _mk(base, name, **attrs):
    return type(name, (base,), attrs)()


KERNELS = [_mk(CallFn, "CallFn", inplace=False, id="C04.P.call", describe="python.call: one Call node with the caller's function / args / kwargs and a copy of the CURRENT additional dependencies; returns its output"),
           _mk(CallFn, "CallInplaceFn", inplace=True, id="C04.P.call_inplace", describe="python.call_inplace: one CallInplace node with the updated object, function / args / kwargs and a copy of the current additional dependencies"),
           _mk(CallInit, "CallInit", inplace=False, id="C04.P.call_node_inputs", describe="Call.__init__: the node's inputs (what the code generator orders statements by) are [function] + args + keyword values + additional dependencies, any number of dependencies"),
           _mk(CallInit, "CallInplaceInit", inplace=True, id="C04.P.call_inplace_node_inputs", describe="CallInplace.__init__: inputs = [updated object, function] + args + keyword values + additional dependencies")]


class ItemUpdate(Kernel):
    prop = "C14"
    file, module = F, M
    fn, sym = "setitem", "="

    @property
    def qual(self):
        return self.fn

    def setup(self, eng, bound=None):
        self.v = {k: SObj(z3.Const(k, Obj)) for k in ("obj", "key", "value")}

        def c_node(e, p, av, kw):
            p.ghost["node"] = list(p.ghost.get("node", [])) + [(list(av), dict(kw))]
            return SRec("UpdateItem", output=SObj(z3.Const("node_output", Obj)))

        eng.contracts["UpdateItem"] = SContract(c_node, "UpdateItem(obj, key, value, op)")
        return dict(self.v), [], {}

    def post(self, eng, out, p):
        nodes = p.ghost.get("node", []) if not isinstance(out, Raise) else []
        ok = len(nodes) == 1 and len(nodes[0][0]) == 4 and not nodes[0][1] and isinstance(nodes[0][0][3], SConc)
        eng.oblige(f"post:{self.fn} creates exactly one in-place item update `obj[key] {self.sym} value` with the caller's object, key and value", p,
                   z3.And(z3.BoolVal(nodes[0][0][3].v == self.sym), *[a.t == b.t for a, b in zip(nodes[0][0][:3], self.v.values())]) if ok and all(isinstance(a, SObj) for a in nodes[0][0][:3]) else z3.BoolVal(False), "post")


KERNELS += [_mk(ItemUpdate, f"Item_{fn}", fn=fn, sym=sym, id=f"C14.P.item_update[{fn}]", describe=f"python.{fn}: one UpdateItem node with operator '{sym}' (set overwrites, add increases, subtract decreases) on exactly the given object, key and value")
            for fn, sym in (("setitem", "="), ("additem", "+="), ("subtractitem", "-="))]
