"""Sidecar contract for tracer/compiler/python/__init__.py :: compile (C04): when may two variables share one name?

Local region = the loop `for block in code.blocks:` that decides name sharing. Contract of the (nested) fuse(v_in, v_out), checked at its call site for
every block, every statement position and every dependency table:
    every statement that reads v_in belongs to the block being scanned and has already been emitted (it is one of block.statements[0..i], i = the
    statement that defines v_out), v_in and v_out allow name re-use, and both live in the same block.
This is the liveness condition behind 're-used variable names never overwrite a value that is still needed' (a reader in another block - e.g. a nested
function body - or a later reader keeps the old value alive)."""
import ast
import z3
from ..pyvc import *  # noqa
from .base import Kernel


class FuseLiveness(Kernel):
    id = "C04.P.fuse_liveness"
    prop = "C04"
    file = "einx/_src/tracer/compiler/python/__init__.py"
    module = "einx._src.tracer.compiler.python"
    qual = "compile"
    describe = ("name sharing: fuse(v_in, v_out) is called only if every reader of v_in is a statement of the current block at a position <= the statement defining v_out, "
                "both variables allow name re-use, v_out is an output of that statement, v_in one of its inputs, and both variables belong to one block")

    def region(self, fnode):
        loops = [st for st in fnode.body if isinstance(st, ast.For) and ast.unparse(st.target) == "block" and ast.unparse(st.iter) == "code.blocks"]
        hits = [st for st in loops if any(isinstance(n, ast.Call) and isinstance(n.func, ast.Name) and n.func.id == "fuse" for n in ast.walk(st))]
        if len(hits) != 1:
            raise LookupError("anchor `for block in code.blocks:` containing the fuse(...) call not found exactly once in compile()")
        return [hits[0]]

    def setup(self, eng, bound=None):
        eng.seq_attrs = dict(eng.seq_attrs, blocks="obj", statements="obj", output_variables="obj", input_variables="obj")
        allow = self.allow = uf("attr_allow_reusing_name", Obj, B)
        block_of = self.block_of = uf("attr_block", Obj, Obj)
        deps = z3.Const("variableid_to_dependentstatements", Obj)
        self.deps = deps
        self.calls = []

        def c_fuse(e, p, av, kw):
            v_in, v_out = av
            stmt = p.lookup("statement")
            blk = p.lookup("block")
            item = uf("item_int", Obj, I, Obj)  # the engine's reading of  table[id(v)]
            D = item(deps, uf("id_of", Obj, I)(v_in.t))
            dn, da = uf("seq_len", Obj, I)(D), uf("seq_arr_obj", Obj, z3.ArraySort(I, Obj))(D)
            stmts = uf("attr_statements", Obj, Obj)(blk.t)
            sn, sa = uf("seq_len", Obj, I)(stmts), uf("seq_arr_obj", Obj, z3.ArraySort(I, Obj))(stmts)
            t, u = fresh("t"), fresh("u")
            i = p.ghost.get("stmt_index")
            e.oblige("callee-pre:fuse:every reader of v_in is a statement of the current block at a position <= the current statement", p,
                     z3.ForAll([t], z3.Implies(z3.And(0 <= t, t < dn), z3.Exists([u], z3.And(0 <= u, u <= i, u < sn, z3.Select(sa, u) == z3.Select(da, t))))) if i is not None else z3.BoolVal(False), "callee-pre")
            e.oblige("callee-pre:fuse:every reader of v_in lives in v_in's own block", p, z3.ForAll([t], z3.Implies(z3.And(0 <= t, t < dn), block_of(z3.Select(da, t)) == block_of(v_in.t))), "callee-pre")
            e.oblige("callee-pre:fuse:both variables allow re-using their name", p, z3.And(allow(v_in.t), allow(v_out.t)), "callee-pre")
            e.oblige("callee-pre:fuse:both variables belong to one block", p, block_of(v_in.t) == block_of(v_out.t), "callee-pre")
            ov = uf("attr_output_variables", Obj, Obj)(stmt.t)
            iv = uf("attr_input_variables", Obj, Obj)(stmt.t)
            k = fresh("k")
            e.oblige("callee-pre:fuse:v_out is defined by the current statement and v_in is read by it", p,
                     z3.And(z3.Exists([k], z3.And(0 <= k, k < uf("seq_len", Obj, I)(ov), z3.Select(uf("seq_arr_obj", Obj, z3.ArraySort(I, Obj))(ov), k) == v_out.t)),
                            z3.Exists([k], z3.And(0 <= k, k < uf("seq_len", Obj, I)(iv), z3.Select(uf("seq_arr_obj", Obj, z3.ArraySort(I, Obj))(iv), k) == v_in.t))), "callee-pre")
            p.ghost["fused"] = p.ghost.get("fused", 0) + 1
            return SConc(None)

        eng.contracts["fuse"] = SContract(c_fuse, "fuse(v_in, v_out) (name sharing)")

        # loop 0: blocks (nothing is carried across blocks: seen_statement_ids is re-created) ; loop 1: statements of one block
        def inv_blocks(e, p, it):
            return z3.BoolVal(True)

        def inv_statements(e, p, it):
            seen = p.lookup("seen_statement_ids")
            blk = p.lookup("block")
            stmts = uf("attr_statements", Obj, Obj)(blk.t)
            sa = uf("seq_arr_obj", Obj, z3.ArraySort(I, Obj))(stmts)
            idf = uf("id_of", Obj, I)
            x, u = fresh("x"), fresh("u")
            p.ghost["stmt_index"] = it
            if not isinstance(seen, SSet) or seen.member is None:
                return it == 0
            return z3.ForAll([x], z3.Select(seen.member, x) == z3.Exists([u], z3.And(0 <= u, u < it, idf(z3.Select(sa, u)) == x)))

        eng.invariants[0], eng.invariants[1] = inv_blocks, inv_statements
        eng.local_types = {"seen_statement_ids": ("set", "int")}
        eng.bool_attrs = {"allow_reusing_name"}
        eng.opaque_seq_kind = "obj"  # every sequence in this region holds objects (blocks, statements, variables)
        eng.int_keyed_mappings = ("variableid_to_dependentstatements",)  # {id(var): [statements reading var]}: built just above the region with one key per variable
        eng.ghost_before = [("seen_statement_ids.add(", lambda e, p: None)]
        env = {"code": SObj(z3.Const("code", Obj)), "variableid_to_dependentstatements": SObj(deps), "fuse": eng.contracts["fuse"]}
        return env, [], {}

    def post(self, eng, out, p):
        if isinstance(out, Raise):
            eng.oblige(f"post:no {out.cls}", p, z3.BoolVal(False), "post")

    def twin(self, tier):
        """native: hand-built graphs in which a value is read again later / inside a nested function after a candidate for name re-use; the compiled function must agree with the IR interpreter"""
        from ..spec import irgraph
        if not hasattr(irgraph, "check_liveness"):
            return 0, []
        n, fails = 0, []
        for variant in range(8):
            n += 1
            bad = irgraph.check_liveness(variant)
            if bad:
                fails.append({"detail": bad, "replay": {"fn": "vf.spec.irgraph:check_liveness", "args": [variant]}})
        return n, fails[:3]


KERNELS = [FuseLiveness()]
