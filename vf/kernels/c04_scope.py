"""Sidecar contracts for tracer/compiler/python/scope.py (C04: 'nested function definitions see exactly the variables they use').

Scopes form a forest through `parent`; `a.is_predecessor_of(b)` (a is b or an ancestor of b) is used under its contract: a reflexive, transitive relation.
Map._find_common_scope decides in which scope a value is defined: the innermost of the scopes that need it."""
import ast
import z3
from ..pyvc import *  # noqa
from .base import Kernel

pred = uf("is_predecessor_of", Obj, Obj, B)
idof = uf("id_of", Obj, I)


class CommonScope(Kernel):
    id = "C04.P.common_scope"
    prop = "C04"
    file = "einx/_src/tracer/compiler/python/scope.py"
    module = "einx._src.tracer.compiler.python.scope"
    qual = "Map/_find_common_scope"
    allowed_raises = ("ValueError",)
    describe = ("region 'scope = scopes[0] ... return scope' of Map._find_common_scope, any number of scopes: the result is one of the given scopes and every given scope is a predecessor of it "
                "(it is the innermost: everything the value needs is visible from where it is defined); ValueError only if two of the given scopes are not in a predecessor relationship. "
                "is_predecessor_of is used under its contract: ancestor-or-self (C04.P.is_predecessor), hence reflexive and transitive (Lean lemma L6); id() is injective on live objects")

    def region(self, fnode):
        body = fnode.body
        idx = [i for i, st in enumerate(body) if isinstance(st, ast.Assign) and ast.unparse(st) == "scope = scopes[0]"]
        if len(idx) != 1:
            raise LookupError("anchor `scope = scopes[0]` not found exactly once in Map._find_common_scope")
        return body[idx[0]:]

    def setup(self, eng, bound=None):
        self.n = z3.Int("n_scopes")
        self.sc = z3.Array("scopes", I, Obj)
        from .. import lemmas
        a, b = z3.Const("a", Obj), z3.Const("b", Obj)
        eng.axioms += lemmas.ancestor_or_self_preorder(eng, pred) + [z3.ForAll([a, b], (idof(a) == idof(b)) == (a == b))]
        eng.assumed.add("id() is injective on live objects")
        eng.contracts["id"] = SContract(lambda e, p, av, kw: SInt(idof(av[0].t)), "id()")
        for recv in ("scope", "scope2"):
            eng.contracts[f"{recv}.is_predecessor_of"] = SContract(lambda e, p, av, kw, recv=recv: SBool(pred(p.lookup(recv).t, av[0].t)), "Scope.is_predecessor_of (reflexive, transitive)")

        def inv(s, p, i):
            # before iteration i of the loop over scopes[1:], elements 0..i have been merged
            cur = p.lookup("scope")
            j, k = fresh("j"), fresh("k")
            if not isinstance(cur, SObj):
                return z3.BoolVal(False)
            return z3.And(z3.Exists([k], z3.And(0 <= k, k <= i, z3.Select(self.sc, k) == cur.t)), z3.ForAll([j], z3.Implies(z3.And(0 <= j, j <= i), pred(z3.Select(self.sc, j), cur.t))))

        eng.invariants[0] = inv
        return {"self": SRec("Map"), "scopes": SSeq(self.sc, self.n, "obj", "list")}, [self.n >= 1], {}

    def post(self, eng, out, p):
        j, k = fresh("j"), fresh("k")
        if isinstance(out, Raise):
            eng.oblige("post:ValueError only if two of the given scopes are incomparable", p,
                       z3.Exists([j, k], z3.And(0 <= j, j < self.n, 0 <= k, k < self.n, z3.Not(pred(z3.Select(self.sc, j), z3.Select(self.sc, k))), z3.Not(pred(z3.Select(self.sc, k), z3.Select(self.sc, j))))), "post")
            return
        r = out.v if out is not None else None
        if not isinstance(r, SObj):
            eng.oblige("post:returns a scope", p, z3.BoolVal(False), "post")
            return
        eng.oblige("post:the result is one of the given scopes", p, z3.Exists([k], z3.And(0 <= k, k < self.n, z3.Select(self.sc, k) == r.t)), "post")
        eng.oblige("post:every given scope is a predecessor of the result (innermost)", p, z3.ForAll([j], z3.Implies(z3.And(0 <= j, j < self.n), pred(z3.Select(self.sc, j), r.t))), "post")

    def twin(self, tier):
        import itertools
        from einx._src.tracer.compiler.python.scope import Scope, Map
        n, fails = 0, []
        g = Scope()
        a, b, c = Scope(), Scope(), Scope()
        a.parent, b.parent, c.parent = g, a, g   # g > a > b ; g > c
        m = Map(g, [g, a, b, c])
        depth = {id(g): 0, id(a): 1, id(b): 2, id(c): 1}
        for r in (1, 2, 3):
            for combo in itertools.product([g, a, b, c], repeat=r):
                n += 1
                chain = not (any(x is c for x in combo) and any(x in (a, b) for x in combo))
                try:
                    got = m._find_common_scope(list(combo))
                except ValueError:
                    got = None
                want = max(combo, key=lambda s: depth[id(s)]) if chain else None
                if got is not want:
                    fails.append({"detail": f"scopes at depths {[depth[id(s)] for s in combo]}: wrong common scope"})
        return n, fails[:3]


class IsPredecessor(Kernel):
    id = "C04.P.is_predecessor"
    prop = "C04"
    file = "einx/_src/tracer/compiler/python/scope.py"
    module = "einx._src.tracer.compiler.python.scope"
    qual = "Scope/is_predecessor_of"
    allowed_raises = ("ValueError",)
    describe = ("Scope.is_predecessor_of(other) = ancestor-or-self: True iff self is other, or other has a parent and self is a predecessor of that parent (the recursive call is used under this "
                "same contract: partial correctness); ValueError exactly for other=None")

    def setup(self, eng, bound=None):
        self.me, self.other = z3.Const("self", Obj), z3.Const("other", Obj)
        self.anc = uf("ancestor_or_self", Obj, Obj, B)
        self.parent = uf("attr_parent", Obj, Obj)
        self.none = z3.Const("py_None", Obj)
        a, b = z3.Const("a", Obj), z3.Const("b", Obj)
        eng.axioms += [z3.ForAll([a, b], (idof(a) == idof(b)) == (a == b))]
        eng.contracts["id"] = SContract(lambda e, p, av, kw: SInt(idof(av[0].t)), "id()")
        eng.contracts["self.is_predecessor_of"] = SContract(lambda e, p, av, kw: SBool(self.anc(self.me, av[0].t)), "recursive call (induction hypothesis)")
        return {"self": SObj(self.me), "other": SObj(self.other)}, [], {}

    def post(self, eng, out, p):
        isnone = uf("is_None", Obj, B)
        if isinstance(out, Raise):
            eng.oblige("post:ValueError only for other=None", p, isnone(self.other), "post")
            return
        eng.oblige("post:normal exit only for a scope", p, z3.Not(isnone(self.other)), "post")
        r = eng.truth(out.v)
        par = self.parent(self.other)
        eng.oblige("post:result = (self is other) or (other has a parent and self is a predecessor of it)", p, r == z3.Or(self.me == self.other, z3.And(z3.Not(isnone(par)), self.anc(self.me, par))), "post")

    def twin(self, tier):
        from einx._src.tracer.compiler.python.scope import Scope
        g, a, b, c = Scope(), Scope(), Scope(), Scope()
        a.parent, b.parent, c.parent = g, a, g
        anc = {(g, g), (g, a), (g, b), (g, c), (a, a), (a, b), (b, b), (c, c)}
        n, fails = 0, []
        for x in (g, a, b, c):
            for y in (g, a, b, c):
                n += 1
                if x.is_predecessor_of(y) != ((x, y) in anc):
                    fails.append({"detail": "is_predecessor_of differs from ancestor-or-self on the chain g > a > b, g > c"})
        return n, fails[:3]


KERNELS = [CommonScope(), IsPredecessor()]
