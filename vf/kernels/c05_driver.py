"""Sidecar contract for tracer/optimizer/optimizer.py :: optimize (C05): the pass driver.

The per-pass contract (Optimizer._optimize keeps the denotation and the run-time effects of what it is given; its `changed` flag is False only if no pattern
matched anywhere) is ASSUMED here: it is the composition of the per-rule lemmas C05.P.* with a graph induction that is rule-checked, not mechanised.
Proved from the real source, for any number of passes: whatever optimize() returns denotes what it was given, is the output of a pass that reported
no change (a fixed point of the pass), every pass starts from the previous pass's output with a FRESH memo, and with no optimizations the argument is
returned untouched. Termination (that the loop exits) is not proved."""
import z3
from ..pyvc import *  # noqa
from .base import Kernel

den = uf("den_graph", Obj, Obj)
eff = uf("eff_graph", Obj, Obj)
pass_out = uf("pass_output", Obj, Obj)          # output of one pass over a graph
pass_changed = uf("pass_changed", Obj, B)       # did any pattern match during that pass


class Driver(Kernel):
    id = "C05.P.driver"
    prop = "C05"
    file = "einx/_src/tracer/optimizer/optimizer.py"
    module = "einx._src.tracer.optimizer.optimizer"
    qual = "optimize"
    describe = ("optimize(x, optimizations): partial correctness of the pass loop - the result denotes what x denotes with the same run-time effects, it is the output of a pass that reported "
                "no change (fixed point), each pass gets the previous pass's output and a fresh Optimizer (no memo carried over), and an empty optimization list returns x itself")

    def setup(self, eng, bound=None):
        self.x0 = z3.Const("x0", Obj)
        self.n = z3.Int("n_optimizations")
        g = z3.Const("g", Obj)
        eng.axioms += [z3.ForAll([g], z3.And(den(pass_out(g)) == den(g), eff(pass_out(g)) == eff(g)))]  # assumed per-pass contract
        eng.assumed.add("per-pass contract: Optimizer._optimize(g) denotes g with g's run-time effects (composition of the per-rule lemmas C05.P.* by a graph induction that is rule-checked, not mechanised)")
        opts = SSeq(z3.Array("optimizations", I, Obj), self.n, "obj", "list")
        self.opts = opts

        def c_new(e, p, av, kw):
            ok = len(av) == 1 and av[0] is opts
            e.oblige("callee-pre:Optimizer(...) is built with the caller's optimization list", p, z3.BoolVal(ok), "callee-pre")
            p.ghost["fresh"] = p.ghost.get("fresh", 0) + 1
            return SRec("Optimizer", changed=SBool(False), serial=SConc(p.ghost["fresh"]), used=SConc(False))

        def c_pass(e, p, av, kw):
            me = p.lookup("optimizer")
            e.oblige("callee-pre:a pass runs on an Optimizer that has not run a pass before (empty memo, changed=False)", p, z3.BoolVal(isinstance(me, SRec) and me.f["used"].v is False), "callee-pre")
            a = av[0]
            if not isinstance(a, SObj):
                raise OutOfSubset("pass on a non-opaque value")
            f = dict(me.f)
            f["changed"] = SBool(pass_changed(a.t))
            f["used"] = SConc(True)
            p.bind("optimizer", SRec("Optimizer", **f))
            p.ghost["last_in"] = a.t
            return SObj(pass_out(a.t))

        eng.contracts.update({"Optimizer": SContract(c_new, "Optimizer.__init__ (empty memo, changed=False)"), "optimizer._optimize": SContract(c_pass, "Optimizer._optimize: one pass (assumed contract)")})

        def inv(s, p):
            x = p.lookup("x")
            return z3.And(den(x.t) == den(self.x0), eff(x.t) == eff(self.x0)) if isinstance(x, SObj) else z3.BoolVal(False)

        eng.invariants[0] = inv
        return {"x": SObj(self.x0), "optimizations": opts}, [self.n >= 0], {}

    def post(self, eng, out, p):
        if isinstance(out, Raise):
            eng.oblige("post:no exception", p, z3.BoolVal(False), "post")
            return
        r = out.v
        if not isinstance(r, SObj):
            eng.oblige("post:returns a graph", p, z3.BoolVal(False), "post")
            return
        eng.oblige("post:the result denotes what the argument denotes", p, den(r.t) == den(self.x0), "post")
        eng.oblige("post:the result has the run-time effects of the argument", p, eff(r.t) == eff(self.x0), "post")
        last = p.ghost.get("last_in")
        if last is None:
            eng.oblige("post:without any pass only an empty optimization list returns, and it returns the argument itself", p, z3.And(self.n == 0, r.t == self.x0), "post")
        else:
            eng.oblige("post:passes run only for a non-empty optimization list", p, self.n > 0, "post")
            eng.oblige("post:the result is the output of the last pass and that pass reported no change (fixed point)", p, z3.And(r.t == pass_out(last), z3.Not(pass_changed(last))), "post")

    def twin(self, tier):
        import einx._src.tracer.optimizer.optimizer as O
        n, fails = 0, []

        class Pat:
            def __init__(self, k):
                self.k, self.calls = k, 0

            def __call__(self, x, opt):
                self.calls += 1
                if isinstance(x, int) and x < self.k:
                    return True, x + 1
                return False, None

        for k in (0, 1, 3):
            n += 1
            pat = Pat(k)
            r = O.optimize(0, [pat])
            if r != k:
                fails.append({"detail": f"counting pattern up to {k}: optimize returned {r}"})
        n += 1
        sentinel = object()
        if O.optimize(sentinel, []) is not sentinel:
            fails.append({"detail": "empty optimization list does not return the argument itself"})
        return n, fails[:3]


KERNELS = [Driver()]
