"""Sidecar contract for tracer/optimizer/optimizer.py :: optimize (C05): the pass driver.

The per-pass contract (Optimizer._optimize keeps the denotation and the run-time effects of what it is given; its `changed` flag is False only if no pattern
matched anywhere) is ASSUMED here: it is the composition of the per-rule lemmas C05.P.* with a graph induction that is rule-checked, not mechanised.
Proved from the real source, for any number of passes: whatever optimize() returns denotes what it was given, is the output of a pass that reported
no change (a fixed point of the pass), every pass starts from the previous pass's output with a FRESH memo, and with no optimizations the argument is
returned untouched. Termination (that the loop exits) is not proved."""
import z3
from ..pyvc import *  # noqa
from .base import Kernel

den = uf("den_graph", Obj, Obj)
eff = uf("eff_graph", Obj, Obj)
pass_out = uf("pass_output", Obj, Obj)          # output of one pass over a graph
pass_changed = uf("pass_changed", Obj, B)       # did any pattern match during that pass


class Driver(Kernel):
    id = "C05.P.driver"
    prop = "C05"
    file = "einx/_src/tracer/optimizer/optimizer.py"
    module = "einx._src.tracer.optimizer.optimizer"
    qual = "optimize"
    describe = ("optimize(x, optimizations): partial correctness of the pass loop - the result denotes what x denotes with the same run-time effects, it is the output of a pass that reported "
                "no change (fixed point), each pass gets the previous pass's output and a fresh Optimizer (no memo carried over), and an empty optimization list returns x itself")

    def setup(self, eng, bound=None):
        self.x0 = z3.Const("x0", Obj)
        self.n = z3.Int("n_optimizations")
        g = z3.Const("g", Obj)
        eng.axioms += [z3.ForAll([g], z3.And(den(pass_out(g)) == den(g), eff(pass_out(g)) == eff(g)))]  # assumed per-pass contract
        eng.assumed.add("per-pass contract: Optimizer._optimize(g) denotes g with g's run-time effects (composition of the per-rule lemmas C05.P.* by a graph induction that is rule-checked, not mechanised)")
        opts = SSeq(z3.Array("optimizations", I, Obj), self.n, "obj", "list")
        self.opts = opts

        def c_new(e, p, av, kw):
            ok = len(av) == 1 and av[0] is opts
            e.oblige("callee-pre:Optimizer(...) is built with the caller's optimization list", p, z3.BoolVal(ok), "callee-pre")
            p.ghost["fresh"] = p.ghost.get("fresh", 0) + 1
            return SRec("Optimizer", changed=SBool(False), serial=SConc(p.ghost["fresh"]), used=SConc(False))

        def c_pass(e, p, av, kw):
            me = p.lookup("optimizer")
            e.oblige("callee-pre:a pass runs on an Optimizer that has not run a pass before (empty memo, changed=False)", p, z3.BoolVal(isinstance(me, SRec) and me.f["used"].v is False), "callee-pre")
            a = av[0]
            if not isinstance(a, SObj):
                raise OutOfSubset("pass on a non-opaque value")
            f = dict(me.f)
            f["changed"] = SBool(pass_changed(a.t))
            f["used"] = SConc(True)
            p.bind("optimizer", SRec("Optimizer", **f))
            p.ghost["last_in"] = a.t
            return SObj(pass_out(a.t))

        eng.contracts.update({"Optimizer": SContract(c_new, "Optimizer.__init__ (empty memo, changed=False)"), "optimizer._optimize": SContract(c_pass, "Optimizer._optimize: one pass (assumed contract)")})

        def inv(s, p):
            x = p.lookup("x")
            return z3.And(den(x.t) == den(self.x0), eff(x.t) == eff(self.x0)) if isinstance(x, SObj) else z3.BoolVal(False)

        eng.invariants[0] = inv
        return {"x": SObj(self.x0), "optimizations": opts}, [self.n >= 0], {}

    def post(self, eng, out, p):
        if isinstance(out, Raise):
            eng.oblige("post:no exception", p, z3.BoolVal(False), "post")
            return
        r = out.v
        if not isinstance(r, SObj):
            eng.oblige("post:returns a graph", p, z3.BoolVal(False), "post")
            return
        eng.oblige("post:the result denotes what the argument denotes", p, den(r.t) == den(self.x0), "post")
        eng.oblige("post:the result has the run-time effects of the argument", p, eff(r.t) == eff(self.x0), "post")
        last = p.ghost.get("last_in")
        if last is None:
            eng.oblige("post:without any pass only an empty optimization list returns, and it returns the argument itself", p, z3.And(self.n == 0, r.t == self.x0), "post")
        else:
            eng.oblige("post:passes run only for a non-empty optimization list", p, self.n > 0, "post")
            eng.oblige("post:the result is the output of the last pass and that pass reported no change (fixed point)", p, z3.And(r.t == pass_out(last), z3.Not(pass_changed(last))), "post")

    def twin(self, tier):
        import einx._src.tracer.optimizer.optimizer as O
        n, fails = 0, []

        class Pat:
            def __init__(self, k):
                self.k, self.calls = k, 0

            def __call__(self, x, opt):
                self.calls += 1
                if isinstance(x, int) and x < self.k:
                    return True, x + 1
                return False, None

        for k in (0, 1, 3):
            n += 1
            pat = Pat(k)
            r = O.optimize(0, [pat])
            if r != k:
                fails.append({"detail": f"counting pattern up to {k}: optimize returned {r}"})
        n += 1
        sentinel = object()
        if O.optimize(sentinel, []) is not sentinel:
            fails.append({"detail": "empty optimization list does not return the argument itself"})
        return n, fails[:3]


KERNELS = [Driver()]


matched = uf("pattern_matches", Obj, Obj, B)     # pattern p rewrites node x
rewritten = uf("pattern_result", Obj, Obj, Obj)  # ... into this node
idof = uf("id_of", Obj, I)


class PassStep(Kernel):
    id = "C05.P.pass_step"
    prop = "C05"
    file = "einx/_src/tracer/optimizer/optimizer.py"
    module = "einx._src.tracer.optimizer.optimizer"
    qual = "Optimizer/_optimize"
    describe = ("region 'memo lookup ... pattern loop' of Optimizer._optimize, any number of patterns: a node already in the memo returns its memo entry and changes nothing; otherwise the FIRST "
                "pattern (list order) that matches decides - its result is returned, recorded in the memo for this node, denotes what the node denotes (per-rule lemmas) and the changed flag is set; "
                "if no pattern matches, neither the memo nor the flag is touched and control reaches the structural recursion")

    def region(self, fnode):
        import ast
        body = fnode.body
        if not (isinstance(body[0], ast.If) and isinstance(body[1], ast.For) and "self.optimizations" in ast.unparse(body[1].iter)):
            raise LookupError("anchor: `if id(x) in self.id_to_newobj` followed by `for pattern in self.optimizations` not found at the head of _optimize")
        return body[:2]

    def setup(self, eng, bound=None):
        import ast
        self.x0 = z3.Const("x0", Obj)
        self.n = z3.Int("n_patterns")
        self.pats = z3.Array("patterns", I, Obj)
        self.has0, self.val0 = z3.Array("memo_has", I, B), z3.Array("memo_val", I, Obj)
        self.c0 = z3.Bool("changed_before")
        dg = uf("den_graph", Obj, Obj)
        pt, g = z3.Const("pt", Obj), z3.Const("g", Obj)
        eng.axioms += [z3.ForAll([pt, g], z3.Implies(matched(pt, g), dg(rewritten(pt, g)) == dg(g)))]
        eng.assumed.add("per-rule contract: a pattern that reports a match returns a node with the denotation of the node it was given (the lemmas C05.P.skip_* / inline / cast, one per rule)")
        me = SRec("Optimizer", id_to_newobj=SMap(self.has0, self.val0, "int", "obj"), changed=SBool(self.c0), optimizations=SSeq(self.pats, self.n, "obj", "list"),
                  _optimize=SObj(z3.Const("bound_optimize", Obj)), _set=SObj(z3.Const("bound_set", Obj)))
        self.me = me

        def c_pattern(e, p, av, kw):
            pat = p.lookup("pattern")
            ok = len(av) == 2 and isinstance(av[0], SObj) and isinstance(av[1], SObj)
            e.oblige("callee-pre:a pattern is applied to the node and the optimizer's own recursion", p, z3.And(av[0].t == self.x0, av[1].t == z3.Const("bound_optimize", Obj)) if ok else z3.BoolVal(False), "callee-pre")
            return STup([SBool(matched(pat.t, av[0].t)), SObj(rewritten(pat.t, av[0].t))])

        def c_map(e, p, av, kw):
            ok = len(av) == 3 and all(isinstance(a, SObj) for a in av)
            e.oblige("callee-pre:pytree.map(self._set, old, new)", p, av[0].t == z3.Const("bound_set", Obj) if ok else z3.BoolVal(False), "callee-pre")
            st = p.lookup("self")
            m = st.f["id_to_newobj"]
            f = dict(st.f)
            f["id_to_newobj"] = SMap(z3.Store(m.has, idof(av[1].t), z3.BoolVal(True)), z3.Store(m.val, idof(av[1].t), av[2].t), "int", "obj")
            nr = SRec("Optimizer", **f)
            p.bind("self", nr)
            return SConc(None)

        def c_id(e, p, av, kw):
            return SInt(idof(av[0].t))

        eng.contracts.update({"pattern": SContract(c_pattern, "pattern(x, optimize) -> (matched, new node)"), "pytree.map": SContract(c_map, "pytree.map(self._set, old, new) on leaves: memo[id(old)] = new"),
                              "id": SContract(c_id, "id()")})
        orig_apply = eng.apply

        def apply(f, av, kw, p, n):  # calling the loop variable `pattern` (an opaque callable): its contract
            if isinstance(f, SObj) and isinstance(n.func, ast.Name) and n.func.id == "pattern":
                yield c_pattern(eng, p, av, kw), p
                return
            yield from orig_apply(f, av, kw, p, n)

        eng.apply = apply
        orig_compare = eng.compare

        def compare(op, a, b, p):
            if isinstance(b, SMap) and isinstance(op, (ast.In, ast.NotIn)) and isinstance(a, SInt):
                e_ = z3.Select(b.has, a.t)
                return e_ if isinstance(op, ast.In) else z3.Not(e_)
            return orig_compare(op, a, b, p)

        eng.compare = compare
        orig_sub = eng.ev_Subscript

        def ev_Subscript(n, p):  # memo[key] on the symbolic dict: KeyError unless present
            if isinstance(n.ctx, ast.Load) and ast.unparse(n.value) == "self.id_to_newobj":
                for k, p1 in eng.ev(n.slice, p):
                    m = p1.lookup("self").f["id_to_newobj"]
                    q = eng.may_raise("KeyError", z3.Select(m.has, k.t), p1, f"memo:line{n.lineno}", n.lineno)
                    if q is not None:
                        yield SObj(z3.Select(m.val, k.t)), q
                return
            yield from orig_sub(n, p)

        eng.ev_Subscript = ev_Subscript

        def same_state(st):
            m = st.f["id_to_newobj"]
            k = fresh("k")
            return z3.And(st.f["_optimize"].t == z3.Const("bound_optimize", Obj), st.f["_set"].t == z3.Const("bound_set", Obj), eng.truth(st.f["changed"]) == self.c0, z3.ForAll([k], z3.And(z3.Select(m.has, k) == z3.Select(self.has0, k), z3.Select(m.val, k) == z3.Select(self.val0, k))))

        self.same_state = same_state

        def inv(s, p, i):
            j = fresh("j")
            return z3.And(same_state(p.lookup("self")), z3.ForAll([j], z3.Implies(z3.And(0 <= j, j < i), z3.Not(matched(z3.Select(self.pats, j), self.x0)))))

        eng.invariants[0] = inv
        return {"self": me, "x": SObj(self.x0)}, [self.n >= 0], {}

    def post(self, eng, out, p):
        key = idof(self.x0)
        hit = z3.Select(self.has0, key)
        st = p.lookup("self")
        j = fresh("j")
        if isinstance(out, Raise):
            eng.oblige("post:no exception", p, z3.BoolVal(False), "post")
            return
        if out is None:
            eng.oblige("post:the structural recursion is reached only for a node outside the memo that no pattern matches", p,
                       z3.And(z3.Not(hit), z3.ForAll([j], z3.Implies(z3.And(0 <= j, j < self.n), z3.Not(matched(z3.Select(self.pats, j), self.x0))))), "post")
            eng.oblige("post:... with memo and changed flag untouched", p, self.same_state(st), "post")
            return
        r = out.v
        if not isinstance(r, SObj):
            eng.oblige("post:returns a node", p, z3.BoolVal(False), "post")
            return
        if not p.has("pattern"):
            eng.oblige("post:return before the pattern loop only for a node in the memo, with its memo entry", p, z3.And(hit, r.t == z3.Select(self.val0, key)), "post")
            eng.oblige("post:a memo hit changes nothing", p, self.same_state(st), "post")
            return
        pat = p.lookup("pattern").t
        i = fresh("i")
        dg = uf("den_graph", Obj, Obj)
        eng.oblige("post:a pattern decides only for a node outside the memo", p, z3.Not(hit), "post")
        eng.oblige("post:the deciding pattern is the first one in list order that matches", p,
                   z3.Exists([i], z3.And(0 <= i, i < self.n, z3.Select(self.pats, i) == pat, matched(pat, self.x0), z3.ForAll([j], z3.Implies(z3.And(0 <= j, j < i), z3.Not(matched(z3.Select(self.pats, j), self.x0)))))), "post")
        eng.oblige("post:its result is returned and denotes what the node denotes", p, z3.And(r.t == rewritten(pat, self.x0), dg(r.t) == dg(self.x0)), "post")
        m = st.f["id_to_newobj"]
        k = fresh("k")
        eng.oblige("post:the changed flag is set", p, eng.truth(st.f["changed"]), "post")
        eng.oblige("post:the memo gains exactly the entry node -> result", p, z3.And(z3.Select(m.has, key), z3.Select(m.val, key) == r.t,
                   z3.ForAll([k], z3.Implies(k != key, z3.And(z3.Select(m.has, k) == z3.Select(self.has0, k), z3.Select(m.val, k) == z3.Select(self.val0, k))))), "post")

    def twin(self, tier):
        import itertools
        import einx._src.tracer.optimizer.optimizer as O
        n, fails = 0, []
        for flags in itertools.product((False, True), repeat=3):
            n += 1
            calls = []

            def mk(i):
                def pat(x, rec):
                    calls.append(i)
                    return (True, f"new{i}") if flags[i] else (False, None)
                return pat

            o = O.Optimizer([mk(0), mk(1), mk(2)])
            r = o._optimize("node")
            first = flags.index(True) if any(flags) else None
            if first is None:
                if r != "node" or o.changed or calls != [0, 1, 2]:
                    fails.append({"detail": f"no pattern matches: result {r!r}, changed={o.changed}, calls={calls}"})
            elif r != f"new{first}" or not o.changed or calls != list(range(first + 1)):
                fails.append({"detail": f"match flags {flags}: result {r!r}, changed={o.changed}, calls={calls}"})
        return n, fails[:3]


KERNELS.append(PassStep())


class GraphBranch(Kernel):
    id = "C05.P.optimize_graph_node"
    prop = "C05"
    file = "einx/_src/tracer/optimizer/optimizer.py"
    module = "einx._src.tracer.optimizer.optimizer"
    qual = "Optimizer/_optimize"
    describe = ("Optimizer._optimize on a Graph node that is not in the memo and that no pattern rewrites (any number of inputs): every input gets a FRESH input tracer of its own type, in order, "
                "and the memo maps exactly the old inputs to their new ones (everything else in the memo is kept) BEFORE the output is optimised; the result is a Graph with those inputs, "
                "the optimised output and the same name; the changed flag is not touched by this node itself")

    def setup(self, eng, bound=None):
        import ast
        self.x = z3.Const("graph", Obj)
        self.n = z3.Int("n_inputs")
        self.ins = z3.Array("graph_inputs", I, Obj)
        self.has0, self.val0 = z3.Array("memo_has", I, B), z3.Array("memo_val", I, Obj)
        self.c0 = z3.Bool("changed_before")
        self.new = uf("fresh_input_like", Obj, Obj)          # old_input._tracer_type(None)
        self.opt = uf("optimize_rec", Obj, Obj)               # recursive call (under its own contract)
        a, b = z3.Const("a", Obj), z3.Const("b", Obj)
        k = z3.Int("k")
        me = SRec("Optimizer", id_to_newobj=SMap(self.has0, self.val0, "int", "obj"), changed=SBool(self.c0), optimizations=SSeq(z3.Array("patterns", I, Obj), z3.IntVal(0), "obj", "list"),
                  _set=SObj(z3.Const("bound_set", Obj)))
        xrec = SRec("Graph", inputs=SSeq(self.ins, self.n, "obj", "list"), output=SObj(z3.Const("graph_output", Obj)), name=SObj(z3.Const("graph_name", Obj)), ident=SObj(self.x))
        xrec.isa = ("Graph", "tracer.Graph")

        def c_id(e, p, av, kw):
            v = av[0]
            return SInt(idof(v.f["ident"].t if isinstance(v, SRec) else v.t))

        def c_map(e, p, av, kw):
            st = p.lookup("self")
            m = st.f["id_to_newobj"]
            f = dict(st.f)
            f["id_to_newobj"] = SMap(z3.Store(m.has, idof(av[1].t), z3.BoolVal(True)), z3.Store(m.val, idof(av[1].t), av[2].t), "int", "obj")
            p.bind("self", SRec("Optimizer", **f))
            return SConc(None)

        def c_rec(e, p, av, kw):
            p.ghost["memo_at_recursion"] = p.lookup("self").f["id_to_newobj"]
            p.ghost["rec_arg"] = av[0]
            return SObj(self.opt(av[0].t))

        def c_graph(e, p, av, kw):
            return SRec("NewGraph", inputs=av[0], output=av[1], name=av[2])

        eng.contracts.update({"id": SContract(c_id, "id()"), "pytree.map": SContract(c_map, "pytree.map(self._set, old, new) on leaves: memo[id(old)] = new"), "self._optimize": SContract(c_rec, "recursive call"),
                              "tracer.Graph": SContract(c_graph, "Graph(inputs, output, name)")})
        orig_compare = eng.compare

        def compare(op, a_, b_, p):
            if isinstance(b_, SMap) and isinstance(op, (ast.In, ast.NotIn)) and isinstance(a_, SInt):
                e_ = z3.Select(b_.has, a_.t)
                return e_ if isinstance(op, ast.In) else z3.Not(e_)
            return orig_compare(op, a_, b_, p)

        eng.compare = compare
        orig_method = eng.method_opaque if hasattr(eng, "method_opaque") else None
        orig_apply = eng.apply
        orig_call = eng.ev_Call

        def ev_Call(n, p):  # old_input._tracer_type(None): a fresh input tracer of the same type
            if isinstance(n.func, ast.Attribute) and n.func.attr == "_tracer_type" and isinstance(n.func.value, ast.Name) and n.func.value.id == "old_input":
                yield SObj(self.new(p.lookup("old_input").t)), p
                return
            yield from orig_call(n, p)

        eng.ev_Call = ev_Call
        for nm in ("str", "int", "float", "np.integer", "np.floating", "np.ndarray"):
            pass
        eng.axioms += [z3.ForAll([a, b], (idof(a) == idof(b)) == (a == b))]
        self.distinct = z3.ForAll([k, z3.Int("k2")], z3.Implies(z3.And(0 <= k, k < z3.Int("k2"), z3.Int("k2") < self.n), z3.Select(self.ins, k) != z3.Select(self.ins, z3.Int("k2"))))

        def memo_is(m, i):
            """memo = memo0 overwritten with inputs[k] -> new(inputs[k]) for k < i"""
            q, kk = fresh("q"), fresh("kk")
            hit = lambda qq: z3.Exists([kk], z3.And(0 <= kk, kk < i, idof(z3.Select(self.ins, kk)) == qq))  # noqa
            return z3.And(z3.ForAll([kk], z3.Implies(z3.And(0 <= kk, kk < i), z3.And(z3.Select(m.has, idof(z3.Select(self.ins, kk))), z3.Select(m.val, idof(z3.Select(self.ins, kk))) == self.new(z3.Select(self.ins, kk))))),
                          z3.ForAll([q], z3.Implies(z3.Not(hit(q)), z3.And(z3.Select(m.has, q) == z3.Select(self.has0, q), z3.Select(m.val, q) == z3.Select(self.val0, q)))))

        self.memo_is = memo_is

        def inv(s, p, i):
            st = p.lookup("self")
            ni = s.as_seq(p.lookup("new_inputs"), p, "obj")
            kk = fresh("kk")
            return z3.And(ni.n == i, z3.ForAll([kk], z3.Implies(z3.And(0 <= kk, kk < i), z3.Select(ni.arr, kk) == self.new(z3.Select(self.ins, kk)))), memo_is(st.f["id_to_newobj"], i),
                          s.truth(st.f["changed"]) == self.c0, st.f["_set"].t == z3.Const("bound_set", Obj))

        eng.invariants[1] = inv
        # the contract of pytree.map(self._set, ...) writes the memo held by `self`: the loop modifies `self` although no statement assigns to it
        orig_assigned = eng.assigned_names

        def assigned_names(stmts, p=None):
            out = set(orig_assigned(stmts, p))
            if any(isinstance(n, ast.Call) and ast.unparse(n.func) == "pytree.map" for st in stmts for n in ast.walk(st)):
                out.add("self")
            return out

        eng.assigned_names = assigned_names
        eng.local_types = dict(getattr(eng, "local_types", {}), new_inputs=("list", "obj"))
        isx = lambda c: uf("is_" + c, Obj, B)(self.x)  # noqa
        pre = [self.n >= 0, self.distinct, z3.Not(z3.Select(self.has0, idof(self.x)))]
        return {"self": me, "x": xrec}, pre, {}

    def post(self, eng, out, p):
        if isinstance(out, Raise):
            eng.oblige("post:no exception", p, z3.BoolVal(False), "post")
            return
        r = out.v
        if not (isinstance(r, SRec) and r.cls == "NewGraph"):
            eng.oblige("post:returns a new Graph", p, z3.BoolVal(False), "post")
            return
        ni = eng.as_seq(r.f["inputs"], p, "obj")
        kk = fresh("kk")
        eng.oblige("post:the new graph has one fresh input per old input, of that input's type, in order", p, z3.And(ni.n == self.n, z3.ForAll([kk], z3.Implies(z3.And(0 <= kk, kk < self.n), z3.Select(ni.arr, kk) == self.new(z3.Select(self.ins, kk))))), "post")
        eng.oblige("post:its output is the optimised old output and its name the old name", p, z3.And(r.f["output"].t == self.opt(z3.Const("graph_output", Obj)), r.f["name"].t == z3.Const("graph_name", Obj)), "post")
        m = p.ghost.get("memo_at_recursion")
        eng.oblige("post:when the output is optimised, the memo maps every old input to its fresh input and is otherwise unchanged", p, self.memo_is(m, self.n) if m is not None else z3.BoolVal(False), "post")
        eng.oblige("post:this node does not touch the changed flag", p, eng.truth(p.lookup("self").f["changed"]) == self.c0, "post")


KERNELS.append(GraphBranch())
