"""Sidecar contracts for einx/_src/tracer/optimizer/{classical,graph}.py — one denotation-preservation lemma per rewrite rule (C05).

Ghost model (DESIGN §3 C05): den(o) is the value a tracer denotes under an arbitrary fixed input environment in the OLD graph,
den2(o) in the NEW graph. A value is abstracted to (flat contents `flat`, `rank`, `shp` sizes, `lab` axis provenance):
  numpy laws used as axioms (trusted, conformance-tested by the bounded twin against the installed numpy):
    transpose(d, p):   flat-independent re-labelling: rank same, lab(T,k) = lab(d, p[k]), shp(T,k) = shp(d,p[k]), base same
    reshape(d, s):     base/row-major contents same, shp = s, rank = len(s), labels reset to a function of (base, s)
    broadcast_to(d,s): s == shape(d)  =>  identity
    concatenate([d]):  identity
The induction hypothesis of the graph induction is the contract of the `transform` callback: den2(transform(y)) = den(y).
"""
import ast
import itertools
import z3
from ..pyvc import *  # noqa
from .base import Kernel

Den = z3.DeclareSort("Den")
den = z3.Function("den", Obj, Den)
den2 = z3.Function("den_new", Obj, Den)
rank = z3.Function("rank", Den, I)
lab = z3.Function("lab", Den, I, I)
shp = z3.Function("shp", Den, I, I)
base = z3.Function("base", Den, Obj)  # row-major contents identity of the underlying data
tlab = z3.Function("tlab", Den, I)  # identity of the labelling scheme
flat = z3.Function("flat", Den, Obj)  # row-major contents


def eqden(d1, d2):
    k = fresh("k")
    return z3.And(rank(d1) == rank(d2), base(d1) == base(d2), tlab(d1) == tlab(d2), z3.ForAll([k], z3.Implies(z3.And(0 <= k, k < rank(d1)), z3.And(lab(d1, k) == lab(d2, k), shp(d1, k) == shp(d2, k)))))


origin = uf("attr_origin", Obj, Obj)
fnof = uf("attr_function", Obj, Obj)
args_ = uf("attr_args", Obj, Obj)
item0, item1 = uf("item_0", Obj, Obj), uf("item_1", Obj, Obj)
seq_len = uf("seq_len", Obj, I)
_seq_arr_int = uf("seq_arr_int", Obj, z3.ArraySort(I, I))
_seq_arr_obj = uf("seq_arr_obj", Obj, z3.ArraySort(I, Obj))


def seq_at(o, i):
    return z3.Select(_seq_arr_int(o), i)


def seq_at_obj(o, i):
    return z3.Select(_seq_arr_obj(o), i)
ndim = uf("attr_ndim", Obj, I)
shape_attr = uf("attr_shape", Obj, Obj)
is_tracer = uf("is_tracer.Tracer", Obj, B)
is_call = uf("is_tracer.signature.python.Call", Obj, B)
is_value = uf("is_tracer.signature.python.Value", Obj, B)
transform = z3.Function("transform", Obj, Obj)
skip_id = z3.Function("skip_id", Obj, Obj)
pycall = z3.Function("py_call", Obj, Obj, Obj, Obj)  # new Call node: function, first arg, second arg
is_seq = {t: uf("is_" + t, Obj, B) for t in ("tuple", "list", "np.ndarray")}


def common_axioms(SELF_FN, law):
    """law(dres, din, argobj) -> z3 Bool : the numpy law relating the result of the call to its first argument and second argument"""
    o, a, pm = z3.Consts("o a pm", Obj)
    ax = [
        # well-formed graph: a Call node of the matched function denotes the function applied to its arguments
        z3.ForAll([o], z3.Implies(z3.And(is_tracer(o), is_call(origin(o)), fnof(origin(o)) == SELF_FN), law(den(o), den(item0(args_(origin(o)))), item1(args_(origin(o)))))),
        # static rank / shape of classical tensors are sound (obligations C01.P.shape_* on signature/classical/functions.py)
        z3.ForAll([o], z3.Implies(z3.Not(is_value(o)), z3.And(ndim(o) == rank(den(o)), seq_len(shape_attr(o)) == rank(den(o))))),
        z3.ForAll([o, z3.Int("i")], z3.Implies(z3.And(z3.Not(is_value(o)), 0 <= z3.Int("i"), z3.Int("i") < rank(den(o))), seq_at(shape_attr(o), z3.Int("i")) == shp(den(o), z3.Int("i")))),
        z3.ForAll([o], rank(den(o)) >= 0),
        # induction hypothesis (contract of the callback) and contract of _skip_id
        z3.ForAll([o], den2(transform(o)) == den(o)),
        z3.ForAll([o], den(skip_id(o)) == den(o)),
        # semantics of the re-built call in the new graph
        z3.ForAll([a, pm], law(den2(pycall(transform(SELF_FN), a, pm)), den2(a), pm)),
    ]
    return ax


class _Pattern(Kernel):
    prop = "C05"
    file = "einx/_src/tracer/optimizer/classical.py"
    module = "einx._src.tracer.optimizer.classical"
    cls = ""
    fn_attr = ""

    @property
    def qual(self):
        return f"{self.cls}/__call__"

    def law(self, dres, din, argobj):
        raise NotImplementedError

    def eq(self, d1, d2):
        return eqden(d1, d2)

    def setup(self, eng, bound=None):
        SELF = z3.Const("self", Obj)
        self.SELF_FN = uf("attr_" + self.fn_attr, Obj, Obj)(SELF)
        eng.axioms += common_axioms(self.SELF_FN, self.law)
        isres_node, _ = locate(self.path(), f"{self.cls}/_is_result_of_call")
        isres = SFunc(isres_node)

        def c_isres(e, p, av, kw):
            return list(e.apply(isres, [SObj(SELF)] + av, kw, p, isres_node))

        def c_transform(e, p, av, kw):
            return SObj(transform(av[0].t))

        def c_skip(e, p, av, kw):
            return SObj(skip_id(av[0].t))

        def c_pycall(e, p, av, kw):
            f, lst = av
            a_, second = lst.items
            if isinstance(second, (SSeq, STup)):
                sq = e.as_seq(second, p)
                po = fresh("tupobj", Obj)
                p.pc.append(z3.And(seq_len(po) == sq.n, e.forall(0, sq.n, lambda k: seq_at(po, k) == z3.Select(sq.arr, k))))
            else:
                po = second.t
            return SObj(pycall(f.t, a_.t, po))

        eng.contracts.update({
            "self._is_result_of_call": SContract(c_isres, "_is_result_of_call (real body inlined)"),
            "transform": SContract(c_transform, "transform (induction hypothesis)"),
            "_skip_id": SContract(c_skip, "_skip_id"),
            "tracer.signature.python.call": SContract(c_pycall, "tracer.signature.python.call"),
        })
        x = z3.Const("x", Obj)
        self.x = x
        self._n = 0
        env = {"self": SObj(SELF), "x": SObj(x), "transform": eng.contracts["transform"]}
        return env, [], {}

    def post(self, eng, out, p):
        if not isinstance(out, Return):
            return
        v = out.v
        if not isinstance(v, STup) or len(v.items) != 2:
            eng.oblige("post:returns a (changed, new) pair", p, z3.BoolVal(False), "post")
            return
        changed, new = v.items
        c = z3.simplify(eng.truth(changed))
        if z3.is_false(c):
            return
        if not isinstance(new, SObj):
            eng.oblige("post:changed => result is a tracer", p, z3.Not(c), "post")
            return
        self._n = getattr(self, "_n", 0) + 1
        eng.oblige(f"post:changed => den_new(result) = den(x) [rewriting exit {self._n}]", p, z3.Implies(c, self.eq(den2(new.t), den(self.x))), "post")
        if p.ghost.get("stores"):
            eng.oblige("frame:pattern does not write to the graph it reads", p, z3.BoolVal(False), "frame")


class SkipTranspose(_Pattern):
    id = "C05.P.transpose"
    cls, fn_attr = "SkipTranspose", "transpose"
    describe = "nop transpose skipped only for the identity permutation; merged permutation new_perm[i] = perm1[perm2[i]] denotes T(T(d,p1),p2) for every rank"

    def law(self, dres, din, pm):
        i = z3.Int("i")
        return z3.And(rank(dres) == rank(din), base(dres) == base(din), tlab(dres) == tlab(din), seq_len(pm) == rank(din),
                      z3.ForAll([i], z3.Implies(z3.And(0 <= i, i < rank(din)), z3.And(0 <= seq_at(pm, i), seq_at(pm, i) < rank(din),
                                                                                        lab(dres, i) == lab(din, seq_at(pm, i)), shp(dres, i) == shp(din, seq_at(pm, i))))))

    def twin(self, tier):
        return twin_transpose(5 if tier == "thorough" else 4)


class SkipReshape(_Pattern):
    id = "C05.P.reshape"
    cls, fn_attr = "SkipReshape", "reshape"
    describe = "nop reshape skipped only when the target shape equals the static input shape; consecutive reshapes merge to the outer shape"

    # abstraction for reshape: an array is determined by its row-major contents `flat` and its shape (numpy C-order law)
    def law(self, dres, din, sh):
        i = z3.Int("i")
        return z3.And(flat(dres) == flat(din), rank(dres) == seq_len(sh), z3.ForAll([i], z3.Implies(z3.And(0 <= i, i < seq_len(sh)), shp(dres, i) == seq_at(sh, i))))

    def eq(self, d1, d2):
        k = fresh("k")
        return z3.And(flat(d1) == flat(d2), rank(d1) == rank(d2), z3.ForAll([k], z3.Implies(z3.And(0 <= k, k < rank(d1)), shp(d1, k) == shp(d2, k))))

    def twin(self, tier):
        return twin_reshape(tier)


class SkipBroadcastTo(_Pattern):
    id = "C05.P.broadcast"
    cls, fn_attr = "SkipBroadcastTo", "broadcast_to"
    describe = "broadcast_to skipped only when the target shape equals the static input shape"

    def law(self, dres, din, sh):
        i = z3.Int("i")
        same = z3.And(seq_len(sh) == rank(din), z3.ForAll([i], z3.Implies(z3.And(0 <= i, i < rank(din)), seq_at(sh, i) == shp(din, i))))
        # only the identity case of numpy.broadcast_to is needed; in every other case the result is unconstrained (fresh value)
        return z3.Implies(same, z3.And(rank(dres) == rank(din), base(dres) == base(din), tlab(dres) == tlab(din),
                                       z3.ForAll([i], z3.Implies(z3.And(0 <= i, i < rank(din)), z3.And(lab(dres, i) == lab(din, i), shp(dres, i) == shp(din, i))))))

    def twin(self, tier):
        return twin_broadcast(tier)


class SkipConcatenate(_Pattern):
    id = "C05.P.concat"
    cls, fn_attr = "SkipConcatenate", "concatenate"
    describe = "concatenate skipped only for a single-element list, and replaced by that element"

    def law(self, dres, tensors_den_unused, _):
        return z3.BoolVal(True)

    def setup(self, eng, bound=None):
        env, pre, g = super().setup(eng, bound)
        o = z3.Const("o", Obj)
        i = z3.Int("i")
        # numpy law: concatenate([d], axis) == d ; first argument of the call is the list of tensors
        eng.axioms.append(z3.ForAll([o], z3.Implies(z3.And(is_tracer(o), is_call(origin(o)), fnof(origin(o)) == self.SELF_FN, seq_len(item0(args_(origin(o)))) == 1),
                                                     z3.And(den(o) == den(seq_at_obj(item0(args_(origin(o))), 0)), den(o) == den(item0_of(item0(args_(origin(o)))))))))
        return env, pre, g

    def twin(self, tier):
        return twin_concat(tier)


item0_of = uf("item_0", Obj, Obj)

# ------------------------------------------------------------------ bounded twins: the REAL patterns on REAL graphs, interpreted with numpy
def _np_setup():
    import numpy as np
    import einx._src.tracer as tracer
    from einx._src.tracer.signature.classical.numpy import numpy as sig_numpy_cls  # noqa
    return np, tracer


def _run_pattern_on(graph_builder, inputs_np, pattern_factory):
    """build graph with the real tracer, run the real pattern through the real optimizer driver, evaluate both with numpy"""
    import numpy as np
    import einx._src.tracer as tracer
    from einx._src.tracer.compiler import run as irun

    raise NotImplementedError


def _fail(fails, shape, chain, bad):
    fails.append({"input_shape": list(shape), "chain": [[op, list(arg)] for op, arg in chain], "detail": bad,
                  "replay": {"fn": "vf.spec.irgraph:replay_chain", "args": [list(shape), [[op, list(arg)] for op, arg in chain]]}})


def twin_transpose(max_rank):
    import numpy as np
    from ..spec import irgraph

    n, fails = 0, []
    for r in range(1, max_rank + 1):
        # distinct lengths (shape errors visible) and equal lengths (only values can differ: the suite's blind spot)
        for shape in (tuple(range(2, 2 + r)), (2,) * r):
            xin = np.arange(int(np.prod(shape))).reshape(shape)
            perms = list(itertools.permutations(range(r)))
            for p1 in perms:
                for p2 in perms:
                    n += 1
                    chain = [("transpose", p1), ("transpose", p2)]
                    bad = irgraph.check_chain(xin, chain)
                    if bad:
                        _fail(fails, shape, chain, bad)
                        if len(fails) >= 3:
                            return n, fails
    return n, fails


def twin_reshape(tier):
    import numpy as np
    from ..spec import irgraph

    n, fails = 0, []
    shapes = [s for k in range(1, 5) for s in itertools.product([1, 2, 3, 4], repeat=k) if int(np.prod(s)) in (4, 6, 12, 24)] if tier == "thorough" else \
             [s for k in range(1, 4) for s in itertools.product([1, 2, 3], repeat=k) if int(np.prod(s)) in (6, 12)]
    for s0 in shapes:
        xin = np.arange(int(np.prod(s0))).reshape(s0)
        for s1 in shapes:
            if np.prod(s1) != np.prod(s0):
                continue
            for s2 in shapes[:: (1 if tier == "thorough" else 3)]:
                if np.prod(s2) != np.prod(s0):
                    continue
                n += 1
                bad = irgraph.check_chain(xin, [("reshape", s1), ("reshape", s2)])
                if bad:
                    _fail(fails, s0, [("reshape", s1), ("reshape", s2)], bad)
                    if len(fails) >= 3:
                        return n, fails
    return n, fails


def twin_broadcast(tier):
    import numpy as np
    from ..spec import irgraph

    n, fails = 0, []
    for s0 in [(1,), (2,), (1, 2), (2, 1), (2, 2), (1, 1), (2, 1, 3), (1, 3, 1)]:
        xin = np.arange(int(np.prod(s0))).reshape(s0)
        for s1 in [(1,), (2,), (1, 2), (2, 1), (2, 2), (1, 1), (3, 2), (2, 2, 2), (2, 1, 3), (2, 2, 3), (1, 3, 1), (2, 3, 2), (1, 1, 2), (1, 2, 1)]:
            try:
                np.broadcast_to(xin, s1)
            except ValueError:
                continue
            n += 1
            chain = [("broadcast_to", s1), ("transpose", tuple(reversed(range(len(s1)))))]
            bad = irgraph.check_chain(xin, chain)
            if bad:
                _fail(fails, s0, chain, bad)
    return n, fails


def twin_concat(tier):
    import numpy as np
    from ..spec import irgraph

    n, fails = 0, []
    for s0 in [(2,), (2, 3), (1, 2), (3, 1, 2)]:
        for axis in range(len(s0)):
            for k in (1, 2, 3):
                n += 1
                bad = irgraph.check_concat(s0, axis, k)
                if bad:
                    fails.append({"input_shape": list(s0), "axis": axis, "num_tensors": k, "detail": bad, "replay": {"fn": "vf.spec.irgraph:check_concat", "args": [list(s0), axis, k]}})
    return n, fails


KERNELS = [SkipTranspose(), SkipReshape(), SkipBroadcastTo(), SkipConcatenate()]


# ------------------------------------------------------------------ InlineGraph: eta-reduction of trivial wrapper graphs
class InlineGraph(Kernel):
    id = "C05.P.inline_graph"
    prop = "C05"
    file = "einx/_src/tracer/optimizer/graph.py"
    module = "einx._src.tracer.optimizer.graph"
    qual = "InlineGraph/__call__"
    describe = ("a graph is replaced by a function f only if its body is a call f(inputs...) with exactly the graph inputs, in order, no keywords, "
                "and f independent of the inputs (premise of the eta law: lambda i. f(i) = f)")

    def setup(self, eng, bound=None):
        eng.seq_attrs = {"inputs": "obj", "args": "obj"}
        self.dep = uf("depends_on", Obj, Obj, B)

        def c_transform(e, p, av, kw):
            return SObj(transform(av[0].t))

        def c_skip(e, p, av, kw):
            return SObj(skip_id(av[0].t))

        def c_dep(e, p, av, kw):
            # tracer.depends_on(x, predecessor) is used under its contract "x depends on predecessor": a pure function of these two arguments. Extra arguments (shared visited sets,
            # caches) make the answer for one graph input depend on the questions asked for the others.
            e.oblige("callee-pre:depends_on is asked with exactly (function, graph input): no state shared between the questions", p, z3.BoolVal(len(av) == 2 and not kw), "callee-pre")
            return SBool(self.dep(av[0].t, av[1].t))

        eng.contracts.update({"transform": SContract(c_transform), "_skip_id": SContract(c_skip), "tracer.depends_on": SContract(c_dep)})
        self.x = z3.Const("x", Obj)
        return {"self": SObj(z3.Const("self", Obj)), "x": SObj(self.x), "transform": eng.contracts["transform"]}, [], {}

    def post(self, eng, out, p):
        if not isinstance(out, Return) or not isinstance(out.v, STup) or len(out.v.items) != 2:
            return
        changed, new = out.v.items
        c = z3.simplify(eng.truth(changed))
        if z3.is_false(c):
            return
        x = self.x
        outp = skip_id(uf("attr_output", Obj, Obj)(x))
        org = origin(outp)
        fn = fnof(org)
        args = uf("attr_args", Obj, Obj)(org)
        inputs = uf("attr_inputs", Obj, Obj)(x)
        a_arr, i_arr = _seq_arr_obj(args), _seq_arr_obj(inputs)
        k = fresh("k")
        eng.oblige("post:changed => x is a graph whose (id-skipped) output is a call", p, z3.Implies(c, z3.And(uf("is_tracer.Graph", Obj, B)(x), is_tracer(outp), is_call(org))), "post")
        eng.oblige("post:changed => the call has no keyword arguments", p, z3.Implies(c, seq_len(uf("attr_kwargs", Obj, Obj)(org)) == 0), "post")
        eng.oblige("post:changed => as many call arguments as graph inputs", p, z3.Implies(c, seq_len(args) == seq_len(inputs)), "post")
        eng.oblige("post:changed => k-th argument is exactly the k-th graph input (order preserved)", p,
                   z3.Implies(c, z3.ForAll([k], z3.Implies(z3.And(0 <= k, k < seq_len(inputs)), skip_id(z3.Select(a_arr, k)) == z3.Select(i_arr, k)))), "post")
        eng.oblige("post:changed => the function does not depend on any graph input", p,
                   z3.Implies(c, z3.ForAll([k], z3.Implies(z3.And(0 <= k, k < seq_len(inputs)), z3.Not(self.dep(fn, z3.Select(i_arr, k)))))), "post")
        if isinstance(new, SObj):
            eng.oblige("post:changed => result is transform(called function)", p, z3.Implies(c, new.t == transform(fn)), "post")
        else:
            eng.oblige("post:changed => result is transform(called function)", p, z3.Not(c), "post")

    def twin(self, tier):
        from ..spec import irgraph
        n, fails = 0, []
        for nin in (1, 2, 3):
            for perm in itertools.permutations(range(nin)):
                for extra in (False, True):
                    for nested in (False, True):
                        n += 1
                        bad = irgraph.check_wrapper(nin, list(perm), extra, nested)
                        if bad:
                            fails.append({"detail": bad, "num_inputs": nin, "argument_order": list(perm), "extra_constant_arg": extra, "nested": nested,
                                          "replay": {"fn": "vf.spec.irgraph:check_wrapper", "args": [nin, list(perm), extra, nested]}})
        return n, fails


KERNELS.append(InlineGraph())


class SkipCastK(Kernel):
    id = "C05.P.skip_cast"
    prop = "C05"
    file = "einx/_src/tracer/optimizer/graph.py"
    module = "einx._src.tracer.optimizer.graph"
    qual = "SkipCast/__call__"
    describe = ("a cast node is replaced only by transform(its own input) (a cast never changes the value: den(cast(v)) = den(v)), and only when the tracer "
                "signatures of input and output are equal (so static types/shapes seen by later nodes are unchanged)")

    def setup(self, eng, bound=None):
        self.x = z3.Const("x", Obj)
        self.sig = z3.Function("signature_of", Obj, Obj)

        def c_transform(e, p, av, kw):
            return SObj(transform(av[0].t))

        def c_map(e, p, av, kw):
            # pytree.map(lambda t: t._tracer_type(None), tree): the tree of tracer signatures (a deterministic function of the tree)
            return SObj(self.sig(av[1].t))

        isres_node, _ = locate(self.path(), "SkipCast/_is_result_of_call")
        isres = SFunc(isres_node)

        def c_isres(e, p, av, kw):
            return list(e.apply(isres, [SObj(z3.Const("self", Obj))] + av, kw, p, isres_node))

        eng.contracts.update({"transform": SContract(c_transform), "pytree.map": SContract(c_map), "self._is_result_of_call": SContract(c_isres)})
        return {"self": SObj(z3.Const("self", Obj)), "x": SObj(self.x), "transform": eng.contracts["transform"]}, [], {}

    def post(self, eng, out, p):
        if not isinstance(out, Return) or not isinstance(out.v, STup) or len(out.v.items) != 2:
            return
        changed, new = out.v.items
        c = z3.simplify(eng.truth(changed))
        if z3.is_false(c):
            return
        org = origin(self.x)
        inp = uf("attr_input", Obj, Obj)(org)
        outp = uf("attr_output", Obj, Obj)(org)
        eng.oblige("post:changed => x is the result of a cast", p, z3.Implies(c, z3.And(is_tracer(self.x), uf("is_tracer.Cast", Obj, B)(org))), "post")
        eng.oblige("post:changed => the cast's input and output have equal tracer signatures", p, z3.Implies(c, self.sig(inp) == self.sig(outp)), "post")
        eng.oblige("post:changed => result is transform(input of the cast)", p, z3.Implies(c, new.t == transform(inp)) if isinstance(new, SObj) else z3.Not(c), "post")


KERNELS.append(SkipCastK())


class SkipIdK(Kernel):
    """discharges the contract of _skip_id that the pattern lemmas above use as an assumption"""
    id = "C05.P.skip_id"
    prop = "C05"
    file = "einx/_src/tracer/optimizer/_util.py"
    module = "einx._src.tracer.optimizer._util"
    qual = "_skip_id"
    describe = ("_skip_id(o) returns a value with the denotation AND the run-time effects (assertions, in-place updates) of o: it only looks through tracer.Cast nodes whose output is o itself "
                "(the Cast law den(cast(v)) = den(v), eff(cast(v)) = eff(v) is the only law available); recursive calls are used under their own contract (partial correctness)")
    shape = "leaf"  # leaf | pair

    def setup(self, eng, bound=None):
        Eff = z3.DeclareSort("Eff")
        eff = self.eff = z3.Function("eff", Obj, Eff)
        is_cast = uf("is_tracer.Cast", Obj, B)
        a_in, a_out = uf("attr_input", Obj, Obj), uf("attr_output", Obj, Obj)
        o = z3.Const("o", Obj)
        # Cast law: the output of a cast node denotes what its input denotes, with the same effects
        eng.axioms += [z3.ForAll([o], z3.Implies(is_cast(origin(o)), z3.And(den(a_out(origin(o))) == den(a_in(origin(o))), eff(a_out(origin(o))) == eff(a_in(origin(o))))))]
        rec = z3.Function("skip_id_rec", Obj, Obj)
        eng.axioms += [z3.ForAll([o], z3.And(den(rec(o)) == den(o), eff(rec(o)) == eff(o)))]  # induction hypothesis for the recursive calls
        self.out = z3.Const("output", Obj)

        def c_rec(e, p, av, kw):
            if not isinstance(av[0], SObj):
                raise OutOfSubset("recursive _skip_id on a non-opaque value")
            return SObj(rec(av[0].t))

        def c_flatten(e, p, av, kw):
            # pytree.flatten of a leaf (neither list/tuple nor dict) yields the leaf itself
            v = av[0]
            if isinstance(v, SObj):
                return STup([v])
            raise OutOfSubset("pytree.flatten of a container")

        def c_all(e, p, av, kw):
            # pytree.all(lambda x, y: id(x) == id(y), a, b) with b a leaf: structure mismatch or leaf/leaf -> the predicate applied to (a, b) = identity of a and b
            a, b = av[1], av[2]
            if isinstance(a, SObj) and isinstance(b, SObj):
                return SBool(a.t == b.t)
            raise OutOfSubset("pytree.all on modelled containers")

        eng.contracts.update({"_skip_id": SContract(c_rec, "_skip_id (recursive call under its own contract)"), "pytree.flatten": SContract(c_flatten, "pytree.flatten (leaf case)"),
                              "pytree.all": SContract(c_all, "pytree.all with an identity predicate (leaf case)")})
        leaf = z3.And(z3.Not(uf("is_tuple", Obj, B)(self.out)), z3.Not(uf("is_list", Obj, B)(self.out)), z3.Not(uf("is_dict", Obj, B)(self.out)))
        return {"output": SObj(self.out), "_skip_id": eng.contracts["_skip_id"]}, [leaf], {}

    def post(self, eng, out, p):
        if isinstance(out, Raise):
            eng.oblige(f"post:no {out.cls}", p, z3.BoolVal(False), "post")
            return
        if not isinstance(out, Return) or not isinstance(out.v, SObj):
            eng.oblige("post:returns a tracer-level value", p, z3.BoolVal(False), "post")
            return
        eng.oblige("post:the result denotes the same value as the argument", p, den(out.v.t) == den(self.out), "post")
        eng.oblige("post:the result carries the same run-time effects (assertions, in-place updates) as the argument", p, self.eff(out.v.t) == self.eff(self.out), "post")

    def twin(self, tier):
        """native: the real _skip_id on small chains of Cast / Assert / Call nodes: the result must be reachable from the argument through Cast nodes only"""
        import einx._src.tracer as tracer
        from einx._src.tracer.optimizer._util import _skip_id
        P = tracer.signature.python
        n, fails = 0, []
        import itertools
        for chain in itertools.product(["cast", "assert", "call", "getattr"], repeat=3):
            n += 1
            x0 = P.Value(None)
            cur, allowed = x0, [x0]
            nodes = [x0]
            for kind in chain:
                if kind == "cast":
                    cur = tracer.cast(cur, lambda origin: P.Value(origin))
                elif kind == "assert":
                    cur = P.assert_(cur, P.Value(None), "msg")
                elif kind == "call":
                    cur = P.call(P.Value(None), [cur])
                else:
                    cur = P.getattr(cur, "shape")
                nodes.append(cur)
            r = _skip_id(cur)
            # expected: walk back over the trailing run of Cast nodes
            exp = cur
            for kind in reversed(chain):
                if kind == "cast":
                    exp = exp.origin.input
                else:
                    break
            if r is not exp:
                fails.append({"detail": f"_skip_id on a chain {chain} (innermost first) returned the node {nodes.index(r) if r in nodes else '?'} steps in, expected to stop at the last non-Cast node ({nodes.index(exp)})"})
        return n, fails[:3]


KERNELS.append(SkipIdK())
