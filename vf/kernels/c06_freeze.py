"""Sidecar contracts for util/lru_cache.py :: _freeze_value / _unwrap_value (C06: the compiled-function cache key and what the traced function receives back).

Each function is executed symbolically from its real source for every argument FORM it distinguishes; recursive calls are used under the function's own contract
(structural induction, partial correctness). Composition lemma (from the two contracts, by induction on the structure - not mechanised): _unwrap_value(_freeze_value(x))
is x for scalars/strings/None/opaque objects, and the tuple / frozendict of the round-tripped members for lists, tuples and dicts (lists come back as tuples)."""
import z3
from ..pyvc import *  # noqa
from .base import Kernel

F = "einx/_src/util/lru_cache.py"
M = "einx._src.util.lru_cache"


def same_value(a, b):
    """structural identity of two symbolic values (the comprehension machinery re-wraps scalars)"""
    if a is b:
        return True
    if type(a) is not type(b):
        return False
    if isinstance(a, (SInt, SBool, SObj)):
        return z3.simplify(a.t).eq(z3.simplify(b.t))
    if isinstance(a, SConc):
        return a.v == b.v and type(a.v) is type(b.v)
    if isinstance(a, STup):
        return a.pykind == b.pykind and len(a.items) == len(b.items) and all(same_value(x, y) for x, y in zip(a.items, b.items))
    if isinstance(a, SRec):
        return a.cls == b.cls and sorted(a.f) == sorted(b.f) and all(same_value(a.f[k], b.f[k]) for k in a.f)
    return False


def dictcomp_hook(eng):
    """{k: f(v) for k, v in d.items()} over a dict with concrete keys"""
    import ast

    def ev_DictComp(n, p):
        g = n.generators[0]
        if len(n.generators) != 1 or not (isinstance(g.iter, ast.Call) and isinstance(g.iter.func, ast.Attribute) and g.iter.func.attr == "items" and not g.iter.args):
            raise OutOfSubset("dict comprehension form")
        for d, p1 in eng.ev(g.iter.func.value, p):
            if isinstance(d, SRec) and d.cls == "frozendict":
                d = d.f["d"]
            if not isinstance(d, SDict):
                raise OutOfSubset("dict comprehension over a non-dict")
            out, cur = {}, p1
            for key, val in d.d.items():
                q = cur.fork()
                q.frames.append({})
                eng.assign(g.target, STup([eng.lift(key), val]), q)
                keep = True
                for cond in g.ifs:
                    (cv, q), = list(eng.ev(cond, q))
                    t = z3.simplify(eng.truth(cv))
                    if not (z3.is_true(t) or z3.is_false(t)):
                        raise OutOfSubset("dict comprehension filter that is not decided by the concrete keys")
                    keep = keep and z3.is_true(t)
                if not keep:
                    q.frames.pop()
                    cur = q
                    continue
                (kv, q1), = list(eng.ev(n.key, q))
                (vv, q2), = list(eng.ev(n.value, q1))
                if not isinstance(kv, SConc):
                    raise OutOfSubset("symbolic key in dict comprehension")
                out[kv.v] = vv
                q2.frames.pop()
                cur = q2
            yield SDict(out), cur

    eng.ev_DictComp = ev_DictComp


def _forms(a):
    return {"int": SInt(a[0]), "bool": SBool(z3.Bool("b0")), "str": SConc("abc"), "none": SConc(None), "tuple0": STup([], "tuple"), "tuple2": STup([SInt(a[0]), SInt(a[1])], "tuple"),
            "list2": STup([SInt(a[0]), SInt(a[1])], "list"), "nested": STup([STup([SInt(a[0])], "list"), SConc("s")], "tuple"), "dict1": SDict({"k": SInt(a[0])}), "dict0": SDict({})}


class Freeze(Kernel):
    prop = "C06"
    file, module = F, M
    qual = "_freeze_value"
    form = "int"

    def setup(self, eng, bound=None):
        self.a = [z3.Int("a0"), z3.Int("a1")]

        def c_rec(e, p, av, kw):
            return SRec("frozen", of=av[0])

        def c_typed(e, p, av, kw):
            return SRec("_TypedScalar", value=av[0])

        def c_fd(e, p, av, kw):
            if not isinstance(av[0], SDict):
                raise OutOfSubset("frozendict of a non-dict")
            return SRec("frozendict", d=av[0])

        dictcomp_hook(eng)
        eng.contracts.update({"_freeze_value": SContract(c_rec, "_freeze_value (recursive call, under its own contract)"), "_TypedScalar": SContract(c_typed, "_TypedScalar(value)"),
                              "frozendict.frozendict": SContract(c_fd, "frozendict.frozendict(mapping)")})
        self.arg = _forms(self.a)[self.form]
        return {"x": self.arg}, [], {}

    def post(self, eng, out, p):
        if isinstance(out, Raise):
            eng.oblige("post:no exception", p, z3.BoolVal(False), "post")
            return
        r, f = out.v, self.form

        def is_frozen_of(v, orig):
            return isinstance(v, SRec) and v.cls == "frozen" and same_value(v.f["of"], orig)

        if f in ("int", "bool"):
            ok = isinstance(r, SRec) and r.cls == "_TypedScalar" and r.f["value"] is self.arg
            eng.oblige("post:a Python scalar is wrapped into a _TypedScalar holding exactly that scalar (type-sensitive key)", p, z3.BoolVal(ok), "post")
        elif f in ("str", "none"):
            eng.oblige("post:strings and None are their own key", p, z3.BoolVal(r is self.arg or (isinstance(r, SConc) and r.v == self.arg.v)), "post")
        elif f in ("tuple0", "tuple2", "list2", "nested"):
            items = self.arg.items
            ok = isinstance(r, STup) and r.pykind == "tuple" and len(r.items) == len(items) and all(is_frozen_of(v, o) for v, o in zip(r.items, items))
            eng.oblige("post:lists and tuples become the tuple of their frozen members, in order", p, z3.BoolVal(ok), "post")
        else:
            d = self.arg.d
            ok = isinstance(r, SRec) and r.cls == "frozendict" and sorted(r.f["d"].d) == sorted(d) and all(is_frozen_of(r.f["d"].d[k], d[k]) for k in d)
            eng.oblige("post:a dict becomes a frozendict with the same keys and frozen values", p, z3.BoolVal(ok), "post")

    def twin(self, tier):
        return freeze_twin()


class Unwrap(Kernel):
    prop = "C06"
    file, module = F, M
    qual = "_unwrap_value"
    form = "typed"

    def setup(self, eng, bound=None):
        self.v = z3.Int("v0")

        def c_rec(e, p, av, kw):
            return SRec("unwrapped", of=av[0])

        def c_fd(e, p, av, kw):
            if not isinstance(av[0], SDict):
                raise OutOfSubset("frozendict of a non-dict")
            return SRec("frozendict", d=av[0])

        dictcomp_hook(eng)
        eng.contracts.update({"_unwrap_value": SContract(c_rec, "_unwrap_value (recursive call, under its own contract)"), "frozendict.frozendict": SContract(c_fd, "frozendict.frozendict(mapping)")})
        ts = SRec("_TypedScalar", value=SInt(self.v))
        ts.isa = ("_TypedScalar",)
        fd = SRec("frozendict", d=SDict({"k": ts}))
        fd.isa = ("frozendict", "frozendict.frozendict")
        self.arg = {"typed": ts, "str": SConc("abc"), "none": SConc(None), "tuple2": STup([ts, SConc("s")], "tuple"), "tuple0": STup([], "tuple"), "opaque": SObj(z3.Const("tensor", Obj)), "frozendict": fd}[self.form]
        pre = []
        if self.form == "opaque":
            pre = [z3.Not(uf("is_" + c, Obj, B)(self.arg.t)) for c in ("_TypedScalar", "tuple", "frozendict.frozendict")]
        if self.form == "frozendict":
            self.arg = fd
        return {"x": self.arg}, pre, {}

    def post(self, eng, out, p):
        if isinstance(out, Raise):
            eng.oblige("post:no exception", p, z3.BoolVal(False), "post")
            return
        r, f = out.v, self.form
        if f == "frozendict":
            ok = isinstance(r, SRec) and r.cls == "frozendict" and sorted(r.f["d"].d) == ["k"] and isinstance(r.f["d"].d["k"], SRec) and r.f["d"].d["k"].cls == "unwrapped" and same_value(r.f["d"].d["k"].f["of"], self.arg.f["d"].d["k"])
            eng.oblige("post:a frozendict becomes a frozendict with the same keys and unwrapped values", p, z3.BoolVal(ok), "post")
        elif f == "typed":
            eng.oblige("post:a _TypedScalar yields exactly the scalar it holds", p, r.t == self.v if isinstance(r, SInt) else z3.BoolVal(False), "post")
        elif f in ("str", "none"):
            eng.oblige("post:anything else is passed through", p, z3.BoolVal(isinstance(r, SConc) and r.v == self.arg.v), "post")
        elif f == "opaque":
            eng.oblige("post:anything else is passed through", p, r.t == self.arg.t if isinstance(r, SObj) else z3.BoolVal(False), "post")
        else:
            items = self.arg.items
            ok = isinstance(r, STup) and r.pykind == "tuple" and len(r.items) == len(items) and all(isinstance(v, SRec) and v.cls == "unwrapped" and same_value(v.f["of"], o) for v, o in zip(r.items, items))
            eng.oblige("post:a tuple becomes the tuple of its unwrapped members, in order", p, z3.BoolVal(ok), "post")

    def twin(self, tier):
        return freeze_twin()


def freeze_twin():
    """bounded twin: unwrap(freeze(x)) on nested values; equal keys only for values of the same types"""
    import itertools
    import numpy as np
    import types
    from einx._src.util.lru_cache import _freeze_value, _unwrap_value
    n, fails = 0, []

    def norm(x):
        if isinstance(x, np.ndarray):
            return norm(x.tolist())
        if isinstance(x, (list, tuple)):
            return tuple(norm(y) for y in x)
        if isinstance(x, dict):
            return {k: norm(v) for k, v in x.items()}
        if isinstance(x, types.SimpleNamespace):
            return norm(vars(x))
        return x

    def same(a, b):
        if type(a) is not type(b):
            return False
        if isinstance(a, tuple):
            return len(a) == len(b) and all(same(x, y) for x, y in zip(a, b))
        if isinstance(a, dict):
            return sorted(a) == sorted(b) and all(same(a[k], b[k]) for k in a)
        return a == b

    vals = [1, True, 1.0, "1", None, (1, 2), [1, 2], (1, (2.0, "x")), {"a": 1}, {"a": [1, 2]}, np.asarray([1, 2]), types.SimpleNamespace(p=3), (), [], {}, np.int64(1)]
    for v in vals:
        n += 1
        back = _unwrap_value(_freeze_value(v))
        back = dict(back) if hasattr(back, "items") and not isinstance(back, dict) else back
        if not same(norm(back) if not isinstance(back, dict) else {k: norm(x) for k, x in back.items()}, norm(v)):
            fails.append({"detail": f"unwrap(freeze({v!r})) = {back!r}"})
    for a, b in itertools.combinations([1, True, 1.0, np.int64(1), (1,), (True,), (1.0,)], 2):
        n += 1
        if _freeze_value(a) == _freeze_value(b):
            fails.append({"detail": f"{a!r} and {b!r} share a cache key"})
    return n, fails[:3]


def _mk(base, name, **attrs):
    return type(name, (base,), attrs)()


KERNELS = []
for form in ("int", "bool", "str", "none", "tuple0", "tuple2", "list2", "nested", "dict1", "dict0"):
    KERNELS.append(_mk(Freeze, f"Freeze_{form}", form=form, id=f"C06.P.freeze[{form}]", describe=f"_freeze_value on argument form {form}: scalars -> _TypedScalar(value), list/tuple -> tuple of frozen members in order, dict -> frozendict of frozen values, str/None unchanged"))
for form in ("typed", "str", "none", "tuple2", "tuple0", "opaque", "frozendict"):
    KERNELS.append(_mk(Unwrap, f"Unwrap_{form}", form=form, id=f"C06.P.unwrap[{form}]", describe=f"_unwrap_value on argument form {form}: _TypedScalar -> its scalar, tuple -> tuple of unwrapped members in order, everything else passed through"))
