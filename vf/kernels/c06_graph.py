"""Sidecar contracts for tracer/graph.py (C06): Graph.__eq__ (part of the cache key of nested graphs) and DependOn.__enter__ (thread-local dependency stack; __exit__ is C06.P.dependon)."""
import z3
from ..pyvc import *  # noqa
from .base import Kernel
from .c06_keys import _Eq

G_FILE = "einx/_src/tracer/graph.py"
G_MOD = "einx._src.tracer.graph"


class GraphEq(_Eq):
    id = "C06.P.key_graph"
    cls = "Graph"
    file, module = G_FILE, G_MOD
    fields = {"name": "obj", "inputs": "obj", "output": "obj"}
    describe = "Graph.__eq__(other Graph) <=> same name, same inputs and same output (a nested graph in a cache key is equal only to a graph with the same interface and body)"


class DependOnEnter(Kernel):
    prop = "C06"
    file, module, qual = G_FILE, G_MOD, "DependOn/__enter__"
    has_stack = True

    def setup(self, eng, bound=None):
        self.n = z3.Int("n")
        self.st = z3.Array("dstack", I, Obj)
        self.deps = z3.Const("dependencies", Obj)
        dep = SRec("threadlocal", stack=SSeq(self.st, self.n, "obj", "list")) if self.has_stack else SRec("threadlocal")
        eng.module_overrides = {"_dependon": dep}
        return {"self": SRec("DependOn", dependencies=SObj(self.deps)), "_dependon": dep}, [self.n >= 0], {}

    def post(self, eng, out, p):
        if isinstance(out, Raise):
            eng.oblige("post:__enter__ cannot raise", p, z3.BoolVal(False), "post")
            return
        tl = p.lookup("_dependon")
        if "stack" not in tl.f:
            eng.oblige("post:the thread's stack exists after __enter__", p, z3.BoolVal(False), "post")
            return
        s2 = eng.as_seq(tl.f["stack"], p)
        k = fresh("k")
        n0 = self.n if self.has_stack else z3.IntVal(0)
        eng.oblige("post:this thread's stack = its old stack (empty if it had none) + [the dependencies of this block]", p,
                   z3.And(s2.n == n0 + 1, z3.Select(s2.arr, n0) == self.deps, z3.ForAll([k], z3.Implies(z3.And(0 <= k, k < n0), z3.Select(s2.arr, k) == z3.Select(self.st, k)))), "post")


def _mk(base, name, **attrs):
    return type(name, (base,), attrs)()


KERNELS = [GraphEq(),
           _mk(DependOnEnter, "DependOnEnterExisting", has_stack=True, id="C06.P.dependon_enter[stack exists]", describe="DependOn.__enter__ pushes exactly its dependency list onto this thread's stack; everything below is unchanged"),
           _mk(DependOnEnter, "DependOnEnterFirst", has_stack=False, id="C06.P.dependon_enter[first use in this thread]", describe="DependOn.__enter__ in a thread that has no stack yet: creates it, holding exactly the dependency list")]


class HashK(Kernel):
    """__hash__ is a function of exactly the fields that __eq__ compares (so equal keys have equal hashes: a cache hit is found)"""
    prop = "C06"
    file = "einx/_src/tracer/signature/classical/tensor.py"
    module = "einx._src.tracer.signature.classical.tensor"
    cls = "Tensor"
    allowed_raises = ("ValueError",)

    @property
    def qual(self):
        return f"{self.cls}/__hash__"

    def setup(self, eng, bound=None):
        self.H = uf("py_hash", Obj, I)
        self.frozen = uf("frozen_value", Obj, Obj)
        self.shape, self.conc, self.origin = z3.Const("shape", Obj), z3.Const("concrete", Obj), z3.Const("origin", Obj)
        eng.contracts.update({"hash": SContract(lambda e, p, av, kw: SInt(self.H(av[0].t)), "hash()"), "_freeze_value": SContract(lambda e, p, av, kw: SObj(self.frozen(av[0].t)), "_freeze_value (C06.P.freeze)")})
        eng.seq_attrs = {}
        me = SRec(self.cls, shape=SObj(self.shape), concrete=SObj(self.conc), origin=SObj(self.origin))
        return {"self": me}, [], {}

    def post(self, eng, out, p):
        isnone = uf("is_None", Obj, B)(self.origin)
        if isinstance(out, Raise):
            eng.oblige("post:ValueError only for a tracer that is not a graph input (origin not None): such tracers are never cache keys", p, z3.Not(isnone), "post")
            return
        r = out.v
        if self.cls == "Tensor":
            eng.oblige("post:hash = 1 + hash(shape): a function of the shape only (origin is None for every key)", p, r.t == 1 + self.H(self.shape) if isinstance(r, SInt) else z3.BoolVal(False), "post")
        else:
            eng.oblige("post:hash = hash(shape) + hash(frozen concrete descriptor): a function of exactly the fields __eq__ compares", p, r.t == self.H(self.shape) + self.H(self.frozen(self.conc)) if isinstance(r, SInt) else z3.BoolVal(False), "post")
            eng.oblige("post:only graph inputs are hashed", p, isnone, "post")


KERNELS += [_mk(HashK, "Hash_Tensor", cls="Tensor", id="C06.P.hash_tensor", describe="Tensor.__hash__ = 1 + hash(shape): equal keys (C06.P.key_tensor) have equal hashes"),
            _mk(HashK, "Hash_Convertible", cls="ConvertibleTensor", id="C06.P.hash_convertible", describe="ConvertibleTensor.__hash__ = hash(shape) + hash(frozen concrete): a function of exactly what __eq__ compares (C06.P.key_convertible), for graph inputs only")]


class DependsOn(Kernel):
    id = "C05.P.depends_on"
    prop = "C05"
    file, module, qual = G_FILE, G_MOD, "depends_on"
    describe = ("tracer.depends_on(x, predecessor), used by InlineGraph to decide that a function is independent of the graph inputs: for two tracers, True iff x IS the predecessor or x has an "
                "origin one of whose inputs depends on it (the recursive calls are used under this same contract: partial correctness); False whenever one of the two is not a tracer")

    def setup(self, eng, bound=None):
        self.x, self.pr = z3.Const("x", Obj), z3.Const("predecessor", Obj)
        self.rec = uf("depends_on_rec", Obj, Obj, B)
        a, b = z3.Const("a", Obj), z3.Const("b", Obj)
        eng.axioms += [z3.ForAll([a, b], (uf("id_of", Obj, I)(a) == uf("id_of", Obj, I)(b)) == (a == b))]
        eng.contracts.update({"id": SContract(lambda e, p, av, kw: SInt(uf("id_of", Obj, I)(av[0].t)), "id()"), "depends_on": SContract(lambda e, p, av, kw: SBool(self.rec(av[0].t, av[1].t)), "recursive call (induction hypothesis)")})
        eng.seq_attrs = dict(getattr(eng, "seq_attrs", {}), inputs="obj")
        return {"x": SObj(self.x), "predecessor": SObj(self.pr)}, [], {}

    def post(self, eng, out, p):
        if isinstance(out, Raise):
            eng.oblige("post:no exception", p, z3.BoolVal(False), "post")
            return
        ist = uf("is_Tracer", Obj, B)
        origin = uf("attr_origin", Obj, Obj)(self.x)
        ins = eng.as_seq(SObj(uf("attr_inputs", Obj, Obj)(origin)), p, "obj")
        k = fresh("k")
        some = z3.Exists([k], z3.And(0 <= k, k < ins.n, self.rec(z3.Select(ins.arr, k), self.pr)))
        want = z3.And(ist(self.x), ist(self.pr), z3.Or(self.x == self.pr, z3.And(z3.Not(uf("is_None", Obj, B)(origin)), some)))
        eng.oblige("post:result = both are tracers and (x is the predecessor, or x has an origin with an input that depends on it)", p, eng.truth(out.v) == want, "post")


KERNELS.append(DependsOn())
