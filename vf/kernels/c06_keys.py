"""Sidecar contracts for the cache-key equalities (C06, key adequacy): equal keys must imply equal observables.
tracer/signature/classical/tensor.py :: Tensor.__eq__, ConvertibleTensor.__eq__ ; util/lru_cache.py :: _TypedScalar.__eq__"""
import z3
from ..pyvc import *  # noqa
from .base import Kernel

T_FILE = "einx/_src/tracer/signature/classical/tensor.py"


def rec(cls, name, fields):
    f = {}
    for k, kind in fields.items():
        if kind == "obj":
            f[k] = SObj(z3.Const(f"{name}_{k}", Obj))
        elif kind == "seq":
            f[k] = SSeq(z3.Array(f"{name}_{k}", I, I), z3.Int(f"{name}_{k}_n"), "int", "tuple")
    r = SRec(cls, **f)
    r.isa = (cls,)
    return r


class _Eq(Kernel):
    prop = "C06"
    cls = ""
    fields = {}
    file = T_FILE
    module = "einx._src.tracer.signature.classical.tensor"

    @property
    def qual(self):
        return f"{self.cls}/__eq__"

    def setup(self, eng, bound=None):
        self.a = rec(self.cls, "self", self.fields)
        self.b = rec(self.cls, "other", self.fields)
        self.other_obj = SObj(z3.Const("other_any", Obj))
        self.variant = "same-class"
        pre = [v.n >= 0 for r in (self.a, self.b) for v in r.f.values() if isinstance(v, SSeq)]
        return {"self": self.a, "other": self.b}, pre, {}

    def post(self, eng, out, p):
        if not isinstance(out, Return):
            return
        r = eng.truth(out.v)
        conds = []
        for k, kind in self.fields.items():
            x, y = self.a.f[k], self.b.f[k]
            conds.append(eng.values_eq(x, y, p))
        eng.oblige("post:__eq__ true => every observable field of the key is equal (" + ", ".join(self.fields) + ")", p, z3.Implies(r, z3.And(*conds)), "post")
        eng.oblige("post:equal observables => __eq__ true (a cache hit is not lost)", p, z3.Implies(z3.And(*conds), r), "post")


class TensorEq(_Eq):
    id = "C06.P.key_tensor"
    cls = "Tensor"
    fields = {"origin": "obj", "shape": "seq"}
    describe = "Tensor.__eq__(other Tensor) <=> same origin and same shape"


class ConvertibleTensorEq(_Eq):
    id = "C06.P.key_convertible"
    cls = "ConvertibleTensor"
    fields = {"origin": "obj", "concrete": "obj", "shape": "obj"}
    describe = "ConvertibleTensor.__eq__(other ConvertibleTensor) <=> same origin, same concrete descriptor (type AND factory signature) and same shape"


class OtherClass(Kernel):
    """__eq__ against an object of another class is False"""
    prop = "C06"
    file = T_FILE
    module = "einx._src.tracer.signature.classical.tensor"

    def __init__(self, cls, fields):
        self.cls, self.fields = cls, fields
        self.id = f"C06.P.key_{cls.lower()}_otherclass"
        self.qual = f"{cls}/__eq__"
        self.describe = f"{cls}.__eq__(x) is False for x of another class"

    def setup(self, eng, bound=None):
        a = rec(self.cls, "self", self.fields)
        if self.fields.get("shape") == "obj":
            eng.seq_attrs = {}
        o = z3.Const("other_any", Obj)
        self.isit = uf("is_" + self.cls, Obj, B)(o)
        return {"self": a, "other": SObj(o)}, [], {}

    def post(self, eng, out, p):
        if isinstance(out, Return):
            eng.oblige("post:__eq__ true => other is an instance of the class", p, z3.Implies(eng.truth(out.v), self.isit), "post")


class TypedScalarEq(Kernel):
    id = "C06.P.key_typed_scalar"
    prop = "C06"
    file = "einx/_src/util/lru_cache.py"
    module = "einx._src.util.lru_cache"
    qual = "_TypedScalar/__eq__"
    describe = "_TypedScalar.__eq__ true => same Python type and equal value (2, 2.0 and True are different keys)"

    def setup(self, eng, bound=None):
        self.va, self.vb = z3.Const("va", Obj), z3.Const("vb", Obj)
        a = SRec("_TypedScalar", value=SObj(self.va))
        b = SRec("_TypedScalar", value=SObj(self.vb))
        a.isa = b.isa = ("_TypedScalar",)
        return {"self": a, "other": b}, [], {}

    def post(self, eng, out, p):
        if isinstance(out, Return):
            ty = uf("type_of", Obj, Obj)
            eng.oblige("post:__eq__ true => type(self.value) is type(other.value) and the values are equal", p, z3.Implies(eng.truth(out.v), z3.And(ty(self.va) == ty(self.vb), self.va == self.vb)), "post")


KERNELS = [TensorEq(), ConvertibleTensorEq(), OtherClass("Tensor", {"origin": "obj", "shape": "seq"}), OtherClass("ConvertibleTensor", {"origin": "obj", "concrete": "obj", "shape": "obj"}), TypedScalarEq()]
