"""Sidecar contracts for the cache-key equalities (C06, key adequacy): equal keys must imply equal observables.
tracer/signature/classical/tensor.py :: Tensor.__eq__, ConvertibleTensor.__eq__ ; util/lru_cache.py :: _TypedScalar.__eq__"""
import z3
from ..pyvc import *  # noqa
from .base import Kernel

T_FILE = "einx/_src/tracer/signature/classical/tensor.py"


def rec(cls, name, fields):
    f = {}
    for k, kind in fields.items():
        if kind == "obj":
            f[k] = SObj(z3.Const(f"{name}_{k}", Obj))
        elif kind == "seq":
            f[k] = SSeq(z3.Array(f"{name}_{k}", I, I), z3.Int(f"{name}_{k}_n"), "int", "tuple")
    r = SRec(cls, **f)
    r.isa = (cls,)
    return r


class _Eq(Kernel):
    prop = "C06"
    cls = ""
    fields = {}
    file = T_FILE
    module = "einx._src.tracer.signature.classical.tensor"

    @property
    def qual(self):
        return f"{self.cls}/__eq__"

    def setup(self, eng, bound=None):
        self.a = rec(self.cls, "self", self.fields)
        self.b = rec(self.cls, "other", self.fields)
        self.other_obj = SObj(z3.Const("other_any", Obj))
        self.variant = "same-class"
        pre = [v.n >= 0 for r in (self.a, self.b) for v in r.f.values() if isinstance(v, SSeq)]
        return {"self": self.a, "other": self.b}, pre, {}

    def post(self, eng, out, p):
        if not isinstance(out, Return):
            return
        r = eng.truth(out.v)
        conds = []
        for k, kind in self.fields.items():
            x, y = self.a.f[k], self.b.f[k]
            conds.append(eng.values_eq(x, y, p))
        eng.oblige("post:__eq__ true => every observable field of the key is equal (" + ", ".join(self.fields) + ")", p, z3.Implies(r, z3.And(*conds)), "post")
        eng.oblige("post:equal observables => __eq__ true (a cache hit is not lost)", p, z3.Implies(z3.And(*conds), r), "post")


class TensorEq(_Eq):
    id = "C06.P.key_tensor"
    cls = "Tensor"
    fields = {"origin": "obj", "shape": "seq"}
    describe = "Tensor.__eq__(other Tensor) <=> same origin and same shape"


class ConvertibleTensorEq(_Eq):
    id = "C06.P.key_convertible"
    cls = "ConvertibleTensor"
    fields = {"origin": "obj", "concrete": "obj", "shape": "obj"}
    describe = ("ConvertibleTensor.__eq__(other ConvertibleTensor) <=> same origin, same FROZEN concrete descriptor (type and factory signature after _freeze_value - the value that is also hashed; "
                "_freeze_value keeps types, names, kinds and scalar defaults apart, C06.P.freeze, and turns array-valued parameter defaults into tuples so that the comparison is a bool) and same shape")

    def setup(self, eng, bound=None):
        env, pre, ghost = _Eq.setup(self, eng, bound)
        self.frozen = uf("frozen_value", Obj, Obj)
        eng.contracts["_freeze_value"] = SContract(lambda e, p, av, kw: SObj(self.frozen(av[0].t)), "_freeze_value (C06.P.freeze: a function of its argument)")
        return env, pre, ghost

    def post(self, eng, out, p):
        if not isinstance(out, Return):
            return
        r = eng.truth(out.v)
        conds = [eng.values_eq(self.a.f["origin"], self.b.f["origin"], p), self.frozen(self.a.f["concrete"].t) == self.frozen(self.b.f["concrete"].t), eng.values_eq(self.a.f["shape"], self.b.f["shape"], p)]
        eng.oblige("post:__eq__ true => every observable field of the key is equal (origin, frozen concrete descriptor, shape)", p, z3.Implies(r, z3.And(*conds)), "post")
        eng.oblige("post:equal observables => __eq__ true (a cache hit is not lost)", p, z3.Implies(z3.And(*conds), r), "post")


class OtherClass(Kernel):
    """__eq__ against an object of another class is False"""
    prop = "C06"
    file = T_FILE
    module = "einx._src.tracer.signature.classical.tensor"

    def __init__(self, cls, fields):
        self.cls, self.fields = cls, fields
        self.id = f"C06.P.key_{cls.lower()}_otherclass"
        self.qual = f"{cls}/__eq__"
        self.describe = f"{cls}.__eq__(x) is False for x of another class"

    def setup(self, eng, bound=None):
        a = rec(self.cls, "self", self.fields)
        if self.fields.get("shape") == "obj":
            eng.seq_attrs = {}
        o = z3.Const("other_any", Obj)
        self.isit = uf("is_" + self.cls, Obj, B)(o)
        return {"self": a, "other": SObj(o)}, [], {}

    def post(self, eng, out, p):
        if isinstance(out, Return):
            eng.oblige("post:__eq__ true => other is an instance of the class", p, z3.Implies(eng.truth(out.v), self.isit), "post")


class TypedScalarEq(Kernel):
    id = "C06.P.key_typed_scalar"
    prop = "C06"
    file = "einx/_src/util/lru_cache.py"
    module = "einx._src.util.lru_cache"
    qual = "_TypedScalar/__eq__"
    describe = ("_TypedScalar.__eq__ true => same Python type, values equal under Python's ==, and the same sign of zero (2, 2.0 and True are different keys, and so are 0.0 and -0.0: "
                "for built-in and numpy scalars of one type, == plus the sign of zero determines the value a traced function can observe; NaN is never == and never shares a key)")

    def setup(self, eng, bound=None):
        self.va, self.vb = z3.Const("va", Obj), z3.Const("vb", Obj)
        a = SRec("_TypedScalar", value=SObj(self.va))
        b = SRec("_TypedScalar", value=SObj(self.vb))
        a.isa = b.isa = ("_TypedScalar",)
        self.pyeq = z3.Function("py_eq", Obj, Obj, B)  # Python's == on the two scalars: NOT identity (0.0 == -0.0, 1 == True)
        self.negz = z3.Function("is_negative_zero", Obj, B)
        eng.opaque_eq = lambda x, y: self.pyeq(x, y)  # noqa
        eng.contracts["_is_negative_zero"] = SContract(lambda e, p, av, kw: SBool(self.negz(av[0].t)), "_is_negative_zero (C06.P.negative_zero)")
        return {"self": a, "other": b}, [], {}

    def post(self, eng, out, p):
        if isinstance(out, Return):
            ty = uf("type_of", Obj, Obj)
            t = eng.truth(out.v)
            eng.oblige("post:__eq__ true => type(self.value) is type(other.value)", p, z3.Implies(t, ty(self.va) == ty(self.vb)), "post")
            eng.oblige("post:__eq__ true => the values are equal under Python's ==", p, z3.Implies(t, self.pyeq(self.va, self.vb)), "post")
            eng.oblige("post:__eq__ true => both or neither value is a negative zero (0.0 and -0.0 are different keys)", p, z3.Implies(t, self.negz(self.va) == self.negz(self.vb)), "post")

    def twin(self, tier):
        """native: the real _TypedScalar on pairs of scalars that are == in Python: equal keys only for values that no function can tell apart"""
        import itertools
        import math
        import numpy as np
        from einx._src.util.lru_cache import _TypedScalar
        vals = [0, 1, 2, -1, True, False, 0.0, -0.0, 1.0, 2.0, 2.5, np.float32(0.0), np.float32(-0.0), np.float64(0.0), np.float64(-0.0), np.int64(0), np.int32(1), np.int64(1), np.bool_(True), np.float32(2.0), float("inf"), -float("inf")]
        n, fails = 0, []
        for a, b in itertools.product(vals, repeat=2):
            n += 1
            same = type(a) is type(b) and a == b and (not isinstance(a, (float, np.floating)) or math.copysign(1.0, float(a)) == math.copysign(1.0, float(b)))
            eq = _TypedScalar(a) == _TypedScalar(b)
            if eq != same:
                fails.append({"detail": f"_TypedScalar({a!r}: {type(a).__name__}) == _TypedScalar({b!r}: {type(b).__name__}) is {eq}, but the two values are {'indistinguishable' if same else 'distinguishable'}"})
            if eq and hash(_TypedScalar(a)) != hash(_TypedScalar(b)):
                fails.append({"detail": f"equal keys with different hashes for {a!r}, {b!r}"})
        return n, fails[:3]


class NegativeZero(Kernel):
    id = "C06.P.negative_zero"
    prop = "C06"
    file = "einx/_src/util/lru_cache.py"
    module = "einx._src.util.lru_cache"
    qual = "_is_negative_zero"
    describe = "_is_negative_zero(x) holds exactly for floating-point x with x == 0 and the sign bit set (np.signbit trusted)"

    def setup(self, eng, bound=None):
        self.x = z3.Const("x", Obj)
        self.isf = uf("is_float", Obj, B)(self.x)
        self.isnf = uf("is_np.floating", Obj, B)(self.x)
        self.eq0 = uf("eq_const[0]", Obj, B)(self.x)
        self.sb = z3.Function("np_signbit", Obj, B)
        eng.contracts["np.signbit"] = SContract(lambda e, p, av, kw: SBool(self.sb(av[0].t)), "np.signbit (trusted numpy)")
        eng.contracts["bool"] = SContract(lambda e, p, av, kw: SBool(e.truth(av[0])))
        return {"x": SObj(self.x)}, [], {}

    def post(self, eng, out, p):
        if isinstance(out, Return):
            eng.oblige("post:result <=> floating-point, == 0, sign bit set", p, eng.truth(out.v) == z3.And(z3.Or(self.isf, self.isnf), self.eq0, self.sb(self.x)), "post")


KERNELS = [TensorEq(), ConvertibleTensorEq(), OtherClass("Tensor", {"origin": "obj", "shape": "seq"}), OtherClass("ConvertibleTensor", {"origin": "obj", "concrete": "obj", "shape": "obj"}), TypedScalarEq(), NegativeZero()]
