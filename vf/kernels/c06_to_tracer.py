"""Sidecar contract for frontend/api.py :: _to_tracer (C06 / C17 / C13): what the compiled-function cache key and the traced graph may know about an argument.

A tensor argument is abstracted to (kind, static shape, concrete type[, parameters of a factory]) and NOTHING else: the tracer that enters the cache key and the graph
holds no reference to the argument's value, so neither the key nor the generated code can depend on tensor contents ('kinds of the arguments' in C17, 'a cache hit is
indistinguishable from a fresh compilation' in C06, 'a callable contributes no size constraints' in C13: its shape is None)."""
import z3
from ..pyvc import *  # noqa
from .base import Kernel

sup = uf("backend_supports", Obj, B)
is_nd = uf("is_np.ndarray", Obj, B)
is_sc = uf("is_python_or_numpy_scalar", Obj, B)
is_call = uf("is_callable", Obj, B)
typeof = uf("type_of", Obj, Obj)
bshape = uf("backend_get_shape", Obj, Obj)
sigof = uf("signature_of", Obj, Obj)


class ToTracer(Kernel):
    id = "C06.P.to_tracer"
    prop = "C06"
    file = "einx/_src/frontend/api.py"
    module = "einx._src.frontend.api"
    qual = "_to_tracer"
    allowed_raises = ("ValueError",)
    describe = ("_to_tracer(x): precedence backend tensor > numpy array > scalar > callable > ValueError; the result is Tensor(shape = backend.get_shape(value)) / ConvertibleTensor(shape = the "
                "array's integer shape, type) / ConvertibleTensor(shape = (), type) / ConvertibleTensor(shape = None, type, parameters = signature) and contains no reference to the value itself "
                "(its origin is None); anything that is not a tensor argument passes through unchanged")
    tensor_arg = True

    def setup(self, eng, bound=None):
        self.v = z3.Const("value", Obj)
        mk = lambda cls: SContract(lambda e, p, av, kw, cls=cls: SRec(cls, args=STup(list(av)), **kw), cls)  # noqa
        eng.contracts.update({"tracer.signature.classical.Tensor": mk("Tensor"), "tracer.signature.classical.ConvertibleTensor": mk("ConvertibleTensor"), "types.SimpleNamespace": mk("SimpleNamespace"),
                              "backend.is_supported_tensor": SContract(lambda e, p, av, kw: SBool(sup(av[0].t)), "backend.is_supported_tensor"),
                              "backend.get_shape": SContract(lambda e, p, av, kw: SObj(bshape(av[0].t)), "backend.get_shape"),
                              "_is_scalar": SContract(lambda e, p, av, kw: SBool(is_sc(av[0].t)), "_is_scalar"), "callable": SContract(lambda e, p, av, kw: SBool(is_call(av[0].t)), "callable"),
                              "_get_signature": SContract(lambda e, p, av, kw: SObj(sigof(av[0].t)), "_get_signature"), "type": SContract(lambda e, p, av, kw: SObj(typeof(av[0].t)), "type()")})
        if self.tensor_arg:
            x = SRec("TensorArg", value=SObj(self.v))
            x.isa = ("TensorArg",)
        else:
            x = SObj(z3.Const("other_argument", Obj))
        self.x = x
        pre = [] if self.tensor_arg else [z3.Not(uf("is_TensorArg", Obj, B)(x.t))]
        return {"x": x, "backend": SObj(z3.Const("backend", Obj)), "name": SConc("1st positional argument")}, pre, {}

    @staticmethod
    def mentions(v, term):
        """does the symbolic value contain the z3 term `term` as a bare sub-term (i.e. the argument's value itself, not a function of it)?"""
        import z3 as _z
        if isinstance(v, SObj):
            return v.t.eq(term)
        if isinstance(v, (SInt, SBool)):
            return False
        if isinstance(v, SRec):
            return any(ToTracer.mentions(f, term) for f in v.f.values())
        if isinstance(v, STup):
            return any(ToTracer.mentions(f, term) for f in v.items)
        if isinstance(v, SSeq):
            return v.ek == "obj" and False
        if isinstance(v, SDict):
            return any(ToTracer.mentions(f, term) for f in v.d.values())
        return False

    def post(self, eng, out, p):
        v = self.v
        if not self.tensor_arg:
            ok = not isinstance(out, Raise) and isinstance(out.v, SObj)
            eng.oblige("post:anything that is not a tensor argument passes through unchanged", p, out.v.t == self.x.t if ok else z3.BoolVal(False), "post")
            return
        if isinstance(out, Raise):
            eng.oblige("post:ValueError only for a value that is neither a backend tensor, a numpy array, a scalar nor a callable", p, z3.Not(z3.Or(sup(v), is_nd(v), is_sc(v), is_call(v))), "post")
            return
        r = out.v
        if not isinstance(r, SRec):
            eng.oblige("post:returns a tracer", p, z3.BoolVal(False), "post")
            return
        eng.oblige("post:the tracer holds no reference to the argument's value (only functions of it: shape, type, signature)", p, z3.BoolVal(not self.mentions(r, v)), "post")
        origin = r.f["args"].items[0] if r.f["args"].items else None
        eng.oblige("post:the tracer is a graph input (origin None)", p, z3.BoolVal(isinstance(origin, SConc) and origin.v is None and len(r.f["args"].items) == 1), "post")
        shape = r.f.get("shape")
        if r.cls == "Tensor":
            eng.oblige("post:Tensor only for a value the backend supports, with the backend's shape of it", p, z3.And(sup(v), shape.t == bshape(v)) if isinstance(shape, SObj) else z3.BoolVal(False), "post")
            return
        conc = r.f.get("concrete")
        good = isinstance(conc, SRec) and conc.cls == "SimpleNamespace" and isinstance(conc.f.get("type"), SObj)
        eng.oblige("post:a convertible argument records the concrete type of the value", p, conc.f["type"].t == typeof(v) if good else z3.BoolVal(False), "post")
        if isinstance(shape, SConc) and shape.v is None:
            eng.oblige("post:shape None only for a callable that is neither backend tensor, array nor scalar; its signature is recorded", p,
                       z3.And(z3.Not(sup(v)), z3.Not(is_nd(v)), z3.Not(is_sc(v)), is_call(v), conc.f["parameters"].t == sigof(v)) if good and isinstance(conc.f.get("parameters"), SObj) else z3.BoolVal(False), "post")
        elif isinstance(shape, STup) and not shape.items:
            eng.oblige("post:shape () only for a scalar that is neither backend tensor nor array", p, z3.And(z3.Not(sup(v)), z3.Not(is_nd(v)), is_sc(v)), "post")
        else:
            sq = eng.as_seq(shape, p)
            src = eng.as_seq(SObj(uf("attr_shape", Obj, Obj)(v)), p, "int")
            k = fresh("k")
            eng.oblige("post:an array that the backend does not support natively is recorded with its own shape as a tuple of integers", p,
                       z3.And(z3.Not(sup(v)), is_nd(v), z3.BoolVal(sq.pykind == "tuple"), sq.n == src.n, z3.ForAll([k], z3.Implies(z3.And(0 <= k, k < sq.n), z3.Select(sq.arr, k) == z3.Select(src.arr, k)))), "post")

    def twin(self, tier):
        import numpy as np
        import einx
        import einx._src.frontend.api as A
        import einx._src.frontend.backend as B
        be = B.registry.get("numpy")
        n, fails = 0, []
        for val, want in [(np.zeros((2, 3)), ("Tensor", (2, 3))), (3, ("ConvertibleTensor", ())), (2.5, ("ConvertibleTensor", ())), (lambda shape: 0, ("ConvertibleTensor", None))]:
            n += 1
            t = A._to_tracer(A.TensorArg(val), be, "x")
            shp = None if t.shape is None else tuple(t.shape)
            if (type(t).__name__, shp) != want or t.origin is not None or any(v is val for v in vars(t).values()):
                fails.append({"detail": f"_to_tracer({type(val).__name__}) -> {type(t).__name__} shape {shp}"})
        n += 1
        try:
            A._to_tracer(A.TensorArg("text"), be, "x")
            fails.append({"detail": "a string was accepted as a tensor argument"})
        except ValueError:
            pass
        return n, fails[:3]


class ToTracerOther(ToTracer):
    id = "C06.P.to_tracer[not a tensor argument]"
    tensor_arg = False


KERNELS = [ToTracer(), ToTracerOther()]
