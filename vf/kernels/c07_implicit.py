"""Sidecar contract for einx_from_namedtensor.py :: _parse_op (C07 / C03 / C16): the implicit output of element-wise operations.

Local region "use one of the input expressions if it contains the axis names of all others and if this choice is unique" (2 and 3 input expressions):
  valid(i)  :=  for every j != i: names(j) is a subset of names(i),   names(r) = { node.name : node in r.nodes(), node is an Axis, node.value != 1 }
  (step A: the comprehension builds exactly names(r); step B: the selection logic over the abstract subset relation)
  normal exit  =>  some valid i exists, ALL valid inputs are equal expressions (==), and the output is a copy of that expression
  SemanticError =>  no input is valid, or two valid inputs are different expressions
so the result never depends on which of several candidates a set hands out first (C16), and an ambiguous implicit output is rejected (C03)."""
import ast
import z3
from ..pyvc import *  # noqa
from .base import Kernel


class ImplicitOutput(Kernel):
    prop = "C07"
    file = "einx/_src/adapter/einx_from_namedtensor.py"
    module = "einx._src.adapter.einx_from_namedtensor"
    qual = "_parse_op"
    allowed_raises = ("SemanticError",)
    nin = 2

    def region(self, fnode):
        hits = []
        for n in ast.walk(fnode):
            if isinstance(n, (ast.If,)):
                for blk in (n.body, n.orelse):
                    idx = [i for i, st in enumerate(blk) if isinstance(st, ast.Assign) and ast.unparse(st.targets[0]) == "in_axis_names"]
                    if idx:
                        end = [j for j, st in enumerate(blk) if isinstance(st, ast.Assign) and ast.unparse(st.targets[0]) == "exprs_out" and "valid_parents" in ast.unparse(st.value)]
                        if end:
                            hits.append(blk[idx[0] : end[0] + 1])
        if len(hits) != 1:
            raise LookupError("anchor `in_axis_names = ...` ... `exprs_out = [valid_parents.pop()...]` not found exactly once in _parse_op")
        return hits[0]

    def setup(self, eng, bound=None):
        k = self.nin
        self.roots = [z3.Const(f"expr_in{i}", Obj) for i in range(k)]
        nodes = uf("nodes_of", Obj, z3.ArraySort(I, Obj))
        nn = uf("n_nodes_of", Obj, I)
        is_axis = uf("is_stage1.Axis", Obj, B)
        name = uf("attr_name", Obj, Obj)
        value1 = uf("value_is_1", Obj, B)
        self.copy = uf("deepcopy", Obj, Obj)

        def c_nodes(e, p, av, kw):
            r = p.lookup("root").t
            p.pc.append(nn(r) >= 0)
            return SSeq(nodes(r), nn(r), "obj", "list")

        def in_names(i, x):
            t = fresh("t")
            r = self.roots[i]
            return z3.Exists([t], z3.And(0 <= t, t < nn(r), is_axis(z3.Select(nodes(r), t)), z3.Not(value1(z3.Select(nodes(r), t))), name(z3.Select(nodes(r), t)) == x))

        self.in_names = in_names
        eng.contracts.update({"root.nodes": SContract(c_nodes, "root.nodes() (node sequence of an input expression)"),
                              "SemanticError": SContract(lambda e, p, av, kw: SObj(fresh("err", Obj)))})
        eng.opaque_seq_kind = "obj"
        # `expr.value != 1` on an opaque node: a deterministic Boolean of the node
        orig_compare = eng.compare

        def compare(op, a, b, p):
            if isinstance(a, SObj) and isinstance(b, (SInt, SConc)) and isinstance(op, (ast.NotEq, ast.Eq)) and "attr_value" in str(a.t):
                e_ = value1(a.t.arg(0))
                return z3.Not(e_) if isinstance(op, ast.NotEq) else e_
            return orig_compare(op, a, b, p)

        eng.compare = compare
        eng.local_types = {"valid_parents": ("set", "obj")}
        # ghost step in front of `valid_parents = set()`: (A) each in_axis_names[i] IS names(i) - an obligation; then the sets are replaced by opaque handles
        # whose subset relation is the uninterpreted sub(j, i) (definitionally names(j) <= names(i)), so that the selection logic (B) is decided propositionally
        self.h = [z3.Const(f"names_of_input{i}", Obj) for i in range(k)]
        sub = self.sub = z3.Function("names_subset", Obj, Obj, B)

        def ghost(e, p):
            sets = p.lookup("in_axis_names")
            okk = isinstance(sets, STup) and len(sets.items) == k and all(isinstance(q, SSet) for q in sets.items)
            e.oblige("ghost:in_axis_names holds one set per input expression", p, z3.BoolVal(okk), "post")
            if not okk:
                raise OutOfSubset("in_axis_names is not a list of sets")
            for i, st in enumerate(sets.items):
                x = fresh("x", Obj)
                mem = z3.Select(st.member, x) if st.member is not None else z3.BoolVal(False)
                e.oblige(f"ghost:in_axis_names[{i}] = names of the Axis nodes of input {i} whose value is not 1", p, z3.ForAll([x], mem == in_names(i, x)), "post")
            p.bind("in_axis_names", STup([SObj(hh) for hh in self.h], "list"))

        eng.ghost_before = [("valid_parents = set()", ghost)]
        eng.contracts["child.issubset"] = SContract(lambda e, p, av, kw: SBool(sub(p.lookup("child").t, av[0].t)), "names(child) <= names(parent)")
        env = {"exprs_in": STup([SObj(r) for r in self.roots], "list"), "invocation": SObj(z3.Const("invocation", Obj)), "stage1": SObj(z3.Const("stage1", Obj))}
        return env, [], {}

    def valid(self, i):
        return z3.And(*[self.sub(self.h[j], self.h[i]) for j in range(self.nin) if j != i])

    def post(self, eng, out, p):
        k = self.nin
        V = [self.valid(i) for i in range(k)]
        R = self.roots
        some = z3.Or(*V)
        agree = z3.And(*[z3.Implies(z3.And(V[i], V[j]), R[i] == R[j]) for i in range(k) for j in range(i + 1, k)])
        if isinstance(out, Raise):
            eng.oblige("post:SemanticError only if no input contains all other inputs' axis names, or two such inputs are different expressions", p, z3.Not(z3.And(some, agree)), "post")
            return
        eo = p.lookup("exprs_out")
        ok = isinstance(eo, STup) and len(eo.items) == 1 and isinstance(eo.items[0], SObj)
        eng.oblige("post:exactly one output expression is produced", p, z3.BoolVal(ok), "post")
        if not ok:
            return
        o = eo.items[0].t
        eng.oblige("post:normal exit only if a valid input exists and all valid inputs are the same expression", p, z3.And(some, agree), "post")
        cp = uf("call_meth___deepcopy__[o,|]", Obj, Obj)
        eng.oblige("post:the output is a copy of a valid input expression", p, z3.Or(*[z3.And(V[i], z3.Or(o == cp(R[i]), o == self.copy(R[i]))) for i in range(k)]), "post")

    def twin(self, tier):
        """native: element-wise calls without '->' on 2-3 inputs over a small alphabet of expressions: accepted iff a unique superset expression exists"""
        import itertools
        import numpy as np
        import einx
        n, fails = 0, []
        pool = ["a", "b", "a b", "b a", "a b c", "(a b)", "a 1", "1 a", "b c"]
        sizes = {"a": 2, "b": 3, "c": 2}

        def shape(e):
            out = []
            for tok in e.replace("(", " ( ").replace(")", " ) ").split():
                out.append(tok)
            # only flat expressions and one group
            if "(" in e:
                return (sizes["a"] * sizes["b"],)
            return tuple(1 if t == "1" else sizes[t] for t in e.split())

        def names(e):
            return {t for t in e.replace("(", " ").replace(")", " ").split() if t != "1"}

        for k in (2, 3):
            for combo in itertools.product(pool, repeat=k):
                if k == 3 and n > 400 and tier == "quick":
                    break
                n += 1
                valid = [e for i, e in enumerate(combo) if all(names(c) <= names(e) for j, c in enumerate(combo) if j != i)]
                if len(set(valid)) == 1 and len(valid) > 1 and "1" in valid[0]:
                    continue  # identical texts with a '1': the unnamed axes get different internal names, einx treats the two inputs as different expressions (rejects) - not judged
                expect_ok = len(set(valid)) == 1
                try:
                    einx.add(", ".join(combo), *[np.ones(shape(e)) for e in combo], **({"a": 2} if any("(" in e for e in combo) else {}))
                    got_ok = True
                except einx.errors.SemanticError:
                    got_ok = False
                except Exception:  # noqa  other errors (shape conflicts of the alphabet) are not about the implicit output
                    continue
                if got_ok != expect_ok:
                    fails.append({"detail": f"einx.add({', '.join(combo)!r}) without '->': {'computed' if got_ok else 'rejected'}, but the inputs containing all other axis names are {valid}"})
        return n, fails[:3]


def _mk(nin):
    return type(f"ImplicitOutput{nin}", (ImplicitOutput,), {"nin": nin, "id": f"C07.P.implicit_output[{nin} inputs]",
                "describe": f"implicit output of element-wise operations ({nin} input expressions): a copy of THE input expression whose axis names (1s excluded) contain those of all other inputs; SemanticError iff none or two different ones qualify"})()


KERNELS = [_mk(2), _mk(3)]
