"""Sidecar contracts for einx/_src/adapter/_util.py :: _squeeze_transpose_broadcast (C08 / C01): the axis alignment by (name, occurrence).

Two kernels on the real source:
  C08.P.align      local region "transpose axes if necessary": the permutation handed to classical.transpose
  C08.P.axis_ids   the nested helper _to_axis_ids: the (name, occurrence) pairs it returns are pairwise distinct (precondition used by C08.P.align)
"""
import ast
import z3
from ..pyvc import *  # noqa
from .base import Kernel

F = "einx/_src/adapter/_util.py"
M = "einx._src.adapter._util"


class Align(Kernel):
    id = "C08.P.align"
    prop = "C08"
    file, module = F, M
    qual = "_squeeze_transpose_broadcast"
    allowed_raises = ("ValueError",)
    describe = ("axis alignment: for input axis ids I (pairwise distinct) and output axis ids O, classical.transpose receives perm with len(perm) = len(I), every entry in range, "
                "pairwise distinct (a permutation of range(len(I))), and I[perm[j]] is the j-th id of O that also occurs in I (output order is kept); "
                "ValueError iff some input id does not occur in the output")

    def region(self, fnode):
        body = fnode.body
        a = [i for i, st in enumerate(body) if isinstance(st, ast.Assign) and ast.unparse(st) == "in_axes = _to_axis_ids(expr_in)"]
        b = [i for i, st in enumerate(body) if isinstance(st, ast.Assign) and ast.unparse(st).startswith("tensor = classical.transpose(")]
        if len(a) != 1 or len(b) != 1 or b[0] < a[0]:
            raise LookupError("anchors `in_axes = _to_axis_ids(expr_in)` / `tensor = classical.transpose(...)` not found exactly once, in this order")
        return body[a[0] : b[0] + 1]

    def setup(self, eng, bound=None):
        n, m = z3.Ints("n_in n_out")
        ia, oa = z3.Array("in_ids", I, Obj), z3.Array("out_ids", I, Obj)
        self.n, self.m, self.ia, self.oa = n, m, ia, oa
        ein, eout = z3.Const("expr_in", Obj), z3.Const("expr_out", Obj)
        eng.abstract_raise_blocks = True

        def c_ids(e, p, av, kw):
            if isinstance(av[0], SObj) and z3.eq(av[0].t, ein):
                return SSeq(ia, n, "obj", "list")
            if isinstance(av[0], SObj) and z3.eq(av[0].t, eout):
                return SSeq(oa, m, "obj", "list")
            raise OutOfSubset("_to_axis_ids on an unexpected argument")

        def c_transpose(e, p, av, kw):
            p.ghost["transpose"] = av
            return SObj(fresh("transposed", Obj))

        i, j = z3.Ints("i j")
        distinct = lambda arr, ln: z3.ForAll([i, j], z3.Implies(z3.And(0 <= i, i < j, j < ln), arr[i] != arr[j]))  # noqa
        env = {"expr_in": SObj(ein), "expr_out": SObj(eout), "tensor": SObj(z3.Const("tensor", Obj)), "_to_axis_ids": SContract(c_ids, "_to_axis_ids (C08.P.axis_ids: pairwise distinct ids)"),
               "classical": SRec("classical", transpose=SContract(c_transpose, "classical.transpose"))}
        return env, [n >= 0, m >= 0, distinct(ia, n), distinct(oa, m)], {}

    def post(self, eng, out, p):
        n, m, ia, oa = self.n, self.m, self.ia, self.oa
        k, t = fresh("k"), fresh("t")
        covered = z3.ForAll([k], z3.Implies(z3.And(0 <= k, k < n), z3.Exists([t], z3.And(0 <= t, t < m, oa[t] == ia[k]))))
        if isinstance(out, Raise):
            eng.oblige("post:ValueError only if some input axis id is missing from the output", p, z3.Not(covered), "post")
            return
        tr = p.ghost.get("transpose")
        if tr is None:
            eng.oblige("post:classical.transpose is applied", p, z3.BoolVal(False), "post")
            return
        perm = eng.as_seq(tr[1], p)
        a, b = fresh("a"), fresh("b")
        eng.oblige("post:normal exit only if every input axis id occurs in the output", p, covered, "post")
        # ghost lemma L1 (pigeonhole): the ids kept from the output are duplicate-free and have the same members as the input ids, hence as many
        X = eng.as_seq(p.lookup("out_axes_intersect"), p)
        x = fresh("x", Obj)
        mem = lambda arr, ln, v: z3.Exists([t], z3.And(0 <= t, t < ln, z3.Select(arr, t) == v))  # noqa
        eng.oblige("lemma-premise:L1:the kept output ids are pairwise distinct", p, z3.ForAll([a, b], z3.Implies(z3.And(0 <= a, a < b, b < X.n), z3.Select(X.arr, a) != z3.Select(X.arr, b))), "post")
        eng.oblige("lemma-premise:L1:kept output ids and input ids have the same members", p, z3.ForAll([x], mem(X.arr, X.n, x) == mem(ia, n, x)), "post")
        p = p.fork()
        from .. import lemmas
        eng.assumed.add("ghost lemma L1 nodup_same_members_same_length (lemmas/Lemmas.lean, checked by Lean 4 + Mathlib); premises are obligations of this kernel")
        p.pc.append(X.n == n)
        eng.oblige("post:len(perm) = number of input axes", p, perm.n == n, "post")
        eng.oblige("post:every entry of perm is in range", p, z3.ForAll([a], z3.Implies(z3.And(0 <= a, a < perm.n), z3.And(0 <= z3.Select(perm.arr, a), z3.Select(perm.arr, a) < n))), "post")
        eng.oblige("post:perm[a] is the input position of the a-th kept output id", p, z3.ForAll([a], z3.Implies(z3.And(0 <= a, a < perm.n), ia[z3.Select(perm.arr, a)] == z3.Select(X.arr, a))), "post")
        p2 = p.fork()
        p2.pc.append(z3.ForAll([a], z3.Implies(z3.And(0 <= a, a < perm.n), ia[z3.Select(perm.arr, a)] == z3.Select(X.arr, a))))
        p2.pc.append(z3.ForAll([a, b], z3.Implies(z3.And(0 <= a, a < b, b < X.n), z3.Select(X.arr, a) != z3.Select(X.arr, b))))
        eng.oblige("post:perm has pairwise distinct entries (with the range obligation: a permutation of range(n))", p2,
                   z3.ForAll([a, b], z3.Implies(z3.And(0 <= a, a < b, b < perm.n), z3.Select(perm.arr, a) != z3.Select(perm.arr, b))), "post")
        # order: the kept ids are a subsequence of the output ids (strictly increasing positions)
        eng.oblige("post:kept output ids appear in output order (a subsequence of the output ids)", p,
                   z3.ForAll([a, b], z3.Implies(z3.And(0 <= a, a < b, b < X.n), z3.Exists([k, t], z3.And(0 <= k, k < t, t < m, oa[k] == z3.Select(X.arr, a), oa[t] == z3.Select(X.arr, b))))), "post")

    def twin(self, tier):
        """native: the real function with a recording classical; all pairs of id lists over a small alphabet with repetitions"""
        import itertools
        import einx._src.adapter._util as U
        import einx._src.namedtensor.stage3 as stage3

        class Rec:
            def __init__(self):
                self.perm = None

            def transpose(self, t, perm):
                self.perm = tuple(perm)
                return t

            def reshape(self, t, shape):
                return t

            def broadcast_to(self, t, shape):
                return t

        def mk(names):
            return stage3.List.create([stage3.Axis(nm, 2) for nm in names])

        n, fails = 0, []
        alpha = "abc"
        maxlen = 3 if tier == "quick" else 4
        for li in range(0, maxlen + 1):
            for ins in itertools.product(alpha, repeat=li):
                for perm_out in set(itertools.permutations(ins)):
                    for extra in ([], ["z"], ["z", "a"] if "a" not in ins else ["z", "y"]):
                        outs = list(perm_out) + extra
                        n += 1
                        rec = Rec()
                        try:
                            U._squeeze_transpose_broadcast(rec, mk(ins), object(), mk(outs))
                        except Exception as e:  # noqa
                            fails.append({"detail": f"_squeeze_transpose_broadcast({ins} -> {outs}) raised {type(e).__name__}: {e}"})
                            continue

                        def ids(names):
                            c, r = {}, []
                            for x in names:
                                r.append((x, c.get(x, 0)))
                                c[x] = c.get(x, 0) + 1
                            return r

                        I_, O_ = ids(ins), ids(outs)
                        exp = tuple(I_.index(o) for o in O_ if o in I_)
                        if rec.perm != exp:
                            fails.append({"detail": f"_squeeze_transpose_broadcast({ins} -> {outs}): transpose received {rec.perm}, expected {exp}"})
        return n, fails[:3]


class AxisIds(Kernel):
    id = "C08.P.axis_ids"
    prop = "C08"
    file, module = F, M
    qual = "_squeeze_transpose_broadcast/_to_axis_ids"
    describe = ("_to_axis_ids returns one (name, occurrence) pair per Axis node, in node order: the t-th pair belongs to the t-th Axis node j and its occurrence number equals "
                "cnt(j, name) = the number of earlier Axis nodes of the same name; the pairs are pairwise distinct (the precondition of C08.P.align)")

    def setup(self, eng, bound=None):
        n = z3.Int("n_nodes")
        nodes = z3.Array("nodes", I, Obj)
        self.n, self.nodes = n, nodes
        is_axis = self.is_axis = uf("is_stage3.Axis", Obj, B)
        name = self.name = uf("attr_name", Obj, Obj)
        eng.contracts["expr.nodes"] = SContract(lambda e, p, av, kw: SSeq(nodes, n, "obj", "list"), "expr.nodes() (node sequence in traversal order)")
        eng.local_types = {"counts": ("map", "obj", "int"), "axes": ("zip", ["obj", "int"])}
        # ghost spec functions (recursive definitions as axioms)
        cnt = self.cnt = z3.Function("cnt", I, Obj, I)  # cnt(i, x) = #{t < i : nodes[t] is an Axis named x}
        acnt = self.acnt = z3.Function("acnt", I, I)  # acnt(i)  = #{t < i : nodes[t] is an Axis}
        i, x = z3.Int("i"), z3.Const("x", Obj)
        eng.axioms += [z3.ForAll([x], cnt(0, x) == 0), acnt(0) == 0,
                       z3.ForAll([i, x], z3.Implies(z3.And(0 <= i, i < n), cnt(i + 1, x) == cnt(i, x) + z3.If(z3.And(is_axis(nodes[i]), name(nodes[i]) == x), 1, 0))),
                       z3.ForAll([i], z3.Implies(z3.And(0 <= i, i < n), acnt(i + 1) == acnt(i) + z3.If(is_axis(nodes[i]), 1, 0)))]

        def inv(e, p, it):
            counts, axes = p.lookup("counts"), p.lookup("axes")
            nm, oc = axes.arrs
            t, u, j, y = fresh("t"), fresh("u"), fresh("j"), fresh("y", Obj)
            return z3.And(
                axes.n == acnt(it), axes.n >= 0,
                # J1 the dictionary is the counting function
                z3.ForAll([y], z3.If(z3.Select(counts.has, y), z3.Select(counts.val, y), 0) == cnt(it, y)),
                z3.ForAll([y], cnt(it, y) >= 0),
                # J2 functional: pair t belongs to the t-th Axis node
                z3.ForAll([t], z3.Implies(z3.And(0 <= t, t < axes.n), z3.Exists([j], z3.And(0 <= j, j < it, is_axis(nodes[j]), acnt(j) == t, z3.Select(nm, t) == name(nodes[j]), z3.Select(oc, t) == cnt(j, name(nodes[j])))))),
                # J3 every recorded occurrence number is below the current count of its name (gives distinctness)
                z3.ForAll([t], z3.Implies(z3.And(0 <= t, t < axes.n), z3.And(0 <= z3.Select(oc, t), z3.Select(oc, t) < cnt(it, z3.Select(nm, t))))),
                z3.ForAll([t, u], z3.Implies(z3.And(0 <= t, t < u, u < axes.n), z3.Or(z3.Select(nm, t) != z3.Select(nm, u), z3.Select(oc, t) != z3.Select(oc, u)))))

        eng.invariants[0] = inv
        return {"expr": SObj(z3.Const("expr", Obj)), "stage3": SObj(z3.Const("stage3", Obj))}, [n >= 0], {}

    def post(self, eng, out, p):
        if not isinstance(out, Return) or not isinstance(out.v, SZip):
            eng.oblige("post:returns the list of pairs", p, z3.BoolVal(False), "post")
            return
        axes = out.v
        nm, oc = axes.arrs
        t, u, j = fresh("t"), fresh("u"), fresh("j")
        eng.oblige("post:one pair per Axis node", p, axes.n == self.acnt(self.n), "post")
        eng.oblige("post:the t-th pair is (name, number of earlier Axis nodes of that name) of the t-th Axis node", p,
                   z3.ForAll([t], z3.Implies(z3.And(0 <= t, t < axes.n), z3.Exists([j], z3.And(0 <= j, j < self.n, self.is_axis(self.nodes[j]), self.acnt(j) == t,
                                                                                             z3.Select(nm, t) == self.name(self.nodes[j]), z3.Select(oc, t) == self.cnt(j, self.name(self.nodes[j])))))), "post")
        eng.oblige("post:the pairs are pairwise distinct", p, z3.ForAll([t, u], z3.Implies(z3.And(0 <= t, t < u, u < axes.n), z3.Or(z3.Select(nm, t) != z3.Select(nm, u), z3.Select(oc, t) != z3.Select(oc, u)))), "post")

    def twin(self, tier):
        """native: the closure is not reachable by name; its effect is observed through the real _squeeze_transpose_broadcast in C08.P.align's twin"""
        return 0, []


KERNELS = [Align(), AxisIds()]
