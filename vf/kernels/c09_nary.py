"""Sidecar contract for adapter/_util.py :: _associative_binary_to_nary/nary_op (C09 / C01): n-ary add, multiply, maximum, ... are left folds of a BINARY numpy function -
the ufunc never receives a third positional array (which it would use as output buffer), for any number of operands."""
import ast
import z3
from ..pyvc import *  # noqa
from .base import Kernel

binop = uf("binary_op_result", Obj, Obj, Obj)


class NaryFold(Kernel):
    id = "C09.P.nary_fold"
    prop = "C09"
    file = "einx/_src/adapter/_util.py"
    module = "einx._src.adapter._util"
    qual = "_associative_binary_to_nary/nary_op"
    allowed_raises = ("IndexError",)
    describe = ("nary_op(*args), ANY number of operands: the result is the left fold binary_op(...binary_op(binary_op(a0, a1), a2)..., a_{n-1}); the binary function is applied only to exactly two "
                "operands (the accumulated value and the next caller operand, in order) - never to three or more positional arrays; one operand is returned as it is; IndexError only without operands")

    def setup(self, eng, bound=None):
        self.n = z3.Int("n")
        self.a = z3.Array("args", I, Obj)
        self.F = z3.Function("fold", I, Obj)   # fold(k) = value after consuming operands 0..k
        k = z3.Int("k")
        eng.axioms += [self.F(0) == z3.Select(self.a, 0), z3.ForAll([k], z3.Implies(k >= 0, self.F(k + 1) == binop(self.F(k), z3.Select(self.a, k + 1))))]
        orig_apply = eng.apply

        def apply(f, av, kw, p, n):
            if isinstance(f, SObj) and isinstance(n.func, ast.Name) and n.func.id == "binary_op":
                eng.oblige("callee-pre:the binary function receives exactly two positional operands and no keyword", p, z3.BoolVal(len(av) == 2 and not kw and all(isinstance(x, SObj) for x in av)), "callee-pre")
                p.ghost["calls"] = p.ghost.get("calls", 0) + 1
                yield SObj(binop(av[0].t, av[1].t)), p
                return
            yield from orig_apply(f, av, kw, p, n)

        eng.apply = apply

        def inv(s, p, i):
            x = p.lookup("x")
            return x.t == self.F(i) if isinstance(x, SObj) else z3.BoolVal(False)

        eng.invariants[0] = inv
        return {"args": SSeq(self.a, self.n, "obj", "tuple"), "binary_op": SObj(z3.Const("numpy_binary_function", Obj))}, [self.n >= 0], {}

    def post(self, eng, out, p):
        if isinstance(out, Raise):
            eng.oblige("post:IndexError only without operands", p, self.n == 0, "post")
            return
        r = out.v
        eng.oblige("post:normal exit only with at least one operand", p, self.n >= 1, "post")
        eng.oblige("post:the result is the left fold over all operands in order", p, r.t == self.F(self.n - 1) if isinstance(r, SObj) else z3.BoolVal(False), "post")

    def twin(self, tier):
        from einx._src.adapter._util import _associative_binary_to_nary
        n, fails = 0, []
        calls = []

        def b(*xs):
            calls.append(xs)
            return f"({xs[0]}+{xs[1]})" if len(xs) == 2 else "BAD"

        f = _associative_binary_to_nary(b)
        for k in range(1, 7):
            n += 1
            calls.clear()
            ops = [f"a{i}" for i in range(k)]
            want = ops[0]
            for o in ops[1:]:
                want = f"({want}+{o})"
            if f(*ops) != want or any(len(c) != 2 for c in calls) or len(calls) != k - 1:
                fails.append({"detail": f"{k} operands: result {f(*ops)} / calls {calls}"})
        return n, fails[:3]


KERNELS = [NaryFold()]
