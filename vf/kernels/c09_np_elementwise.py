"""Sidecar contract for adapter/numpy/classical_from_numpy.py :: elementwise/inner (C09: numpy ufuncs treat an extra positional array as an output buffer and would write into a caller's tensor)."""
import z3
from ..pyvc import *  # noqa
from .base import Kernel
from .c01_numpy_wrappers import _W


class NpElementwise(_W):
    prop = "C09"
    qual = "elementwise/inner"
    allowed_raises = ("ValueError",)
    count, fixed = 2, 2

    def setup(self, eng, bound=None):
        self.common(eng)
        self.xs = [SRec("tensor", tag=SConc(i)) for i in range(self.count)]
        return {"xs": STup(self.xs, "tuple"), "op": eng.contracts["op"], "to_tensor": eng.contracts["to_tensor"], "num_args": SConc(self.fixed) if self.fixed is not None else SConc(None)}, [], {}

    def post(self, eng, out, p):
        wrong = self.fixed is not None and self.count != self.fixed
        if isinstance(out, Raise):
            eng.oblige("post:ValueError only for an operand count that differs from the operation's fixed arity", p, z3.BoolVal(wrong), "post")
            eng.oblige("post:nothing reaches numpy when the call is refused", p, z3.BoolVal(not p.ghost.get("op_calls")), "post")
            return
        eng.oblige("post:normal exit only for the operation's arity (or an operation without fixed arity)", p, z3.BoolVal(not wrong), "post")
        c = self.one_call(eng, p)
        if c is None:
            return
        av, kw = c
        eng.oblige("post:the numpy function receives exactly the caller's operands, in order, and nothing else (no output buffer, no keyword)", p,
                   z3.BoolVal(len(av) == self.count and all(a is b for a, b in zip(av, self.xs)) and not kw), "post")


def _mk(base, name, **attrs):
    return type(name, (base,), attrs)()


KERNELS = []
for count, fixed in ((1, 2), (2, 2), (3, 2), (1, 1), (2, 1), (3, 3), (4, 3), (2, None), (5, None)):
    KERNELS.append(_mk(NpElementwise, f"NpEw_{count}_{fixed}", count=count, fixed=fixed, id=f"C09.P.np_elementwise[{count} operands, arity {fixed}]",
                       describe=f"numpy elementwise wrapper called with {count} operand(s) for an operation of " + (f"fixed arity {fixed}" if fixed is not None else "variable arity") +
                       ": ValueError iff the count differs from the fixed arity (an extra positional array would be numpy's output buffer); otherwise exactly the operands reach numpy"))
