"""Sidecar contracts for frontend/backend.py :: BackendRegistryState.register / register_on_import / get_by_tensors / get_by_name / get / enter / exit and the BackendRegistry methods
that publish their results (C10 'no backend selection or registration made by one thread is lost', C11): copy-on-write snapshots.

Every public state operation works on a COPY of the state it is called on (the copy constructor's contract: C10.S.snapshot_copy / C11.S.snapshot_copy) and returns that copy; the state it
was called on is never written. Every BackendRegistry method runs `self.state = self.state.<op>(...)` inside the lock (C10.S.lock / lock_reads), so a published snapshot is immutable."""
import z3
from ..pyvc import *  # noqa
from .base import Kernel

OPS = {"register": ("_register", ["backend"], False), "register_on_import": ("_register_on_import", ["module_name", "backend_name", "backend_factory"], False),
       "get_by_tensors": ("_get_by_tensors", ["tensors"], True), "get_by_name": ("_get_by_name", ["name"], True), "get": ("_get", ["backend", "tensors"], True),
       "enter": ("_enter", ["backend"], False), "exit": ("_exit", ["backend"], False)}


class StateOp(Kernel):
    prop = "C10"
    file = "einx/_src/frontend/backend.py"
    module = "einx._src.frontend.backend"
    op = "register"

    @property
    def qual(self):
        return f"BackendRegistryState/{self.op}"

    def setup(self, eng, bound=None):
        inner, params, self.returns_value = OPS[self.op]
        self.me = SRec("BackendRegistryState", tag=SConc("original"))
        self.args = {nm: SObj(z3.Const(f"arg_{nm}", Obj)) for nm in params}
        self.copy = SRec("BackendRegistryState", tag=SConc("copy"))

        def c_copy(e, p, av, kw):
            p.ghost["copied_from"] = list(p.ghost.get("copied_from", [])) + [av[0] if av else None]
            return self.copy

        def c_inner(e, p, av, kw):
            p.ghost["inner"] = list(p.ghost.get("inner", [])) + [(list(av), dict(kw))]
            return SObj(z3.Const("inner_result", Obj))

        eng.contracts.update({"BackendRegistryState": SContract(c_copy, "copy constructor (C10.S.snapshot_copy: own containers)"), f"new_state.{inner}": SContract(c_inner, f"{inner} on the copy")})
        return dict(self=self.me, **self.args), [], {}

    def post(self, eng, out, p):
        if isinstance(out, Raise):
            eng.oblige("post:no exception of the wrapper itself", p, z3.BoolVal(False), "post")
            return
        cf, inner = p.ghost.get("copied_from", []), p.ghost.get("inner", [])
        eng.oblige("post:exactly one copy is made, of the state the operation is called on", p, z3.BoolVal(len(cf) == 1 and cf[0] is self.me), "post")
        ok = len(inner) == 1 and len(inner[0][0]) == len(self.args) and not inner[0][1]
        eng.oblige("post:the state-changing method runs once, on the copy, with the caller's arguments in order", p, z3.And(z3.BoolVal(ok), *[a.t == b.t for a, b in zip(inner[0][0], self.args.values())]) if ok and all(isinstance(a, SObj) for a in inner[0][0]) else z3.BoolVal(False), "post")
        r = out.v
        if self.returns_value:
            good = isinstance(r, STup) and len(r.items) == 2 and r.items[0] is self.copy and isinstance(r.items[1], SObj)
            eng.oblige("post:returns (the copy, the method's result)", p, r.items[1].t == z3.Const("inner_result", Obj) if good else z3.BoolVal(False), "post")
        else:
            eng.oblige("post:returns the copy", p, z3.BoolVal(r is self.copy), "post")
        eng.oblige("post:the state the operation was called on is not written", p, z3.BoolVal(p.lookup("self") is self.me), "post")


class RegistryOp(Kernel):
    prop = "C10"
    file = "einx/_src/frontend/backend.py"
    module = "einx._src.frontend.backend"
    op = "register"

    @property
    def qual(self):
        return f"BackendRegistry/{self.op}"

    def setup(self, eng, bound=None):
        inner, params, self.returns_value = OPS[self.op]
        if self.op == "get_by_tensors":
            params = ["tensor"]
        self.s0 = z3.Const("state_before", Obj)
        self.s1 = z3.Const("state_after", Obj)
        self.res = z3.Const("result", Obj)
        self.args = {nm: SObj(z3.Const(f"arg_{nm}", Obj)) for nm in params}

        def c_op(e, p, av, kw):
            p.ghost["ops"] = list(p.ghost.get("ops", [])) + [(list(av), dict(kw), bool(p.ghost.get("locked")), p.lookup("self").f["state"])]
            return STup([SObj(self.s1), SObj(self.res)], "tuple") if self.returns_value else SObj(self.s1)

        eng.contracts[f"self.state.{self.op}"] = SContract(c_op, f"BackendRegistryState.{self.op} (C10.P.snapshot_op[{self.op}]): a new snapshot" + (" and the result" if self.returns_value else ""))
        orig_assign = eng.assign

        def assign(target, v, p):
            import ast
            if isinstance(target, ast.Attribute) and ast.unparse(target) == "self.state":
                p.ghost["stores"] = list(p.ghost.get("stores", [])) + [(v, bool(p.ghost.get("locked")))]
            return orig_assign(target, v, p)

        eng.assign = assign

        def st_With(st, p):
            import ast
            if len(st.items) != 1 or ast.unparse(st.items[0].context_expr) != "self.use_lock":
                raise OutOfSubset("with statement other than `with self.use_lock`")
            p.ghost["locked"] = True
            for out, q in eng.exec_block(st.body, [p]):
                q.ghost["locked"] = False
                yield out, q

        eng.st_With = st_With
        me = SRec("BackendRegistry", state=SObj(self.s0), use_lock=SObj(z3.Const("lock", Obj)))
        return dict(self=me, **self.args), [], {}

    def post(self, eng, out, p):
        if isinstance(out, Raise):
            eng.oblige("post:no exception of the method itself", p, z3.BoolVal(False), "post")
            return
        ops, stores = p.ghost.get("ops", []), p.ghost.get("stores", [])
        ok = len(ops) == 1 and ops[0][2] and isinstance(ops[0][3], SObj) and len(ops[0][0]) == len(self.args) and not ops[0][1]
        eng.oblige("post:the state operation runs exactly once, inside the lock, on the state read inside the lock, with the caller's arguments", p,
                   z3.And(ops[0][3].t == self.s0, *[a.t == b.t for a, b in zip(ops[0][0], self.args.values())]) if ok and all(isinstance(a, SObj) for a in ops[0][0]) else z3.BoolVal(False), "post")
        ok2 = len(stores) == 1 and stores[0][1] and isinstance(stores[0][0], SObj)
        eng.oblige("post:the new snapshot is published exactly once, inside the same lock", p, stores[0][0].t == self.s1 if ok2 else z3.BoolVal(False), "post")
        st = p.lookup("self").f["state"]
        eng.oblige("post:afterwards the registry holds the snapshot the operation returned", p, st.t == self.s1 if isinstance(st, SObj) else z3.BoolVal(False), "post")
        if self.returns_value:
            eng.oblige("post:the operation's result is returned", p, out.v.t == self.res if isinstance(out.v, SObj) else z3.BoolVal(False), "post")


def _mk(base, name, **attrs):
    return type(name, (base,), attrs)()


KERNELS = [_mk(StateOp, f"StateOp_{op}", op=op, id=f"C10.P.snapshot_op[{op}]", describe=f"BackendRegistryState.{op}: copy the state, apply {OPS[op][0]} to the copy with the caller's arguments, return the copy" + (" and the result" if OPS[op][2] else "") + "; the original state is never written") for op in OPS]
KERNELS += [_mk(RegistryOp, f"RegistryOp_{op}", op=op, id=f"C10.P.registry_op[{op}]", describe=f"BackendRegistry.{op}: inside `with self.use_lock` the current snapshot is read, BackendRegistryState.{op} is applied to it once, and the snapshot it returns is published (atomic read-modify-write)" + ("; its result is returned" if OPS[op][2] else "")) for op in OPS]


class UseBlock(Kernel):
    prop = "C11"
    file = "einx/_src/frontend/backend.py"
    module = "einx._src.frontend.backend"
    which = "__enter__"

    @property
    def qual(self):
        return f"Use/{self.which}"

    def setup(self, eng, bound=None):
        self.b = z3.Const("backend", Obj)

        def c(name):
            return SContract(lambda e, p, av, kw, name=name: (p.ghost.__setitem__("calls", list(p.ghost.get("calls", [])) + [(name, list(av), dict(kw))]), SConc(None))[1], f"registry.{name}")

        eng.contracts.update({"self.registry.enter": c("enter"), "self.registry.exit": c("exit")})
        env = {"self": SRec("Use", backend=SObj(self.b), registry=SObj(z3.Const("registry", Obj)))}
        if self.which == "__exit__":
            env.update(exc_type=SObj(z3.Const("exc_type", Obj)), exc_value=SObj(z3.Const("exc_value", Obj)), traceback=SObj(z3.Const("tb", Obj)))
        return env, [], {}

    def post(self, eng, out, p):
        if isinstance(out, Raise):
            eng.oblige("post:no exception", p, z3.BoolVal(False), "post")
            return
        rv = getattr(out, "v", None)   # falling off the end of the function: None
        calls = p.ghost.get("calls", [])
        want = "enter" if self.which == "__enter__" else "exit"
        ok = len(calls) == 1 and calls[0][0] == want and len(calls[0][1]) == 1 and isinstance(calls[0][1][0], SObj) and not calls[0][2]
        eng.oblige(f"post:`with backend:` {'entering' if want == 'enter' else 'leaving (normally or through an exception)'} calls registry.{want} exactly once, with exactly this backend", p, calls[0][1][0].t == self.b if ok else z3.BoolVal(False), "post")
        if self.which == "__exit__":
            eng.oblige("post:__exit__ does not swallow exceptions (returns a false value)", p, z3.BoolVal(rv is None or (isinstance(rv, SConc) and not rv.v)), "post")


KERNELS += [_mk(UseBlock, "Use_enter", which="__enter__", id="C11.P.use_enter", describe="Use.__enter__: registry.enter(backend) exactly once"),
            _mk(UseBlock, "Use_exit", which="__exit__", id="C11.P.use_exit", describe="Use.__exit__: registry.exit(backend) exactly once, whatever the exception arguments are, and the exception (if any) propagates")]
