"""Sidecar contract for frontend/backend.py :: BackendRegistryState/_get_by_name (C11): 'a registered name is used as given ... an unknown name raises ValueError'."""
import ast
import z3
from ..pyvc import *  # noqa
from .base import Kernel


class ByName(Kernel):
    id = "C11.P.by_name"
    prop = "C11"
    file = "einx/_src/frontend/backend.py"
    module = "einx._src.frontend.backend"
    qual = "BackendRegistryState/_get_by_name"
    allowed_raises = ("ValueError",)
    describe = ("_get_by_name(name): returns the backend registered under exactly that name - in the registry as it is, or, if the name is unknown, in the registry after ONE check for "
                "newly imported frameworks (which only adds names); ValueError iff the name is still unknown after that check; an earlier check in the same lookup is not repeated")
    already_checked = False

    def setup(self, eng, bound=None):
        has0, val0 = z3.Array("registered_before", Obj, B), z3.Array("backend_before", Obj, Obj)
        has1, val1 = z3.Array("registered_after", Obj, B), z3.Array("backend_after", Obj, Obj)
        self.has0, self.val0, self.has1, self.val1 = has0, val0, has1, val1
        self.name = z3.Const("name", Obj)
        changed = self.changed = z3.Bool("new_imports_found")
        x = z3.Const("x", Obj)

        def c_check(e, p, av, kw):
            if p.ghost.get("checked") or self.already_checked:
                return SBool(False)
            p.ghost["checked"] = True
            q = p.fork()
            q.pc.append(changed)
            st = q.lookup("self")
            f = dict(st.f)
            f["name_to_backend"] = SMap(has1, val1, "obj", "obj")
            q.bind("self", SRec(st.cls, **f), nonlocal_=True)
            r = p.fork()
            r.pc.append(z3.Not(changed))
            return [(SBool(True), q), (SBool(False), r)]

        eng.contracts.update({"self._check_new_imports": SContract(c_check, "_check_new_imports (at most one real check per lookup; only adds names)"),
                              "self._invalid_backend_reasons": SContract(lambda e, p, av, kw: SConc("<reasons>")), "list": SContract(lambda e, p, av, kw: SConc("<names>"))})
        # `name in mapping` / `name not in mapping` / mapping.get(name) / mapping.keys() on the symbolic dict
        orig_compare = eng.compare

        def compare(op, a, b, p):
            if isinstance(b, SMap) and isinstance(op, (ast.In, ast.NotIn)) and isinstance(a, SObj):
                e_ = z3.Select(b.has, a.t)
                return e_ if isinstance(op, ast.In) else z3.Not(e_)
            return orig_compare(op, a, b, p)

        eng.compare = compare
        orig_method = eng.method

        def method(n, o, attr, av, kw, p):
            if isinstance(o, SMap) and attr == "get" and len(av) == 1:
                yield SObj(z3.If(z3.Select(o.has, av[0].t), z3.Select(o.val, av[0].t), z3.Const("py_None", Obj))), p
                return
            if isinstance(o, SMap) and attr == "keys":
                yield SConc("<keys>"), p
                return
            yield from orig_method(n, o, attr, av, kw, p)

        eng.method = method
        st = SRec("BackendRegistryState", name_to_backend=SMap(has0, val0, "obj", "obj"))
        env = {"self": st, "name": SObj(self.name), "has_checked_new_imports": SConc(None) if not self.already_checked else SObj(z3.Const("has_checked", Obj))}
        pre = [z3.ForAll([x], z3.Implies(z3.Select(has0, x), z3.And(z3.Select(has1, x), z3.Select(val1, x) == z3.Select(val0, x))))]  # a check only adds names
        return env, pre, {}

    def post(self, eng, out, p):
        nm = self.name
        known0 = z3.Select(self.has0, nm)
        checked = bool(p.ghost.get("checked"))
        known_final = z3.Select(self.has1, nm) if checked else known0
        # on the path where a check ran and found new imports the registry is the updated one; without new imports it is unchanged
        if isinstance(out, Raise):
            eng.oblige("post:ValueError only for a name that is unknown in the registry and still unknown after the check for new imports", p,
                       z3.And(z3.Not(known0), z3.Implies(z3.And(z3.BoolVal(checked), self.changed), z3.Not(z3.Select(self.has1, nm)))), "post")
            return
        r = out.v
        if not isinstance(r, SObj):
            eng.oblige("post:returns a backend object", p, z3.BoolVal(False), "post")
            return
        eng.oblige("post:normal exit only for a registered name (possibly registered by the single check for new imports)", p, z3.Or(known0, z3.And(z3.BoolVal(checked), self.changed, z3.Select(self.has1, nm))), "post")
        eng.oblige("post:the result is the backend registered under exactly that name", p, z3.If(known0, r.t == z3.Select(self.val0, nm), r.t == z3.Select(self.val1, nm)), "post")
        eng.oblige("post:the check for new imports runs only when the name is unknown", p, z3.Implies(z3.BoolVal(checked), z3.Not(known0)), "post")

    def twin(self, tier):
        import sys
        import types
        import einx._src.frontend.backend as Bk
        n, fails = 0, []
        mk = lambda nm: Bk.Backend(ops={}, name=nm, priority=0, optimizations=[], compiler=None, is_supported_tensor=lambda t: False, get_shape=None)  # noqa
        for lazy in (False, True):
            n += 1
            st = Bk.BackendRegistryState()
            st.seen_module_names.update(sys.modules)
            a = mk("alpha")
            st._register(a)
            modname = f"_vf_fake_names_{lazy}"
            b = mk("beta")
            if lazy:
                st._register_on_import(modname, "beta", lambda b=b: b)
                sys.modules[modname] = types.ModuleType(modname)
            try:
                if st._get_by_name("alpha") is not a:
                    fails.append({"detail": "_get_by_name('alpha') does not return the registered backend"})
                try:
                    got = st._get_by_name("beta")
                    if not lazy or got is not b:
                        fails.append({"detail": f"_get_by_name('beta') returned {got} (lazy registration: {lazy})"})
                except ValueError:
                    if lazy:
                        fails.append({"detail": "_get_by_name('beta') raises although the framework module is imported and its backend registered lazily"})
                try:
                    st._get_by_name("gamma")
                    fails.append({"detail": "_get_by_name('gamma') returns for an unknown name"})
                except ValueError:
                    pass
            finally:
                sys.modules.pop(modname, None)
        return n, fails[:3]


KERNELS = [ByName()]


class Register(Kernel):
    id = "C11.P.register"
    prop = "C11"
    file = "einx/_src/frontend/backend.py"
    module = "einx._src.frontend.backend"
    qual = "BackendRegistryState/_register"
    allowed_raises = ("ValueError",)
    describe = ("_register(b): ValueError exactly for something that is neither Backend nor InvalidBackend; otherwise b is appended to the backend list (order kept), it becomes THE backend "
                "registered under b.name (all other names unchanged) and every memoised choice by tensor types is forgotten (a choice made before the registration could be outdated - "
                "fix c5b814b)")

    def setup(self, eng, bound=None):
        self.n = z3.Int("n")
        self.bk = z3.Array("backends", I, Obj)
        self.has, self.val = z3.Array("registered", Obj, B), z3.Array("backend_of_name", Obj, Obj)
        self.mh, self.mv = z3.Array("memo_has", Obj, B), z3.Array("memo_val", Obj, Obj)
        self.b = z3.Const("backend", Obj)
        st = SRec("BackendRegistryState", backends=SSeq(self.bk, self.n, "obj", "list"), name_to_backend=SMap(self.has, self.val, "obj", "obj"), tensortypes_to_backend=SMap(self.mh, self.mv, "obj", "obj"))
        orig_assign = eng.assign

        def assign(target, v, p):  # self.<symbolic dict>[key] = value
            if isinstance(target, ast.Subscript) and isinstance(target.value, ast.Attribute) and isinstance(target.value.value, ast.Name):
                rec = p.lookup(target.value.value.id)
                m = rec.f.get(target.value.attr) if isinstance(rec, SRec) else None
                if isinstance(m, SMap):
                    (k, _), = list(eng.ev(target.slice, p))
                    f = dict(rec.f)
                    f[target.value.attr] = SMap(z3.Store(m.has, k.t, z3.BoolVal(True)), z3.Store(m.val, k.t, v.t), m.kk, m.vk)
                    p.bind(target.value.value.id, SRec(rec.cls, **f))
                    return True
            return orig_assign(target, v, p)

        eng.assign = assign
        orig_method = eng.method

        def method(n, o, attr, av, kw, p):  # <symbolic dict>.clear()
            if isinstance(o, SMap) and attr == "clear" and not av and isinstance(n.func.value, ast.Attribute) and isinstance(n.func.value.value, ast.Name):
                rec = p.lookup(n.func.value.value.id)
                f = dict(rec.f)
                f[n.func.value.attr] = SMap(z3.K(Obj, z3.BoolVal(False)), o.val, o.kk, o.vk)
                p.bind(n.func.value.value.id, SRec(rec.cls, **f))
                yield SConc(None), p
                return
            yield from orig_method(n, o, attr, av, kw, p)

        eng.method = method
        return {"self": st, "backend": SObj(self.b)}, [self.n >= 0], {}

    def post(self, eng, out, p):
        valid = z3.Or(uf("is_Backend", Obj, B)(self.b), uf("is_InvalidBackend", Obj, B)(self.b))
        if isinstance(out, Raise):
            eng.oblige("post:ValueError only for something that is neither a Backend nor an InvalidBackend", p, z3.Not(valid), "post")
            return
        eng.oblige("post:normal exit only for a Backend or InvalidBackend", p, valid, "post")
        st = p.lookup("self")
        bs = eng.as_seq(st.f["backends"], p)
        k, x = fresh("k"), z3.Const("x", Obj)
        nm = uf("attr_name", Obj, Obj)(self.b)
        eng.oblige("post:the backend list is the old list with the backend appended", p, z3.And(bs.n == self.n + 1, z3.Select(bs.arr, self.n) == self.b, z3.ForAll([k], z3.Implies(z3.And(0 <= k, k < self.n), z3.Select(bs.arr, k) == z3.Select(self.bk, k)))), "post")
        m = st.f["name_to_backend"]
        eng.oblige("post:the backend is registered under its own name; every other name keeps its backend", p,
                   z3.And(z3.Select(m.has, nm), z3.Select(m.val, nm) == self.b, z3.ForAll([x], z3.Implies(x != nm, z3.And(z3.Select(m.has, x) == z3.Select(self.has, x), z3.Select(m.val, x) == z3.Select(self.val, x))))), "post")
        memo = st.f["tensortypes_to_backend"]
        eng.oblige("post:no memoised choice by tensor types survives a registration", p, z3.ForAll([x], z3.Not(z3.Select(memo.has, x))), "post")


KERNELS.append(Register())


class RunFactory(Kernel):
    id = "C11.P.run_factory"
    prop = "C11"
    file = "einx/_src/frontend/backend.py"
    module = "einx._src.frontend.backend"
    qual = "BackendRegistryState/_run_factory"
    describe = ("_run_factory(module, name, factory): the factory runs exactly once; if it returns, exactly its result is registered; if it raises ANY exception, nothing propagates and an "
                "InvalidBackend carrying the backend's name is registered instead ('a backend whose import or initialisation failed raises ImportBackendError only when it is actually "
                "selected, leaving all other backends usable'); _register is called exactly once either way")

    def setup(self, eng, bound=None):
        self.fb = z3.Const("factory_result", Obj)
        self.bname = z3.Const("backend_name", Obj)
        self.fails = z3.Bool("factory_raises")
        eng.allowed_raises = tuple(eng.allowed_raises) + ("Exception",)

        def c_factory(e, p, av, kw):
            p.ghost["factory_calls"] = p.ghost.get("factory_calls", 0) + 1
            q = p.fork()
            q.pc.append(self.fails)
            q.ghost["raised"] = True
            e.raise_("Exception", q, None)
            p.pc.append(z3.Not(self.fails))
            return SObj(self.fb)

        def c_invalid(e, p, av, kw):
            return SRec("InvalidBackend", name=av[0], message=av[1] if len(av) > 1 else kw.get("message"))

        def c_register(e, p, av, kw):
            p.ghost["registered"] = list(p.ghost.get("registered", [])) + [av[0]]
            return SConc(None)

        eng.contracts.update({"backend_factory": SContract(c_factory, "the backend factory (may raise anything)"), "InvalidBackend": SContract(c_invalid, "InvalidBackend(name, message)"),
                              "self._register": SContract(c_register, "_register (C11.P.register)"), "traceback.format_exc": SContract(lambda e, p, av, kw: SConc("<traceback>"))})

        def st_Try(st, p):  # try: <body> except Exception: <handler>
            if st.finalbody or st.orelse or len(st.handlers) != 1 or ast.unparse(st.handlers[0].type) != "Exception":
                raise OutOfSubset("try form")
            eng._exc.append([])
            try:
                outs = list(eng.exec_block(st.body, [p]))
            finally:
                raised = eng._exc.pop()
            for out, q in outs + raised:
                if isinstance(out, Raise):
                    yield from eng.exec_block(st.handlers[0].body, [q])
                else:
                    yield out, q

        eng.st_Try = st_Try
        return {"self": SRec("BackendRegistryState"), "module_name": SConc("fw"), "backend_name": SObj(self.bname), "backend_factory": eng.contracts["backend_factory"]}, [], {}

    def post(self, eng, out, p):
        if isinstance(out, Raise):
            eng.oblige("post:no exception of the factory propagates out of _run_factory", p, z3.BoolVal(False), "post")
            return
        reg = p.ghost.get("registered", [])
        eng.oblige("post:the factory runs exactly once and _register is called exactly once", p, z3.BoolVal(p.ghost.get("factory_calls") == 1 and len(reg) == 1), "post")
        if len(reg) != 1:
            return
        r = reg[0]
        if p.ghost.get("raised"):
            eng.oblige("post:a failing factory leads to an InvalidBackend with the backend's name being registered", p, r.f["name"].t == self.bname if isinstance(r, SRec) and r.cls == "InvalidBackend" and isinstance(r.f.get("name"), SObj) else z3.BoolVal(False), "post")
        else:
            eng.oblige("post:a factory that returns has exactly its result registered", p, r.t == self.fb if isinstance(r, SObj) else z3.BoolVal(False), "post")

    def twin(self, tier):
        import einx._src.frontend.backend as Bk
        n, fails = 0, []
        st = Bk.BackendRegistryState()
        good = Bk.Backend(ops={}, name="good", priority=0, optimizations=[], compiler=None, is_supported_tensor=lambda t: False, get_shape=None)

        def boom():
            raise ImportError("no such framework")

        n += 2
        st._run_factory("m", "good", lambda: good)
        st._run_factory("m", "bad", boom)
        if st.name_to_backend.get("good") is not good or not isinstance(st.name_to_backend.get("bad"), Bk.InvalidBackend) or len(st.backends) != 2:
            fails.append({"detail": "factory results not registered as (result, InvalidBackend)"})
        return n, fails[:3]


KERNELS.append(RunFactory())


class InvalidBackendK(Kernel):
    prop = "C11"
    file = "einx/_src/frontend/backend.py"
    module = "einx._src.frontend.backend"
    which = "is_supported_tensor"
    allowed_raises = ("ImportBackendError",)

    @property
    def qual(self):
        return f"InvalidBackend/{self.which}"

    def setup(self, eng, bound=None):
        env = {"self": SRec("InvalidBackend", message=SObj(z3.Const("message", Obj)), name=SObj(z3.Const("name", Obj)))}
        if self.which == "is_supported_tensor":
            env["tensor"] = SObj(z3.Const("tensor", Obj))
        if self.which == "__getattr__":
            env["name"] = SObj(z3.Const("attribute", Obj))
        return env, [], {}

    def post(self, eng, out, p):
        if self.which == "is_supported_tensor":
            eng.oblige("post:a backend that failed to initialise accepts no tensor (it is never a candidate by tensor types)", p, z3.Not(eng.truth(out.v)) if not isinstance(out, Raise) else z3.BoolVal(False), "post")
        else:
            eng.oblige("post:using a backend that failed to initialise always raises ImportBackendError", p, z3.BoolVal(isinstance(out, Raise) and out.cls == "ImportBackendError"), "post")


def _mk(base, name, **attrs):
    return type(name, (base,), attrs)()


for w, text in (("is_supported_tensor", "InvalidBackend.is_supported_tensor is False for every tensor: a failed backend is never selected by tensor types, all other backends stay usable"),
                ("__getattr__", "InvalidBackend.<any operation> raises ImportBackendError: the failure surfaces only when the failed backend is actually selected and used"),
                ("raise_on_import_failure", "InvalidBackend.raise_on_import_failure raises ImportBackendError (called by the entry point right after selection)")):
    KERNELS.append(_mk(InvalidBackendK, f"Invalid_{w}", which=w, id=f"C11.P.invalid_backend[{w}]", describe=text))
