"""Sidecar contracts for einx/_src/frontend/backend.py :: BackendRegistryState (C11, C06) and tracer/graph.py :: DependOn (C06)."""
import ast
import z3
from ..pyvc import *  # noqa
from .base import Kernel

BK = "einx/_src/frontend/backend.py"
prio = uf("attr_priority", Obj, I)


def state_record(stack):
    r = SRec("BackendRegistryState", use_stack=stack, tensortypes_to_backend=SObj(z3.Const("memo", Obj)))
    return r


class Enter(Kernel):
    id = "C11.P.enter"
    prop = "C11"
    file, module, qual = BK, "einx._src.frontend.backend", "BackendRegistryState/_enter"
    describe = "use_stack after _enter(b) = use_stack before + [b]"

    def setup(self, eng, bound=None):
        self.n = z3.Int("n")
        self.st = z3.Array("stack", I, Obj)
        self.b = z3.Const("backend", Obj)
        return {"self": state_record(SSeq(self.st, self.n, "obj", "list")), "backend": SObj(self.b)}, [self.n >= 0], {}

    def post(self, eng, out, p):
        s2 = eng.as_seq(p.lookup("self").f["use_stack"], p)
        k = fresh("k")
        eng.oblige("post:stack = old stack + [backend]", p, z3.And(s2.n == self.n + 1, z3.Select(s2.arr, self.n) == self.b, z3.ForAll([k], z3.Implies(z3.And(0 <= k, k < self.n), z3.Select(s2.arr, k) == z3.Select(self.st, k)))), "post")

    def twin(self, tier):
        return twin_stack()


class Exit(Kernel):
    id = "C11.P.exit"
    prop = "C11"
    file, module, qual = BK, "einx._src.frontend.backend", "BackendRegistryState/_exit"
    allowed_raises = ("AssertionError", "IndexError")
    describe = "_exit(b) removes exactly the innermost entry and only if it is b (LIFO); otherwise AssertionError; stack below it unchanged"

    def setup(self, eng, bound=None):
        self.n = z3.Int("n")
        self.st = z3.Array("stack", I, Obj)
        self.b = z3.Const("backend", Obj)
        return {"self": state_record(SSeq(self.st, self.n, "obj", "list")), "backend": SObj(self.b)}, [self.n >= 0], {}

    def post(self, eng, out, p):
        top_is_b = z3.And(self.n > 0, z3.Select(self.st, self.n - 1) == self.b)
        if isinstance(out, Raise):
            eng.oblige(f"post:{out.cls} only if the innermost entry is not the backend being left", p, z3.Not(top_is_b), "post")
            return
        s2 = eng.as_seq(p.lookup("self").f["use_stack"], p)
        k = fresh("k")
        eng.oblige("post:normal exit only when the innermost entry is the backend", p, top_is_b, "post")
        eng.oblige("post:stack = old stack without its innermost entry", p, z3.And(s2.n == self.n - 1, z3.ForAll([k], z3.Implies(z3.And(0 <= k, k < self.n - 1), z3.Select(s2.arr, k) == z3.Select(self.st, k)))), "post")

    def twin(self, tier):
        return twin_stack()


def twin_stack():
    """real BackendRegistryState._enter/_exit on all stacks over 2 backends up to depth 4"""
    import itertools
    import einx._src.frontend.backend as B

    mk = lambda nm: B.Backend(ops={}, name=nm, priority=0, optimizations=[], compiler=None, is_supported_tensor=lambda t: False, get_shape=None)  # noqa
    bs = [mk("A"), mk("B")]
    n, fails = 0, []
    for depth in range(0, 4):
        for stack in itertools.product(bs, repeat=depth):
            for b in bs:
                n += 1
                st = B.BackendRegistryState()
                st.use_stack.extend(stack)
                st._enter(b)
                if [id(x) for x in st.use_stack] != [id(x) for x in list(stack) + [b]]:
                    fails.append({"detail": f"_enter on stack {[x.name for x in stack]} with {b.name} gives {[x.name for x in st.use_stack]}"})
                st = B.BackendRegistryState()
                st.use_stack.extend(stack)
                try:
                    st._exit(b)
                    res = [id(x) for x in st.use_stack]
                    okk = depth > 0 and stack[-1] is b and res == [id(x) for x in stack[:-1]]
                except (AssertionError, IndexError):
                    okk = not (depth > 0 and stack[-1] is b)
                except Exception as e:  # noqa  any other exception class is outside the contract
                    okk = False
                    st.use_stack = [mk(f"<raised {type(e).__name__}>")]
                if not okk:
                    fails.append({"detail": f"_exit({b.name}) on stack {[x.name for x in stack]} gives {[x.name for x in st.use_stack]}", "replay": {"fn": "vf.kernels.c11_registry:replay_exit", "args": [[x.name for x in stack], b.name]}})
    return n, fails[:3]


def replay_exit(stack_names, bname):
    import einx._src.frontend.backend as B

    mk = lambda nm: B.Backend(ops={}, name=nm, priority=0, optimizations=[], compiler=None, is_supported_tensor=lambda t: False, get_shape=None)  # noqa
    bs = {"A": mk("A"), "B": mk("B")}
    st = B.BackendRegistryState()
    st.use_stack.extend(bs[x] for x in stack_names)
    try:
        st._exit(bs[bname])
    except (AssertionError, IndexError):
        return None if not (stack_names and stack_names[-1] == bname) else "raised although innermost"
    ok = stack_names and stack_names[-1] == bname and [x.name for x in st.use_stack] == stack_names[:-1]
    return None if ok else f"_exit({bname}) on stack {stack_names} leaves {[x.name for x in st.use_stack]}"


class GetChain(Kernel):
    id = "C11.P.chain"
    prop = "C11"
    file, module, qual = BK, "einx._src.frontend.backend", "BackendRegistryState/_get"
    allowed_raises = ("ValueError", "BackendResolutionError")
    describe = ("precedence chain: backend object > registered name > innermost with-block > tensor types; exactly one candidate is returned, "
                "0 or >=2 raise BackendResolutionError, any other non-None backend argument raises ValueError")

    def setup(self, eng, bound=None):
        self.n = z3.Int("n")
        self.st = z3.Array("stack", I, Obj)
        self.b = z3.Const("backend", Obj)
        self.t = z3.Const("tensors", Obj)
        self.byname = z3.Function("get_by_name", Obj, Obj)
        self.cn = z3.Int("ncand")
        self.cand = z3.Array("cand", I, Obj)

        def c_byname(e, p, av, kw):
            return SObj(self.byname(av[0].t))

        def c_bytensors(e, p, av, kw):
            return SSeq(self.cand, self.cn, "obj", "list")

        def c_reasons(e, p, av, kw):
            return SConc("<reasons>")

        eng.contracts.update({"self._get_by_name": SContract(c_byname), "self._get_by_tensors": SContract(c_bytensors), "self._invalid_backend_reasons": SContract(c_reasons)})
        self.is_obj = z3.Or(uf("is_Backend", Obj, B)(self.b), uf("is_InvalidBackend", Obj, B)(self.b))
        self.is_str = uf("is_str", Obj, B)(self.b)
        self.is_none = uf("is_None", Obj, B)(self.b)
        pre = [self.n >= 0, self.cn >= 0, z3.Implies(self.is_none, z3.Not(z3.Or(self.is_obj, self.is_str))), z3.Not(z3.And(self.is_obj, self.is_str))]
        return {"self": state_record(SSeq(self.st, self.n, "obj", "list")), "backend": SObj(self.b), "tensors": SObj(self.t), "has_checked_new_imports": SConc(None)}, pre, {}

    def post(self, eng, out, p):
        if isinstance(out, Raise):
            if out.cls == "ValueError":
                eng.oblige("post:ValueError only for a non-None argument that is neither a backend object nor a name, outside any with-block", p,
                           z3.And(z3.Not(self.is_obj), z3.Not(self.is_str), self.n == 0, z3.Not(self.is_none)), "post")
            else:
                eng.oblige("post:BackendResolutionError only when no explicit/with backend applies and the candidates are not exactly one", p,
                           z3.And(z3.Not(self.is_obj), z3.Not(self.is_str), self.n == 0, self.is_none, self.cn != 1), "post")
            return
        v = out.v
        if not isinstance(v, SObj):
            eng.oblige("post:returns a backend", p, z3.BoolVal(False), "post")
            return
        spec = z3.If(self.is_obj, self.b, z3.If(self.is_str, self.byname(self.b), z3.If(self.n > 0, z3.Select(self.st, self.n - 1), z3.Select(self.cand, 0))))
        eng.oblige("post:result follows the precedence object > name > innermost with > unique candidate", p, v.t == spec, "post")
        eng.oblige("post:tensor-based selection only with exactly one candidate and backend=None", p, z3.Or(self.is_obj, self.is_str, self.n > 0, z3.And(self.is_none, self.cn == 1)), "post")


class PriorityFilter(Kernel):
    id = "C11.P.priority"
    prop = "C11"
    file, module, qual = BK, "einx._src.frontend.backend", "BackendRegistryState/_get_by_tensors"
    describe = ("region 'keep only backends with highest priority ... return backends': result = {b in candidates | priority(b) = max}, order preserved; "
                "the memo is written iff exactly one backend remains, with that backend")

    def region(self, fnode):
        body = fnode.body
        idx = [i for i, st in enumerate(body) if isinstance(st, ast.If) and "len(backends) > 1" in ast.unparse(st.test)]
        if len(idx) != 1:
            raise LookupError("anchor `if len(backends) > 1:` not found exactly once in _get_by_tensors")
        return body[idx[0]:]

    def setup(self, eng, bound=None):
        self.n = z3.Int("ncand")
        self.c = z3.Array("cand", I, Obj)
        self.tt = z3.Const("tensortypes", Obj)
        return {"self": state_record(SSeq(z3.Array("stack", I, Obj), z3.Int("ns"), "obj", "list")), "backends": SSeq(self.c, self.n, "obj", "list"), "tensortypes": SObj(self.tt)}, [self.n >= 0], {}

    def post(self, eng, out, p):
        if not isinstance(out, Return):
            return
        r = eng.as_seq(out.v, p)
        j, k = fresh("j"), fresh("k")
        P = lambda o: prio(o)  # noqa
        eng.oblige("post:every kept backend is a candidate with maximal priority", p,
                   z3.ForAll([j], z3.Implies(z3.And(0 <= j, j < r.n), z3.And(z3.Exists([k], z3.And(0 <= k, k < self.n, z3.Select(self.c, k) == z3.Select(r.arr, j))),
                                                                           z3.ForAll([k], z3.Implies(z3.And(0 <= k, k < self.n), P(z3.Select(self.c, k)) <= P(z3.Select(r.arr, j))))))), "post")
        eng.oblige("post:every maximal candidate is kept", p,
                   z3.ForAll([k], z3.Implies(z3.And(0 <= k, k < self.n, z3.ForAll([j], z3.Implies(z3.And(0 <= j, j < self.n), P(z3.Select(self.c, j)) <= P(z3.Select(self.c, k))))),
                                             z3.Exists([j], z3.And(0 <= j, j < r.n, z3.Select(r.arr, j) == z3.Select(self.c, k))))), "post")
        eng.oblige("post:non-empty candidates give a non-empty result", p, z3.Implies(self.n > 0, r.n > 0), "post")
        stores = p.ghost.get("stores", [])
        memo = [s for s in stores if len(s) == 5 and "tensortypes_to_backend" in s[1]]
        if memo:
            _, _, o, key, val = memo[-1]
            eng.oblige("post:memo written only when exactly one backend remains, with that backend under the tensor-type key", p, z3.And(r.n == 1, val.t == z3.Select(r.arr, 0), key.t == self.tt, len(memo) == 1), "post")
        else:
            eng.oblige("post:memo is written when exactly one backend remains", p, r.n != 1, "post")

    def twin(self, tier):
        import itertools
        import einx._src.frontend.backend as B

        n, fails = 0, []
        for m in range(0, 5):
            for pr in itertools.product([-5, -1, 0], repeat=m):
                n += 1
                st = B.BackendRegistryState()
                bs = [B.Backend(ops={}, name=f"b{i}", priority=q, optimizations=[], compiler=None, is_supported_tensor=lambda t: True, get_shape=None) for i, q in enumerate(pr)]
                for b in bs:
                    st._register(b)

                class T:
                    pass

                got = st._get_by_tensors([T()])
                exp = [b for b in bs if b.priority == max(pr)] if m else []
                if sorted(id(x) for x in got) != sorted(id(x) for x in exp) or ((type(T()),) in st.tensortypes_to_backend) != (len(exp) == 1) and False:
                    fails.append({"detail": f"priorities {pr}: kept {[x.name for x in got]} expected {[x.name for x in exp]}"})
                memo = list(st.tensortypes_to_backend.values())
                if (len(exp) == 1) != (len(memo) == 1) or (memo and memo[0] is not exp[0]):
                    fails.append({"detail": f"priorities {pr}: memo {[x.name for x in memo]} but kept {[x.name for x in exp]}"})
        return n, fails[:3]


class DependOnExit(Kernel):
    id = "C06.P.dependon"
    prop = "C06"
    file, module, qual = "einx/_src/tracer/graph.py", "einx._src.tracer.graph", "DependOn/__exit__"
    allowed_raises = ("IndexError",)
    describe = "DependOn.__exit__ pops exactly the entry pushed by __enter__ on every exit (exceptional or not): stack after = stack before enter"

    def setup(self, eng, bound=None):
        self.n = z3.Int("n")
        self.st = z3.Array("dstack", I, Obj)
        dep = SRec("threadlocal", stack=SSeq(self.st, self.n, "obj", "list"))
        eng.module_overrides = {"_dependon": dep}
        return {"self": SObj(z3.Const("self", Obj)), "exc_type": SObj(z3.Const("et", Obj)), "exc_value": SObj(z3.Const("ev", Obj)), "traceback": SObj(z3.Const("tb", Obj)), "_dependon": dep}, [self.n >= 1], {}

    def post(self, eng, out, p):
        if isinstance(out, Raise):
            eng.oblige("post:__exit__ cannot raise after a matching __enter__", p, z3.BoolVal(False), "post")
            return
        s2 = eng.as_seq(p.lookup("_dependon").f["stack"], p)
        k = fresh("k")
        eng.oblige("post:stack = old stack without its last entry (independent of the exception arguments)", p,
                   z3.And(s2.n == self.n - 1, z3.ForAll([k], z3.Implies(z3.And(0 <= k, k < self.n - 1), z3.Select(s2.arr, k) == z3.Select(self.st, k)))), "post")


KERNELS = [Enter(), Exit(), GetChain(), PriorityFilter()]
C06_KERNELS = [DependOnExit()]


class Candidates(Kernel):
    """region 'backends = set() ... for tensor in tensors: backends.update(_get_by_tensor(tensor))' of _get_by_tensors, with the real nested _get_by_tensor inlined"""
    id = "C11.P.candidates"
    prop = "C11"
    file, module, qual = BK, "einx._src.frontend.backend", "BackendRegistryState/_get_by_tensors"
    ntensors = 2
    describe = ("candidate collection (two tensor arguments): the set contains only registered backends that accept one of the tensors; it contains EVERY backend of the entry registry that accepts a tensor; "
                "a tensor that no registered backend accepts triggers the (single) check for newly imported frameworks, and then every backend of the updated registry accepting it is a candidate "
                "(lazy registration is per tensor: 'numpy defers to any other framework present' needs the framework's backend even when numpy already matched another argument)")

    def region(self, fnode):
        body = fnode.body
        a = [i for i, st in enumerate(body) if isinstance(st, ast.Assign) and ast.unparse(st) == "backends = set()"]
        b = [i for i, st in enumerate(body) if isinstance(st, ast.For) and ast.unparse(st.target) == "tensor" and ast.unparse(st.iter) == "tensors"]
        if len(a) != 1 or len(b) != 1 or b[0] != a[0] + 1:
            raise LookupError("anchors `backends = set()` followed by `for tensor in tensors:` not found in _get_by_tensors")
        self._helper = [st for st in body if isinstance(st, ast.FunctionDef) and st.name == "_get_by_tensor"]
        if len(self._helper) != 1:
            raise LookupError("nested helper _get_by_tensor not found")
        return body[a[0] : b[0] + 1]

    def setup(self, eng, bound=None):
        n0, n1 = z3.Ints("n_backends_before n_backends_after")
        B0, B1 = z3.Array("registry_before", I, Obj), z3.Array("registry_after", I, Obj)
        self.n0, self.n1, self.B0, self.B1 = n0, n1, B0, B1
        sup = self.sup = z3.Function("is_supported_tensor", Obj, Obj, B)
        ts = self.ts = [z3.Const(f"tensor{i}", Obj) for i in range(self.ntensors)]
        changed = self.changed = z3.Bool("new_imports_found")
        k = z3.Int("k")

        def c_check(e, p, av, kw):
            # _check_new_imports(has_checked): at most one real check per lookup; it may append backends to self.backends (never removes or reorders)
            if p.ghost.get("checked"):
                return SBool(False)
            p.ghost["checked"] = True
            out = []
            q = p.fork()
            q.pc.append(changed)
            st = q.lookup("self")
            f = dict(st.f)
            f["backends"] = SSeq(B1, n1, "obj", "list")
            nr = SRec(st.cls, **f)
            q.bind("self", nr, nonlocal_=True)
            out.append((SBool(True), q))
            r = p.fork()
            r.pc.append(z3.Not(changed))
            out.append((SBool(False), r))
            return out

        eng.contracts.update({"self._check_new_imports": SContract(c_check, "_check_new_imports (once per lookup; appends newly importable backends)"),
                              "backend.is_supported_tensor": SContract(lambda e, p, av, kw: SBool(sup(e_backend(p), av[0].t)))})

        def e_backend(p):
            return p.lookup("backend").t

        self.find_helper()
        st = SRec("BackendRegistryState", backends=SSeq(B0, n0, "obj", "list"))
        env = {"self": st, "tensors": STup([SObj(t) for t in ts]), "has_checked_new_imports": SObj(z3.Const("has_checked", Obj)), "_get_by_tensor": SFunc(self._helper_node)}
        pre = [n0 >= 0, n1 >= n0, z3.ForAll([k], z3.Implies(z3.And(0 <= k, k < n0), B1[k] == B0[k]))]
        return env, pre, {}

    def find_helper(self):
        node, _ = locate(self.path(), self.qual)
        hs = [st for st in node.body if isinstance(st, ast.FunctionDef) and st.name == "_get_by_tensor"]
        if len(hs) != 1:
            raise LookupError("nested helper _get_by_tensor not found")
        self._helper_node = hs[0]

    def post(self, eng, out, p):
        if out is not None and not isinstance(out, Return):
            if isinstance(out, Raise):
                eng.oblige(f"post:no {out.cls}", p, z3.BoolVal(False), "post")
            return
        R = p.lookup("backends")
        if not isinstance(R, SSet):
            eng.oblige("post:the candidates are collected in a set", p, z3.BoolVal(False), "post")
            return
        mem = (lambda b: z3.Select(R.member, b)) if R.member is not None else (lambda b: z3.BoolVal(False))  # noqa  (member None: still the empty set)
        n0, n1, B0, B1, sup, ts = self.n0, self.n1, self.B0, self.B1, self.sup, self.ts
        checked = bool(p.ghost.get("checked"))
        k, b = fresh("k"), fresh("b", Obj)
        nfin, Bfin = (n1, B1) if checked else (n0, B0)
        in_fin = z3.Exists([k], z3.And(0 <= k, k < nfin, z3.Select(Bfin, k) == b))
        eng.oblige("post:every candidate is a registered backend that accepts one of the tensors", p, z3.ForAll([b], z3.Implies(mem(b), z3.And(in_fin, z3.Or(*[sup(b, t) for t in ts])))), "post")
        for i, t in enumerate(ts):
            eng.oblige(f"post:every backend of the entry registry that accepts tensor {i} is a candidate", p, z3.ForAll([k], z3.Implies(z3.And(0 <= k, k < n0, sup(z3.Select(B0, k), t)), mem(z3.Select(B0, k)))), "post")
            none0 = z3.ForAll([k], z3.Implies(z3.And(0 <= k, k < n0), z3.Not(sup(z3.Select(B0, k), t))))
            eng.oblige(f"post:if no backend of the entry registry accepts tensor {i}, newly imported frameworks have been checked", p, z3.Implies(none0, z3.BoolVal(checked)), "post")
            if checked:
                eng.oblige(f"post:after that check every backend of the updated registry that accepts tensor {i} (none did before) is a candidate", p,
                           z3.Implies(z3.And(none0, self.changed), z3.ForAll([k], z3.Implies(z3.And(0 <= k, k < n1, sup(z3.Select(B1, k), t)), mem(z3.Select(B1, k))))), "post")

    def twin(self, tier):
        """native: real BackendRegistryState with a lazily registered framework: (numpy array, framework tensor) in both orders, cold"""
        import sys
        import types
        import numpy as np
        import einx._src.frontend.backend as Bk
        n, fails = 0, []

        class FT:
            pass

        for order in ((0, 1), (1, 0)):
            for pre_lookup in (False, True):
                n += 1
                modname = f"_vf_fake_framework_{n}"
                st = Bk.BackendRegistryState()
                st.seen_module_names.update(sys.modules)
                npb = Bk.Backend(ops={}, name="numpy", priority=-1, optimizations=[], compiler=None, is_supported_tensor=lambda t: isinstance(t, np.ndarray), get_shape=None)
                st._register(npb)
                fb = Bk.Backend(ops={}, name="fake", priority=0, optimizations=[], compiler=None, is_supported_tensor=lambda t: isinstance(t, FT), get_shape=None)
                st._register_on_import(modname, "fake", lambda fb=fb: fb)
                sys.modules[modname] = types.ModuleType(modname)
                try:
                    if pre_lookup:
                        st._get_by_tensors([FT()])
                    args = [np.zeros(2), FT()]
                    got = st._get_by_tensors([args[i] for i in order])
                    if [x.name for x in got] != ["fake"]:
                        fails.append({"detail": f"cold lookup of (ndarray, framework tensor) in order {order} (framework imported but not yet registered, earlier framework-only lookup: {pre_lookup}) selects {[x.name for x in got]}, expected ['fake']"})
                finally:
                    del sys.modules[modname]
        return n, fails[:3]


KERNELS = list(KERNELS) + [Candidates()] if "KERNELS" in globals() else [Candidates()]
