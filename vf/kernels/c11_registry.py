"""Sidecar contracts for einx/_src/frontend/backend.py :: BackendRegistryState (C11, C06) and tracer/graph.py :: DependOn (C06)."""
import ast
import z3
from ..pyvc import *  # noqa
from .base import Kernel

BK = "einx/_src/frontend/backend.py"
prio = uf("attr_priority", Obj, I)


def state_record(stack):
    r = SRec("BackendRegistryState", use_stack=stack, tensortypes_to_backend=SObj(z3.Const("memo", Obj)))
    return r


class Enter(Kernel):
    id = "C11.P.enter"
    prop = "C11"
    file, module, qual = BK, "einx._src.frontend.backend", "BackendRegistryState/_enter"
    describe = "use_stack after _enter(b) = use_stack before + [b]"

    def setup(self, eng, bound=None):
        self.n = z3.Int("n")
        self.st = z3.Array("stack", I, Obj)
        self.b = z3.Const("backend", Obj)
        return {"self": state_record(SSeq(self.st, self.n, "obj", "list")), "backend": SObj(self.b)}, [self.n >= 0], {}

    def post(self, eng, out, p):
        s2 = eng.as_seq(p.lookup("self").f["use_stack"], p)
        k = fresh("k")
        eng.oblige("post:stack = old stack + [backend]", p, z3.And(s2.n == self.n + 1, z3.Select(s2.arr, self.n) == self.b, z3.ForAll([k], z3.Implies(z3.And(0 <= k, k < self.n), z3.Select(s2.arr, k) == z3.Select(self.st, k)))), "post")

    def twin(self, tier):
        return twin_stack()


class Exit(Kernel):
    id = "C11.P.exit"
    prop = "C11"
    file, module, qual = BK, "einx._src.frontend.backend", "BackendRegistryState/_exit"
    allowed_raises = ("AssertionError", "IndexError")
    describe = "_exit(b) removes exactly the innermost entry and only if it is b (LIFO); otherwise AssertionError; stack below it unchanged"

    def setup(self, eng, bound=None):
        self.n = z3.Int("n")
        self.st = z3.Array("stack", I, Obj)
        self.b = z3.Const("backend", Obj)
        return {"self": state_record(SSeq(self.st, self.n, "obj", "list")), "backend": SObj(self.b)}, [self.n >= 0], {}

    def post(self, eng, out, p):
        top_is_b = z3.And(self.n > 0, z3.Select(self.st, self.n - 1) == self.b)
        if isinstance(out, Raise):
            eng.oblige(f"post:{out.cls} only if the innermost entry is not the backend being left", p, z3.Not(top_is_b), "post")
            return
        s2 = eng.as_seq(p.lookup("self").f["use_stack"], p)
        k = fresh("k")
        eng.oblige("post:normal exit only when the innermost entry is the backend", p, top_is_b, "post")
        eng.oblige("post:stack = old stack without its innermost entry", p, z3.And(s2.n == self.n - 1, z3.ForAll([k], z3.Implies(z3.And(0 <= k, k < self.n - 1), z3.Select(s2.arr, k) == z3.Select(self.st, k)))), "post")

    def twin(self, tier):
        return twin_stack()


def twin_stack():
    """real BackendRegistryState._enter/_exit on all stacks over 2 backends up to depth 4"""
    import itertools
    import einx._src.frontend.backend as B

    mk = lambda nm: B.Backend(ops={}, name=nm, priority=0, optimizations=[], compiler=None, is_supported_tensor=lambda t: False, get_shape=None)  # noqa
    bs = [mk("A"), mk("B")]
    n, fails = 0, []
    for depth in range(0, 4):
        for stack in itertools.product(bs, repeat=depth):
            for b in bs:
                n += 1
                st = B.BackendRegistryState()
                st.use_stack.extend(stack)
                st._enter(b)
                if [id(x) for x in st.use_stack] != [id(x) for x in list(stack) + [b]]:
                    fails.append({"detail": f"_enter on stack {[x.name for x in stack]} with {b.name} gives {[x.name for x in st.use_stack]}"})
                st = B.BackendRegistryState()
                st.use_stack.extend(stack)
                try:
                    st._exit(b)
                    res = [id(x) for x in st.use_stack]
                    okk = depth > 0 and stack[-1] is b and res == [id(x) for x in stack[:-1]]
                except (AssertionError, IndexError):
                    okk = not (depth > 0 and stack[-1] is b)
                except Exception as e:  # noqa  any other exception class is outside the contract
                    okk = False
                    st.use_stack = [mk(f"<raised {type(e).__name__}>")]
                if not okk:
                    fails.append({"detail": f"_exit({b.name}) on stack {[x.name for x in stack]} gives {[x.name for x in st.use_stack]}", "replay": {"fn": "vf.kernels.c11_registry:replay_exit", "args": [[x.name for x in stack], b.name]}})
    return n, fails[:3]


def replay_exit(stack_names, bname):
    import einx._src.frontend.backend as B

    mk = lambda nm: B.Backend(ops={}, name=nm, priority=0, optimizations=[], compiler=None, is_supported_tensor=lambda t: False, get_shape=None)  # noqa
    bs = {"A": mk("A"), "B": mk("B")}
    st = B.BackendRegistryState()
    st.use_stack.extend(bs[x] for x in stack_names)
    try:
        st._exit(bs[bname])
    except (AssertionError, IndexError):
        return None if not (stack_names and stack_names[-1] == bname) else "raised although innermost"
    ok = stack_names and stack_names[-1] == bname and [x.name for x in st.use_stack] == stack_names[:-1]
    return None if ok else f"_exit({bname}) on stack {stack_names} leaves {[x.name for x in st.use_stack]}"


class GetChain(Kernel):
    id = "C11.P.chain"
    prop = "C11"
    file, module, qual = BK, "einx._src.frontend.backend", "BackendRegistryState/_get"
    allowed_raises = ("ValueError", "BackendResolutionError")
    describe = ("precedence chain: backend object > registered name > innermost with-block > tensor types; exactly one candidate is returned, "
                "0 or >=2 raise BackendResolutionError, any other non-None backend argument raises ValueError")

    def setup(self, eng, bound=None):
        self.n = z3.Int("n")
        self.st = z3.Array("stack", I, Obj)
        self.b = z3.Const("backend", Obj)
        self.t = z3.Const("tensors", Obj)
        self.byname = z3.Function("get_by_name", Obj, Obj)
        self.cn = z3.Int("ncand")
        self.cand = z3.Array("cand", I, Obj)

        def c_byname(e, p, av, kw):
            return SObj(self.byname(av[0].t))

        def c_bytensors(e, p, av, kw):
            return SSeq(self.cand, self.cn, "obj", "list")

        def c_reasons(e, p, av, kw):
            return SConc("<reasons>")

        eng.contracts.update({"self._get_by_name": SContract(c_byname), "self._get_by_tensors": SContract(c_bytensors), "self._invalid_backend_reasons": SContract(c_reasons)})
        self.is_obj = z3.Or(uf("is_Backend", Obj, B)(self.b), uf("is_InvalidBackend", Obj, B)(self.b))
        self.is_str = uf("is_str", Obj, B)(self.b)
        self.is_none = uf("is_None", Obj, B)(self.b)
        pre = [self.n >= 0, self.cn >= 0, z3.Implies(self.is_none, z3.Not(z3.Or(self.is_obj, self.is_str))), z3.Not(z3.And(self.is_obj, self.is_str))]
        return {"self": state_record(SSeq(self.st, self.n, "obj", "list")), "backend": SObj(self.b), "tensors": SObj(self.t), "has_checked_new_imports": SConc(None)}, pre, {}

    def post(self, eng, out, p):
        if isinstance(out, Raise):
            if out.cls == "ValueError":
                eng.oblige("post:ValueError only for a non-None argument that is neither a backend object nor a name, outside any with-block", p,
                           z3.And(z3.Not(self.is_obj), z3.Not(self.is_str), self.n == 0, z3.Not(self.is_none)), "post")
            else:
                eng.oblige("post:BackendResolutionError only when no explicit/with backend applies and the candidates are not exactly one", p,
                           z3.And(z3.Not(self.is_obj), z3.Not(self.is_str), self.n == 0, self.is_none, self.cn != 1), "post")
            return
        v = out.v
        if not isinstance(v, SObj):
            eng.oblige("post:returns a backend", p, z3.BoolVal(False), "post")
            return
        spec = z3.If(self.is_obj, self.b, z3.If(self.is_str, self.byname(self.b), z3.If(self.n > 0, z3.Select(self.st, self.n - 1), z3.Select(self.cand, 0))))
        eng.oblige("post:result follows the precedence object > name > innermost with > unique candidate", p, v.t == spec, "post")
        eng.oblige("post:tensor-based selection only with exactly one candidate and backend=None", p, z3.Or(self.is_obj, self.is_str, self.n > 0, z3.And(self.is_none, self.cn == 1)), "post")


class PriorityFilter(Kernel):
    id = "C11.P.priority"
    prop = "C11"
    file, module, qual = BK, "einx._src.frontend.backend", "BackendRegistryState/_get_by_tensors"
    describe = ("region 'keep only backends with highest priority ... return backends': result = {b in candidates | priority(b) = max}, order preserved; "
                "the memo is written iff exactly one backend remains, with that backend")

    def region(self, fnode):
        body = fnode.body
        idx = [i for i, st in enumerate(body) if isinstance(st, ast.If) and "len(backends) > 1" in ast.unparse(st.test)]
        if len(idx) != 1:
            raise LookupError("anchor `if len(backends) > 1:` not found exactly once in _get_by_tensors")
        return body[idx[0]:]

    def setup(self, eng, bound=None):
        self.n = z3.Int("ncand")
        self.c = z3.Array("cand", I, Obj)
        self.tt = z3.Const("tensortypes", Obj)
        return {"self": state_record(SSeq(z3.Array("stack", I, Obj), z3.Int("ns"), "obj", "list")), "backends": SSeq(self.c, self.n, "obj", "list"), "tensortypes": SObj(self.tt)}, [self.n >= 0], {}

    def post(self, eng, out, p):
        if not isinstance(out, Return):
            return
        r = eng.as_seq(out.v, p)
        j, k = fresh("j"), fresh("k")
        P = lambda o: prio(o)  # noqa
        eng.oblige("post:every kept backend is a candidate with maximal priority", p,
                   z3.ForAll([j], z3.Implies(z3.And(0 <= j, j < r.n), z3.And(z3.Exists([k], z3.And(0 <= k, k < self.n, z3.Select(self.c, k) == z3.Select(r.arr, j))),
                                                                           z3.ForAll([k], z3.Implies(z3.And(0 <= k, k < self.n), P(z3.Select(self.c, k)) <= P(z3.Select(r.arr, j))))))), "post")
        eng.oblige("post:every maximal candidate is kept", p,
                   z3.ForAll([k], z3.Implies(z3.And(0 <= k, k < self.n, z3.ForAll([j], z3.Implies(z3.And(0 <= j, j < self.n), P(z3.Select(self.c, j)) <= P(z3.Select(self.c, k))))),
                                             z3.Exists([j], z3.And(0 <= j, j < r.n, z3.Select(r.arr, j) == z3.Select(self.c, k))))), "post")
        eng.oblige("post:non-empty candidates give a non-empty result", p, z3.Implies(self.n > 0, r.n > 0), "post")
        stores = p.ghost.get("stores", [])
        memo = [s for s in stores if len(s) == 5 and "tensortypes_to_backend" in s[1]]
        if memo:
            _, _, o, key, val = memo[-1]
            eng.oblige("post:memo written only when exactly one backend remains, with that backend under the tensor-type key", p, z3.And(r.n == 1, val.t == z3.Select(r.arr, 0), key.t == self.tt, len(memo) == 1), "post")
        else:
            eng.oblige("post:memo is written when exactly one backend remains", p, r.n != 1, "post")

    def twin(self, tier):
        import itertools
        import einx._src.frontend.backend as B

        n, fails = 0, []
        for m in range(0, 5):
            for pr in itertools.product([-5, -1, 0], repeat=m):
                n += 1
                st = B.BackendRegistryState()
                bs = [B.Backend(ops={}, name=f"b{i}", priority=q, optimizations=[], compiler=None, is_supported_tensor=lambda t: True, get_shape=None) for i, q in enumerate(pr)]
                for b in bs:
                    st._register(b)

                class T:
                    pass

                got = st._get_by_tensors([T()])
                exp = [b for b in bs if b.priority == max(pr)] if m else []
                if sorted(id(x) for x in got) != sorted(id(x) for x in exp) or ((type(T()),) in st.tensortypes_to_backend) != (len(exp) == 1) and False:
                    fails.append({"detail": f"priorities {pr}: kept {[x.name for x in got]} expected {[x.name for x in exp]}"})
                memo = list(st.tensortypes_to_backend.values())
                if (len(exp) == 1) != (len(memo) == 1) or (memo and memo[0] is not exp[0]):
                    fails.append({"detail": f"priorities {pr}: memo {[x.name for x in memo]} but kept {[x.name for x in exp]}"})
        return n, fails[:3]


class DependOnExit(Kernel):
    id = "C06.P.dependon"
    prop = "C06"
    file, module, qual = "einx/_src/tracer/graph.py", "einx._src.tracer.graph", "DependOn/__exit__"
    allowed_raises = ("IndexError",)
    describe = "DependOn.__exit__ pops exactly the entry pushed by __enter__ on every exit (exceptional or not): stack after = stack before enter"

    def setup(self, eng, bound=None):
        self.n = z3.Int("n")
        self.st = z3.Array("dstack", I, Obj)
        dep = SRec("threadlocal", stack=SSeq(self.st, self.n, "obj", "list"))
        eng.module_overrides = {"_dependon": dep}
        return {"self": SObj(z3.Const("self", Obj)), "exc_type": SObj(z3.Const("et", Obj)), "exc_value": SObj(z3.Const("ev", Obj)), "traceback": SObj(z3.Const("tb", Obj)), "_dependon": dep}, [self.n >= 1], {}

    def post(self, eng, out, p):
        if isinstance(out, Raise):
            eng.oblige("post:__exit__ cannot raise after a matching __enter__", p, z3.BoolVal(False), "post")
            return
        s2 = eng.as_seq(p.lookup("_dependon").f["stack"], p)
        k = fresh("k")
        eng.oblige("post:stack = old stack without its last entry (independent of the exception arguments)", p,
                   z3.And(s2.n == self.n - 1, z3.ForAll([k], z3.Implies(z3.And(0 <= k, k < self.n - 1), z3.Select(s2.arr, k) == z3.Select(self.st, k)))), "post")


KERNELS = [Enter(), Exit(), GetChain(), PriorityFilter()]
C06_KERNELS = [DependOnExit()]
