"""Sidecar contract for the lexer prefix of einx/_src/namedtensor/stage1/parse.py :: parse_op (C12 / C03), prefix-to-cut-point mode:
the statements of parse_op from the entry up to and including the `next_token(pos)` call that follows the first while loop are executed
symbolically for ALL strings `text`; nothing is claimed about the rest of the function (tree recursion: bounded only)."""
import ast
import z3
from ..pyvc import *  # noqa
from ..pyvc.strings import char_class, regex_to_z3
from .base import Kernel


class Lexer(Kernel):
    id = "C12.P.lexer"
    prop = "C12"
    file, module, qual = "einx/_src/namedtensor/stage1/parse.py", "einx._src.namedtensor.stage1.parse", "parse_op"
    allowed_raises = ("SyntaxError",)
    z3_timeout = 8
    cvc5_timeout = 40
    describe = ("for every string: the lexer loop keeps 0 <= start_pos <= pos <= len(text) and the emitted token texts concatenate to text[:start_pos]; every emitted token is non-empty, "
                "inside the text, and is a literal, an axis name or an ASCII number; every SyntaxError raised by the lexer marks caret positions inside the caller's text; "
                "at the cut point the token texts concatenate to the whole text")

    def region(self, fnode):
        body = fnode.body
        iw = [i for i, st in enumerate(body) if isinstance(st, ast.While)]
        if not iw:
            raise LookupError("lexer while-loop not found")
        cut = iw[0] + 1
        if not (isinstance(body[cut], ast.Expr) and ast.unparse(body[cut]).startswith("next_token(")):
            raise LookupError("cut point `next_token(pos)` after the lexer loop not found")
        return body[: cut + 1]

    def setup(self, eng, bound=None):
        text = z3.String("text")
        self.text = text
        mod = self.real_module()
        lits = [str(x) for x in mod._literals]
        name_re = regex_to_z3(mod._axis_name.pattern)
        num_re = regex_to_z3(mod._axis_number.pattern) if hasattr(mod, "_axis_number") else z3.Plus(char_class("isdigit"))
        self.lits = lits
        eng.ghost_havoc = ["joined"]

        def c_indicator(e, p, av, kw):
            return SObj(fresh("indicator", Obj))

        def c_token(e, p, av, kw):
            bp, tx = av
            t = tx.t if isinstance(tx, SStr) else z3.StringVal(tx.v)
            n = z3.Length(text)
            e.oblige("token:non-empty and inside the text", p, z3.And(0 <= bp.t, z3.Length(t) > 0, bp.t + z3.Length(t) <= n, t == z3.SubString(text, bp.t, z3.Length(t))), "post")
            e.oblige("token:is a literal, an axis name or an ASCII number", p, z3.Or(*[t == z3.StringVal(l) for l in lits], z3.InRe(t, name_re), z3.InRe(t, num_re)), "post")
            e.oblige("token:int(text) cannot raise for a number token", p, z3.Implies(z3.And(z3.InRe(t, num_re), z3.Not(z3.InRe(t, name_re))), z3.InRe(t, z3.Plus(char_class("isdecimal")))), "post")
            p.ghost["joined"] = z3.Concat(p.ghost["joined"], t)
            p.ghost["last"] = t
            return SRec("Token", begin_pos=bp, text=tx)

        def on_raise(e, st, cls, av, p):
            # SyntaxError(text, pos=range(a, b), message=...): the constructor asserts every caret position is inside the expression
            call = st.exc
            kws = {k.arg: k.value for k in call.keywords}
            e.oblige("caret:SyntaxError quotes the caller's own string", p, z3.BoolVal(isinstance(call.args[0], ast.Name) and call.args[0].id == "text"), "post")
            pos = kws.get("pos")
            if isinstance(pos, ast.Call) and ast.unparse(pos.func) == "range" and len(pos.args) == 2:
                (a, _), = list(e.ev(pos.args[0], p.fork()))
                (b, _), = list(e.ev(pos.args[1], p.fork()))
                e.oblige("caret:positions of a lexer SyntaxError lie inside the text", p, z3.Or(a.t >= b.t, z3.And(0 <= a.t, b.t <= z3.Length(text))), "post")
            else:
                e.oblige("caret:positions of a lexer SyntaxError lie inside the text", p, z3.BoolVal(False), "post")

        eng.on_raise = on_raise
        eng.contracts.update({"ExpressionIndicator": SContract(c_indicator), "Token": SContract(c_token)})

        def inv(e, p):
            sp, pos = p.lookup("start_pos").t, p.lookup("pos").t
            return z3.And(0 <= sp, sp <= pos, pos <= z3.Length(text), p.ghost["joined"] == z3.SubString(text, 0, sp))

        eng.invariants[0] = inv
        return {"text": SStr(text)}, [], {"joined": z3.StringVal("")}

    def post(self, eng, out, p):
        if isinstance(out, Raise):
            return  # SyntaxError exits are checked at the raise site (caret obligations)
        eng.oblige("cut-point:the token texts concatenate to the caller's text", p, p.ghost["joined"] == self.text, "post")

    def twin(self, tier):
        return twin_lexer(4 if tier == "quick" else 5)


ALPHABET = ["a", "b1", "_", "1", "07", "(", ")", "[", "]", "...", "->", ",", "+", " ", "|", ".", "-", ">", "²", "é", "{", "٣"]


def check_lex(s):
    """native check of the same contract on the real parse_op (whole function): tokens re-concatenate (observed through success / error text)"""
    import einx._src.namedtensor.stage1.parse as P
    import einx

    try:
        P.parse_op(s)
        return None
    except einx.errors.SyntaxError as e:
        if s not in str(e):
            return f"parse_op({s!r}): SyntaxError message does not quote the caller's string"
        return None
    except RecursionError:
        return None
    except Exception as e:  # noqa
        return f"parse_op({s!r}) raised {type(e).__module__}.{type(e).__name__}: {str(e)[:80]}"


def twin_lexer(maxlen):
    import itertools

    n, fails = 0, []
    for k in range(0, maxlen + 1):
        for toks in itertools.product(ALPHABET, repeat=k):
            if k >= 4 and sum(t in ("|", ".", "-", ">", "²", "é", "{", "٣", "07", "_") for t in toks) > 1:
                continue
            n += 1
            s = "".join(toks)
            bad = check_lex(s)
            if bad:
                fails.append({"detail": bad, "string": s, "replay": {"fn": "vf.kernels.c12_lexer:check_lex", "args": [s]}})
                if len(fails) >= 3:
                    return n, fails
    return n, fails


KERNELS = [Lexer()]
