"""Sidecar contract for namedtensor_calltensorfactory.py :: _call_tensorfactory (C13): what a tensor factory is invoked with.

The real function is executed symbolically for a tensor of ARBITRARY rank and shape and for each of a family of concrete factory signatures (the keyword
filter depends on the signature only through parameter names and kinds, a finite domain):
  * a factory is invoked exactly once, positionally with ONE argument: the tuple of its expression's resolved dimensions, in order;
  * of the optional keywords offered (name, arg_index, signature) exactly those are passed that the factory declares as positional-or-keyword or keyword-only
    parameters - all of them if it declares **kwargs - with the offered values, unchanged; nothing else is passed;
  * a tensor that is not a factory is passed through untouched and nothing is invoked."""
import inspect
import z3
from ..pyvc import *  # noqa
from .base import Kernel
from .c06_freeze import dictcomp_hook

P = inspect.Parameter
SIGS = {
    "shape_only": {"shape": P.POSITIONAL_OR_KEYWORD},
    "shape_name": {"shape": P.POSITIONAL_OR_KEYWORD, "name": P.POSITIONAL_OR_KEYWORD},
    "kwonly_arg_index": {"shape": P.POSITIONAL_OR_KEYWORD, "arg_index": P.KEYWORD_ONLY},
    "var_kwargs": {"shape": P.POSITIONAL_OR_KEYWORD, "kw": P.VAR_KEYWORD},
    "posonly_name": {"shape": P.POSITIONAL_ONLY, "name": P.POSITIONAL_ONLY},
    "all_three": {"shape": P.POSITIONAL_OR_KEYWORD, "signature": P.KEYWORD_ONLY, "name": P.KEYWORD_ONLY, "arg_index": P.POSITIONAL_OR_KEYWORD},
    "var_positional": {"args": P.VAR_POSITIONAL},
    "unrelated_kw": {"shape": P.POSITIONAL_OR_KEYWORD, "dtype": P.KEYWORD_ONLY},
}
OFFERED = ("signature", "arg_index", "name")


def expected(sig):
    if any(k == P.VAR_KEYWORD for k in sig.values()):
        return sorted(OFFERED)
    return sorted(n for n in OFFERED if sig.get(n) in (P.POSITIONAL_OR_KEYWORD, P.KEYWORD_ONLY))


class CallFactory(Kernel):
    prop = "C13"
    file = "einx/_src/adapter/namedtensor_calltensorfactory.py"
    module = "einx._src.adapter.namedtensor_calltensorfactory"
    qual = "_call_tensorfactory"
    sig = "shape_only"
    factory = True

    def setup(self, eng, bound=None):
        self.n = z3.Int("ndim")
        self.sh = z3.Array("shape", I, I)
        self.offered = {"signature": SObj(z3.Const("kw_signature", Obj)), "arg_index": SInt(z3.Int("kw_arg_index")), "name": SObj(z3.Const("kw_name", Obj))}
        params = SDict({nm: SRec("Parameter", kind=SConc(kd)) for nm, kd in SIGS[self.sig].items()})
        ctype = SConc(type(lambda: 0) if self.factory else int)
        val = SRec("ConvertibleTensor", shape=SSeq(self.sh, self.n, "int", "tuple"), concrete=SRec("concrete", type=ctype, parameters=params), tag=SConc("value"))
        val.isa = ("ConvertibleTensor", "tracer.signature.classical.ConvertibleTensor")
        if not self.factory and self.sig == "plain_tensor":
            val = SRec("Tensor", shape=SSeq(self.sh, self.n, "int", "tuple"), tag=SConc("value"))
        self.val = val
        self.expr = z3.Const("expr", Obj)

        def c_issubclass(e, p, av, kw):
            from collections.abc import Callable
            if not (isinstance(av[0], SConc) and isinstance(av[0].v, type)):
                raise OutOfSubset("issubclass of a symbolic class")
            return SBool(issubclass(av[0].v, Callable))

        def c_call(e, p, av, kw):
            p.ghost["calls"] = list(p.ghost.get("calls", [])) + [(list(av), dict(kw))]
            return SRec("factory_output", tag=SConc("output"))

        eng.contracts.update({"issubclass": SContract(c_issubclass, "issubclass(concrete type, Callable)"), "tracer.signature.python.call": SContract(c_call, "python.call(factory, args, kwargs): traced invocation")})
        dictcomp_hook(eng)
        orig_method = eng.method

        def method(n, o, attr, av, kw, p):
            if isinstance(o, SDict) and attr == "values" and not av:
                yield STup(list(o.d.values()), "list"), p
                return
            yield from orig_method(n, o, attr, av, kw, p)

        eng.method = method
        tensor = SRec("NamedTensor", expr=SObj(self.expr), value=val)
        return {"tensor": tensor, "kwargs": SDict(dict(self.offered))}, [self.n >= 0], {}

    def post(self, eng, out, p):
        if isinstance(out, Raise):
            eng.oblige("post:no exception", p, z3.BoolVal(False), "post")
            return
        r = out.v
        calls = p.ghost.get("calls", [])
        ok_form = isinstance(r, STup) and len(r.items) == 3
        eng.oblige("post:returns (tensor, expr, called)", p, z3.BoolVal(ok_form), "post")
        if not ok_form:
            return
        t, ex, called = r.items
        eng.oblige("post:the expression is returned unchanged", p, ex.t == self.expr if isinstance(ex, SObj) else z3.BoolVal(False), "post")
        if not self.factory:
            eng.oblige("post:a tensor that is not a factory is passed through, nothing is invoked, called=False", p, z3.And(z3.BoolVal(t is self.val and not calls), z3.Not(eng.truth(called))), "post")
            return
        eng.oblige("post:a factory is invoked exactly once and called=True", p, z3.And(z3.BoolVal(len(calls) == 1), eng.truth(called)), "post")
        if len(calls) != 1:
            return
        av, kw = calls[0]
        eng.oblige("post:the traced call receives the factory itself and its output is what is returned", p, z3.BoolVal(len(av) == 1 and av[0] is self.val and isinstance(t, SRec) and t.cls == "factory_output"), "post")
        args, kwargs = kw.get("args"), kw.get("kwargs")
        good = isinstance(args, STup) and len(args.items) == 1
        eng.oblige("post:exactly one positional argument", p, z3.BoolVal(good), "post")
        if good:
            s = eng.as_seq(args.items[0], p)
            k = fresh("k")
            eng.oblige("post:that argument is the tuple of the resolved dimensions, in order", p, z3.And(z3.BoolVal(s.pykind == "tuple"), s.n == self.n, z3.ForAll([k], z3.Implies(z3.And(0 <= k, k < self.n), z3.Select(s.arr, k) == z3.Select(self.sh, k)))), "post")
        want = expected(SIGS[self.sig])
        eng.oblige(f"post:keywords passed = offered keywords the factory declares ({', '.join(want) or 'none'})", p, z3.BoolVal(isinstance(kwargs, SDict) and sorted(kwargs.d) == want), "post")
        if isinstance(kwargs, SDict):
            eng.oblige("post:keyword values are the offered values, unchanged", p, z3.And(z3.BoolVal(True), *[kwargs.d[nm].t == self.offered[nm].t for nm in kwargs.d if nm in self.offered and type(kwargs.d[nm]) is type(self.offered[nm])],
                       z3.BoolVal(all(nm in self.offered and type(kwargs.d[nm]) is type(self.offered[nm]) for nm in kwargs.d))), "post")

    def twin(self, tier):
        import numpy as np
        import einx
        n, fails = 0, []
        seen = {}

        def f_shape(shape):
            seen["a"] = (shape,)
            return np.zeros(shape)

        def f_name(shape, name):
            seen["b"] = (shape, name)
            return np.zeros(shape)

        def f_kw(shape, **kw):
            seen["c"] = (shape, sorted(kw))
            return np.zeros(shape)

        def f_kwonly(shape, *, arg_index):
            seen["d"] = (shape, arg_index)
            return np.zeros(shape)

        x = np.ones((2, 3))
        for key, f, want in (("a", f_shape, ((2, 3),)), ("b", f_name, ((2, 3), "add")), ("c", f_kw, ((2, 3), ["arg_index", "name", "signature"])), ("d", f_kwonly, ((2, 3), 1))):
            n += 1
            einx.add("a b, a b", x, f)
            if seen.get(key) != want:
                fails.append({"detail": f"factory {f.__name__} received {seen.get(key)!r}, expected {want!r}"})
        return n, fails[:3]


def _mk(base, name, **attrs):
    return type(name, (base,), attrs)()


KERNELS = []
for sg in SIGS:
    KERNELS.append(_mk(CallFactory, f"Call_{sg}", sig=sg, id=f"C13.P.call_factory[{sg}]",
                       describe=f"_call_tensorfactory, factory signature {sg} {dict((k, v.name) for k, v in SIGS[sg].items())}, any rank: invoked once with the tuple of resolved dimensions and exactly the declared optional keywords {expected(SIGS[sg])}"))
KERNELS.append(_mk(CallFactory, "Call_noncallable", sig="shape_only", factory=False, id="C13.P.call_factory[not a factory]", describe="_call_tensorfactory on a convertible tensor whose concrete type is not callable: passed through, nothing invoked, called=False"))
