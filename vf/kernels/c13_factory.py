"""Sidecar contract for namedtensor_calltensorfactory.py :: _assert_output (C13): what is checked at run time about a tensor factory's return value.

Data-flow contract, decided by symbolic execution of the real function with provenance-carrying values:
  * nothing is added for arguments that were not produced by a factory (called == False);
  * otherwise the value that reaches the operation is  cast(assert_(assert_(raw, isinstance(raw, T)), tuple(RUNTIME_SHAPE(...)) == expr.shape), Tensor(shape=expr.shape))
    where RUNTIME_SHAPE is the traced `.shape` attribute of a value that is NOT yet annotated with a static shape - a shape check on an
    already-cast tensor compares the expected shape with itself and can never fail.
"""
import z3
from ..pyvc import *  # noqa
from .base import Kernel


def V(kind, **f):
    r = SRec("val", **f)
    r.kind_ = kind
    return r


class AssertOutput(Kernel):
    id = "C13.P.assert_output"
    prop = "C13"
    file = "einx/_src/adapter/namedtensor_calltensorfactory.py"
    module = "einx._src.adapter.namedtensor_calltensorfactory"
    qual = "_assert_output"
    called = True
    describe = ("a factory's return value reaches the operation only through: assert isinstance(raw, expected type), then assert tuple(run-time shape of the un-annotated value) == expr.shape, "
                "then the cast that annotates the static shape (in this order); values that no factory produced are passed through untouched")

    def setup(self, eng, bound=None):
        raw = V("raw")
        self.log = []

        def c_assert(e, p, av, kw):
            x, cond, msg = av[0], av[1], av[2] if len(av) > 2 else None
            r = V("asserted", of=x, cond=cond)
            p.ghost["asserts"] = list(p.ghost.get("asserts", [])) + [(x, cond)]
            return r

        def c_isinstance(e, p, av, kw):
            return V("isinstance", of=av[0], klass=av[1])

        def c_equal(e, p, av, kw):
            return V("equal", a=av[0], b=av[1])

        def c_tuple(e, p, av, kw):
            return V("tuple", of=av[0])

        def c_cast(e, p, av, kw):
            p.ghost["casts"] = list(p.ghost.get("casts", [])) + [(av[0], len(p.ghost.get("asserts", [])))]
            r = V("cast", of=av[0])
            r.f["shape"] = SConc(("STATIC", "expr.shape"))
            return r

        def c_named(e, p, av, kw):
            return V("named", tensor=av[0], expr=av[1])

        eng.contracts.update({"tracer.signature.python.assert_": SContract(c_assert), "tracer.signature.python.builtins.isinstance": SContract(c_isinstance),
                              "tracer.signature.python.equal": SContract(c_equal), "tracer.signature.python.builtins.tuple": SContract(c_tuple),
                              "tracer.cast": SContract(c_cast), "NamedTensor": SContract(c_named)})
        # `.shape` of a value that carries no static annotation is a traced (run-time) attribute
        orig_getattr = eng.getattr

        def getattr_(o, attr, p, lineno=None):
            if isinstance(o, SRec) and getattr(o, "kind_", None) in ("raw", "asserted") and attr == "shape":
                return V("runtime_shape", of=o)
            return orig_getattr(o, attr, p, lineno)

        eng.getattr = getattr_
        self.raw = raw
        expr = SRec("expr", shape=SConc(("EXPR", "expr.shape")))
        T = SObj(z3.Const("expected_type", Obj))
        self.T = T
        pre = [uf("is_type", Obj, B)(T.t)]  # expected_type is a class here (the callable-returning-a-type form only adds one call before the checks)
        return {"tensor": raw, "expr": expr, "called": SBool(self.called), "expected_type": T, "tracer": SObj(z3.Const("tracer", Obj)), "callable": SContract(lambda e, p, av, kw: SBool(True))}, pre, {}

    @staticmethod
    def base_of(v):
        """strip asserts: the value an assertion chain is about"""
        while isinstance(v, SRec) and getattr(v, "kind_", None) == "asserted":
            v = v.f["of"]
        return v

    def post(self, eng, out, p):
        if isinstance(out, Raise):
            eng.oblige(f"post:no {out.cls}", p, z3.BoolVal(False), "post")
            return
        r = out.v if isinstance(out, Return) else None
        ok_named = isinstance(r, SRec) and getattr(r, "kind_", None) == "named"
        eng.oblige("post:returns NamedTensor(tensor, expr)", p, z3.BoolVal(ok_named), "post")
        if not ok_named:
            return
        t = r.f["tensor"]
        asserts, casts = p.ghost.get("asserts", []), p.ghost.get("casts", [])
        if not self.called:
            eng.oblige("post:a value that no factory produced is passed through untouched (no assertion, no cast)", p, z3.BoolVal(t is self.raw and not asserts and not casts), "post")
            return
        eng.oblige("post:exactly two assertions and one cast are emitted", p, z3.BoolVal(len(asserts) == 2 and len(casts) == 1), "post")
        if len(asserts) != 2 or len(casts) != 1:
            return
        (x1, c1), (x2, c2) = asserts
        eng.oblige("post:first assertion: isinstance(raw factory output, expected type), attached to the raw output", p,
                   z3.BoolVal(x1 is self.raw and getattr(c1, "kind_", None) == "isinstance" and c1.f["of"] is self.raw and c1.f["klass"] is self.T), "post")
        shape_src = c2.f["a"].f["of"] if getattr(c2, "kind_", None) == "equal" and getattr(c2.f["a"], "kind_", None) == "tuple" else None
        runtime = isinstance(shape_src, SRec) and getattr(shape_src, "kind_", None) == "runtime_shape" and self.base_of(shape_src.f["of"]) is self.raw
        eng.oblige("post:second assertion compares tuple(RUN-TIME .shape of the not yet annotated factory output) with expr.shape", p,
                   z3.BoolVal(bool(runtime) and isinstance(c2.f.get("b"), SConc) and c2.f["b"].v == ("EXPR", "expr.shape") and self.base_of(x2) is self.raw), "post")
        eng.oblige("post:the assertions form ONE chain ending in the graph output: the second assertion is applied to the result of the first (an assertion that is not an ancestor of the output is never emitted)", p,
                   z3.BoolVal(getattr(x2, "kind_", None) == "asserted" and x2.f["of"] is self.raw and getattr(casts[0][0], "kind_", None) == "asserted" and casts[0][0].f["of"] is x2), "post")
        eng.oblige("post:the static-shape cast comes after both assertions and wraps the asserted value", p,
                   z3.BoolVal(casts[0][1] == 2 and getattr(casts[0][0], "kind_", None) == "asserted" and getattr(t, "kind_", None) == "cast" and t.f["of"] is casts[0][0]), "post")

    def twin(self, tier):
        """native: factories returning a wrong shape / wrong type must make the call fail (cold and warm)"""
        import numpy as np
        import einx
        n, fails = 0, []
        x = np.ones((2, 3))
        for desc, kw, good, bads in [("a b, b c -> a c", {"c": 4}, (3, 4), [(3, 5), (4, 3), (12,), (3, 4, 1)]), ("a b, b -> a b", {}, (3,), [(1,), (3, 1), ()])]:
            for rep in range(2):
                for shp in [good] + bads:
                    n += 1
                    try:
                        r = einx.dot(desc, x, lambda shape: np.ones(shp), **kw) if "->" in desc and "c" in desc else einx.add(desc, x, lambda shape: np.ones(shp), **kw)
                        accepted = True
                    except Exception:  # noqa
                        accepted = False
                    if accepted != (shp == good):
                        fails.append({"detail": f"factory returning shape {shp} for an expression of shape {good} in {desc!r}: {'accepted' if accepted else 'rejected'} (execution {rep})"})
        return n, fails[:3]


class AssertOutputNotCalled(AssertOutput):
    id = "C13.P.assert_output[not called]"
    called = False


KERNELS = [AssertOutput(), AssertOutputNotCalled()]
