"""Data-flow contracts of the lowering wrappers in decomposednamedtensor_from_classical.py (C14 / C15 / C01), decided by symbolic execution of the
real functions with provenance-carrying values (every helper returns a record of what it was applied to):

  update_at_ravelled.inner   coordinates are ravelled against, and the update tensor is aligned to, ONE joined expression; the scatter op is applied to
                             (flattened target, ravelled coordinates, aligned updates); the result is reshaped back to the target expression
  get_at_ravelled.get_at     coordinates are ravelled against the output expression; the gather reads the flattened tensor along axis 0
  reduce.inner               the elementary function is called exactly once, on the whole tensor, with axis = _expr_to_axis(input expression) and the caller's
                             keywords, wrapped by _ensure_output with the un-bracketed expression's shape - also when no axis is bracketed
  preserve_shape.inner       likewise, the expression is unchanged
"""
import z3
from ..pyvc import *  # noqa
from .base import Kernel

F = "einx/_src/adapter/decomposednamedtensor_from_classical.py"
M = "einx._src.adapter.decomposednamedtensor_from_classical"


def V(kind, **f):
    r = SRec("val", **f)
    r.kind_ = kind
    return r


def kind(v):
    return getattr(v, "kind_", None)


def named(value, expr):
    return SRec("NamedTensor", value=value, expr=expr)


class _Flow(Kernel):
    file, module = F, M

    def common(self, eng):
        log = self.log = []

        def rec(name):
            def c(e, p, av, kw):
                r = V(name, args=STup(list(av)), kw=SDict(dict(kw)))
                if name in ("stage3.remove", "_join_exprs"):
                    r.f["shape"] = V("shape_of", of=r)  # expressions have a shape
                p.ghost["calls"] = list(p.ghost.get("calls", [])) + [(name, list(av), dict(kw), r)]
                return r
            return SContract(c, name)

        self.rec = rec
        eng.contracts.update({"NamedTensor": SContract(lambda e, p, av, kw: named(av[0], av[1]), "NamedTensor(value, expr)"),
                              "stage3.remove": rec("stage3.remove"), "_join_exprs": rec("_join_exprs"), "_ravel": rec("_ravel"), "_expr_to_axis": rec("_expr_to_axis"),
                              "_squeeze_transpose_broadcast": SContract(self.c_stb, "_squeeze_transpose_broadcast"), "_ensure_output": SContract(self.c_ensure, "_ensure_output"),
                              "classical.reshape": rec("classical.reshape"), "classical.get_at": rec("classical.get_at")})

    def c_stb(self, e, p, av, kw):
        r_expr, r_tensor = V("stb.expr", args=STup(list(av)), kw=SDict(dict(kw))), V("stb.tensor", args=STup(list(av)), kw=SDict(dict(kw)))
        p.ghost["calls"] = list(p.ghost.get("calls", [])) + [("_squeeze_transpose_broadcast", list(av), dict(kw), r_tensor)]
        return STup([r_expr, r_tensor])

    def c_ensure(self, e, p, av, kw):
        wrapped = V("ensured_op", of=av[0], shapes=av[1] if len(av) > 1 else None, kw=SDict(dict(kw)))

        def call(e2, p2, av2, kw2):
            r = V("op_result", args=STup(list(av2)), kw=SDict(dict(kw2)))
            p2.ghost["calls"] = list(p2.ghost.get("calls", [])) + [("ensured_op", list(av2), dict(kw2), r, wrapped)]
            return r

        c = SContract(call, "op wrapped by _ensure_output")
        c.wrapped = wrapped
        return c

    def calls(self, p, name):
        return [c for c in p.ghost.get("calls", []) if c[0] == name]


def expr_obj(name):
    e = SRec("expr", shape=V("shape_of", of=name), value=V("value_of", of=name))
    e.tag = name
    return e


class UpdateAtFlow(_Flow):
    id = "C14.P.update_flow"
    prop = "C14"
    qual = "update_at_ravelled/inner"
    describe = ("set_at/add_at/subtract_at lowering (one coordinate tensor): ONE joined expression J = _join_exprs(un-bracketed coordinates, updates, target - in this order); coordinates = _ravel(target expr, coords, coord exprs, J); "
                "updates = _squeeze_transpose_broadcast(updates -> J, broadcast_to_unitary=True) ALWAYS; op(reshape(target, (size,)), coordinates, aligned updates); result reshaped to the target shape and returned with the target expression")

    def setup(self, eng, bound=None):
        self.common(eng)
        self.xt, self.xc, self.xu = (SObj(z3.Const(n, Obj)) for n in ("target_tensor", "coord_tensor", "update_tensor"))
        self.et, self.ec, self.eu = expr_obj("expr_tensor"), expr_obj("expr_coords"), expr_obj("expr_updates")
        tensors = STup([named(self.xt, self.et), named(self.xc, self.ec), named(self.xu, self.eu)])
        eng.contracts["op"] = self.rec("op")
        eng.contracts["isinstance"] = SContract(lambda e, p, av, kw: SBool(True))
        return {"tensors": tensors, "out": expr_obj("out"), "op": eng.contracts["op"], "classical": SObj(z3.Const("classical", Obj)), "stage3": SObj(z3.Const("stage3", Obj))}, [], {}

    def post(self, eng, out, p):
        if not isinstance(out, Return):
            eng.oblige("post:returns normally", p, z3.BoolVal(False), "post")
            return
        ok = lambda name, cond: eng.oblige(name, p, z3.BoolVal(bool(cond)), "post")  # noqa
        joins, ravels, stbs, ops, reshapes = (self.calls(p, n) for n in ("_join_exprs", "_ravel", "_squeeze_transpose_broadcast", "op", "classical.reshape"))
        ok("post:exactly one joined expression, one ravel, one alignment of the updates, one scatter call, two reshapes", len(joins) == 1 and len(ravels) == 1 and len(stbs) == 1 and len(ops) == 1 and len(reshapes) == 2)
        if not (len(joins) == 1 and len(ravels) == 1 and len(stbs) == 1 and len(ops) == 1 and len(reshapes) == 2):
            return
        J = joins[0][3]
        jl = joins[0][1][0]
        removed = [c for c in self.calls(p, "stage3.remove")]
        src = [c[1][0] for c in removed]
        ok("post:the joined expression is built from (coordinates, updates, target), brackets removed, in this order",
           isinstance(jl, STup) and len(jl.items) == 3 and all(kind(x) == "stage3.remove" for x in jl.items) and [x.f["args"].items[0] for x in jl.items] == [self.ec, self.eu, self.et])
        rav = ravels[0]
        ok("post:coordinates are ravelled against the target expression and the joined expression", len(rav[1]) == 5 and rav[1][1] is self.et and rav[1][4] is J and isinstance(rav[1][2], STup) and rav[1][2].items == [self.xc]
           and isinstance(rav[1][3], STup) and rav[1][3].items == [self.ec])
        sb = stbs[0]
        ok("post:the update tensor is aligned to the SAME joined expression (always, with broadcast_to_unitary=True)",
           len(sb[1]) == 4 and sb[1][1] is self.eu and sb[1][2] is self.xu and sb[1][3] is J and isinstance(sb[2].get("broadcast_to_unitary"), SBool) and z3.is_true(z3.simplify(sb[2]["broadcast_to_unitary"].t)))
        opc = ops[0]
        flat = reshapes[0]
        ok("post:the target is flattened to (expr_tensor.value,) first", flat[1][0] is self.xt and isinstance(flat[1][1], STup) and len(flat[1][1].items) == 1 and flat[1][1].items[0] is self.et.f["value"])
        ok("post:the scatter primitive is applied to (flattened target, ravelled coordinates, aligned updates)", len(opc[1]) == 3 and opc[1][0] is flat[3] and opc[1][1] is rav[3] and opc[1][2] is sb[3])
        back = reshapes[1]
        ok("post:the result of the scatter is reshaped back to the target shape", back[1][0] is opc[3] and back[1][1] is self.et.f["shape"])
        r = out.v
        ok("post:the returned named tensor carries the reshaped result and the target expression", isinstance(r, SRec) and r.cls == "NamedTensor" and r.f["value"] is back[3] and r.f["expr"] is self.et)

    def twin(self, tier):
        """native: update axes in another order with equal sizes, through the public API against an explicit loop"""
        import itertools
        import numpy as np
        import einx
        n, fails = 0, []
        for op, desc, cshape, ushape in [("add_at", "[h], p q, q p", (3, 3), (3, 3)), ("set_at", "[h], p q, q p", (2, 2), (2, 2)), ("subtract_at", "b [h] c, p b, b c p", (3, 2), (2, 3, 3))]:
            n += 1
            rng = np.random.RandomState(n)
            if desc.startswith("[h]"):
                x = np.zeros(12)
                idx = np.arange(cshape[0] * cshape[1]).reshape(cshape)
                u = rng.randint(1, 50, size=ushape).astype(float)
                exp = x.copy()
                for p_, q_ in itertools.product(range(cshape[0]), range(cshape[1])):
                    exp[idx[p_, q_]] = (exp[idx[p_, q_]] + u[q_, p_]) if op == "add_at" else u[q_, p_]
            else:
                x = np.zeros((2, 4, 3))
                idx = rng.randint(0, 4, size=cshape)
                u = rng.randint(1, 50, size=ushape).astype(float)
                exp = x.copy()
                for p_, b_, c_ in itertools.product(range(3), range(2), range(3)):
                    exp[b_, idx[p_, b_], c_] -= u[b_, c_, p_]
            try:
                got = np.asarray(getattr(einx, op)(desc, x.copy(), idx, u))
            except Exception as e:  # noqa
                fails.append({"detail": f"einx.{op}({desc!r}) raised {type(e).__name__}: {e}"})
                continue
            if not np.array_equal(got, exp):
                fails.append({"detail": f"einx.{op}({desc!r}) with update axes in another order of equal sizes differs from the explicit loop"})
        return n, fails[:3]


class GetAtFlow(_Flow):
    id = "C14.P.get_flow"
    prop = "C14"
    qual = "get_at_ravelled/get_at"
    describe = "get_at lowering: coordinates = _ravel(tensor expr, coords, coord exprs, OUT expression); values = classical.get_at(reshape(tensor, (size,)), coordinates, axis=0); returned with the output expression"

    def setup(self, eng, bound=None):
        self.common(eng)
        self.xt, self.xc = SObj(z3.Const("tensor_value", Obj)), SObj(z3.Const("coord_tensor", Obj))
        self.et, self.ec, self.out = expr_obj("expr_tensor"), expr_obj("expr_coords"), expr_obj("out")
        return {"tensor": named(self.xt, self.et), "coordinates": STup([named(self.xc, self.ec)]), "out": self.out, "classical": SObj(z3.Const("classical", Obj))}, [], {}

    def post(self, eng, out, p):
        if not isinstance(out, Return):
            eng.oblige("post:returns normally", p, z3.BoolVal(False), "post")
            return
        ok = lambda name, cond: eng.oblige(name, p, z3.BoolVal(bool(cond)), "post")  # noqa
        ravels, gets, reshapes = (self.calls(p, n) for n in ("_ravel", "classical.get_at", "classical.reshape"))
        if not (len(ravels) == 1 and len(gets) == 1 and len(reshapes) == 1):
            ok("post:one ravel, one flatten, one gather", False)
            return
        rav, g, fl = ravels[0], gets[0], reshapes[0]
        ok("post:coordinates are ravelled against the tensor expression and the OUTPUT expression", len(rav[1]) == 5 and rav[1][1] is self.et and rav[1][4] is self.out and rav[1][2].items == [self.xc] and rav[1][3].items == [self.ec])
        ok("post:the tensor is flattened to (expr_tensor.value,)", fl[1][0] is self.xt and isinstance(fl[1][1], STup) and fl[1][1].items == [self.et.f["value"]])
        ok("post:the gather reads the flattened tensor with the ravelled coordinates along axis 0", g[1][0] is fl[3] and g[1][1] is rav[3] and isinstance(g[2].get("axis"), SInt) and z3.is_true(z3.simplify(g[2]["axis"].t == 0)))
        r = out.v
        ok("post:the result carries the output expression", isinstance(r, SRec) and r.cls == "NamedTensor" and r.f["value"] is g[3] and r.f["expr"] is self.out)


class ReduceFlow(_Flow):
    id = "C15.P.reduce_flow"
    prop = "C15"
    qual = "reduce/inner"
    preserve = False
    describe = ("reduction lowering: the elementary function is called exactly once (also when no axis is bracketed), on the whole tensor value, with axis=_expr_to_axis(input expression) and the caller's keywords; "
                "its output is checked by _ensure_output against the shape of the expression with the brackets removed, which is also the expression of the result")

    def setup(self, eng, bound=None):
        self.common(eng)
        self.x, self.e = SObj(z3.Const("tensor_value", Obj)), expr_obj("expr_in")
        self.opt = SObj(z3.Const("user_option", Obj))
        op_in = self.rec("op_in")
        eng.contracts["op"] = op_in
        env = {"tensor": named(self.x, self.e), "out": expr_obj("out"), "kwargs": SDict({"opt": self.opt}), "op_in": op_in, "op": op_in, "expected_type": SConc(None), "stage3": SObj(z3.Const("stage3", Obj))}
        return env, [], {}

    def post(self, eng, out, p):
        if not isinstance(out, Return):
            eng.oblige("post:returns normally", p, z3.BoolVal(False), "post")
            return
        ok = lambda name, cond: eng.oblige(name, p, z3.BoolVal(bool(cond)), "post")  # noqa
        axes = self.calls(p, "_expr_to_axis")
        calls = self.calls(p, "ensured_op") if not self.preserve else self.calls(p, "op_in")
        ok("post:the elementary function is called exactly once", len(calls) == 1)
        if len(calls) != 1 or len(axes) != 1:
            ok("post:axis is computed once from the input expression", len(axes) == 1)
            return
        c = calls[0]
        ok("post:it receives the whole tensor value as its only positional argument", len(c[1]) == 1 and c[1][0] is self.x)
        ok("post:axis = _expr_to_axis(input expression)", c[2].get("axis") is axes[0][3] and axes[0][1][0] is self.e)
        ok("post:the caller's keyword options are forwarded unchanged", c[2].get("opt") is self.opt and set(c[2]) == {"axis", "opt"})
        r = out.v
        if self.preserve:
            ok("post:the result keeps the input expression", isinstance(r, SRec) and r.cls == "NamedTensor" and r.f["value"] is c[3] and r.f["expr"] is self.e)
            return
        rem = self.calls(p, "stage3.remove")
        wrapped = c[4]
        ok("post:the function is wrapped by _ensure_output with the shape of the expression without brackets", len(rem) == 1 and rem[0][1][0] is self.e and kind(wrapped) == "ensured_op"
           and isinstance(wrapped.f["shapes"], STup) and len(wrapped.f["shapes"].items) == 1)
        ok("post:the result carries the expression without brackets", isinstance(r, SRec) and r.cls == "NamedTensor" and r.f["value"] is c[3] and len(rem) == 1 and r.f["expr"] is rem[0][3])

    def twin(self, tier):
        import numpy as np
        import einx
        n, fails = 0, []
        log = []

        def user(x, axis, *, opt=None):
            log.append((tuple(x.shape), axis, opt))
            return np.asarray(np.sum(x, axis=axis) * 2)

        ad = einx.numpy.adapt_numpylike_reduce(user)
        for desc, shape in (("a b c", (2, 3, 4)), ("a [b] c", (2, 3, 4)), ("[a b c]", (2, 3, 4)), ("a b c -> c a b", (2, 3, 4))):
            n += 1
            log.clear()
            x = np.arange(24.0).reshape(shape)
            try:
                ad(desc, x, opt="k")
            except Exception as e:  # noqa
                if "[a b c]" in desc:
                    continue  # a full reduction returns a 0-d array here; accepted or rejected by the output check, not judged
                fails.append({"detail": f"adapted reduce {desc!r} raised {type(e).__name__}: {e}"})
                continue
            if len(log) != 1 or log[0][2] != "k":
                fails.append({"detail": f"adapted reduce {desc!r}: user function called {len(log)} times / option arrived as {log[0][2] if log else None}"})
        return n, fails[:3]


class PreserveFlow(ReduceFlow):
    id = "C15.P.preserve_flow"
    qual = "preserve_shape/inner"
    preserve = True
    describe = "shape-preserving lowering (sort, flip, roll, softmax, ...): the function is called exactly once on the whole tensor with axis=_expr_to_axis(expression) and the caller's keywords; the expression is unchanged"

    def setup(self, eng, bound=None):
        env, pre, gh = super().setup(eng, bound)
        return env, pre, gh

    def twin(self, tier):
        return 0, []


KERNELS_C14 = [UpdateAtFlow(), GetAtFlow()]
KERNELS_C15 = [ReduceFlow(), PreserveFlow()]
KERNELS = KERNELS_C14 + KERNELS_C15


class DotFlow(_Flow):
    """region of dot(): from the construction of the three matmul expressions to the end"""
    id = "C08.P.dot_flow"
    prop = "C08"
    qual = "dot/dot"
    describe = ("batched-matmul lowering of dot: left is rearranged to ((batch) (left-keep) (contract)), right to ((batch) (contract) (right-keep)), the product is ((batch) (left-keep) (right-keep)); "
                "the batch axes appear in ONE order (the same list) in all three, likewise the contracted axes in left and right; every axis carries the length recorded for its name; "
                "classical.matmul(left, right) is applied to the two rearranged tensors and its result is rearranged to the requested output")

    def region(self, fnode):
        import ast
        body = fnode.body
        a = [i for i, st in enumerate(body) if isinstance(st, ast.Assign) and ast.unparse(st.targets[0]) == "left_matmul_expr"]
        if len(a) != 1:
            raise LookupError("anchor `left_matmul_expr = ...` not found exactly once in dot()")
        return body[a[0]:]

    def setup(self, eng, bound=None):
        self.common(eng)
        self.lists = {}
        env = {}
        for nm in ("batch_axis_names", "left_keep_axis_names", "contract_axis_names", "right_keep_axis_names"):
            arr, n = z3.Array(nm, I, Obj), z3.Int("n_" + nm)
            self.lists[nm] = (arr, n)
            env[nm] = SSeq(arr, n, "obj", "list")
        self.mk = uf("stage3.Axis", Obj, Obj, Obj)
        self.lengths = z3.Const("lengths", Obj)
        self.getlen = uf("getitem[o]", Obj, Obj, Obj)
        self.t1, self.t2 = SObj(z3.Const("tensor1", Obj)), SObj(z3.Const("tensor2", Obj))
        self.e1, self.e2, self.out = expr_obj("expr1"), expr_obj("expr2"), expr_obj("out")

        def c_axis(e, p, av, kw):
            return SObj(self.mk(av[0].t, av[1].t))

        def c_list(e, p, av, kw):
            v = av[0]
            r = V("List", of=v)
            r.f["shape"] = V("shape_of", of=r)
            return r

        def c_flat(e, p, av, kw):
            return V("Flat", of=av[0])

        def c_id(e, p, av, kw):
            r = named(V("id_result", args=STup(list(av)), kw=SDict(dict(kw))), kw.get("out"))
            p.ghost["calls"] = list(p.ghost.get("calls", [])) + [("id", list(av), dict(kw), r.f["value"])]
            r.f["value"].f["ndim"] = SInt(3)
            return r

        eng.contracts.update({"stage3.Axis": SContract(c_axis, "stage3.Axis(name, length)"), "stage3.List.create": SContract(c_list, "stage3.List.create"), "stage3.FlattenedAxis.create": SContract(c_flat, "stage3.FlattenedAxis.create"),
                              "id": SContract(c_id, "id (rearrangement of a named tensor to the expression out=)"), "classical.matmul": self.rec("classical.matmul")})
        eng.opaque_seq_kind = "obj"
        env.update({"lengths": SObj(self.lengths), "tensor1": self.t1, "tensor2": self.t2, "expr1": self.e1, "expr2": self.e2, "out": self.out, "classical": SObj(z3.Const("classical", Obj)), "stage3": SObj(z3.Const("stage3", Obj))})
        pre = [n >= 0 for _, n in self.lists.values()]
        return env, pre, {}

    def is_group(self, eng, p, flat, listname):
        """flat = FlattenedAxis(List([Axis(name, lengths[name]) for name in <listname>])): returns a z3 Bool (False if the structure differs)"""
        if kind(flat) != "Flat" or kind(flat.f["of"]) != "List":
            return z3.BoolVal(False)
        seq = flat.f["of"].f["of"]
        try:
            sq = eng.as_seq(seq, p, ek="obj")
        except OutOfSubset:
            return z3.BoolVal(False)
        arr, n = self.lists[listname]
        k = fresh("k")
        return z3.And(sq.n == n, z3.ForAll([k], z3.Implies(z3.And(0 <= k, k < n), z3.Select(sq.arr, k) == self.mk(z3.Select(arr, k), self.getlen(self.lengths, z3.Select(arr, k))))))

    def post(self, eng, out, p):
        if not isinstance(out, Return):
            eng.oblige("post:returns normally (the rearranged operands have rank 3)", p, z3.BoolVal(False), "post")
            return
        ids, mms = self.calls(p, "id"), self.calls(p, "classical.matmul")
        ok = lambda name, cond: eng.oblige(name, p, z3.BoolVal(bool(cond)), "post")  # noqa
        ok("post:three rearrangements and one matmul", len(ids) == 3 and len(mms) == 1)
        if len(ids) != 3 or len(mms) != 1:
            return

        def groups(expr, names, what):
            ch = expr.f["of"].items if kind(expr) == "List" and isinstance(expr.f["of"], STup) else None
            if ch is None or len(ch) != 3:
                eng.oblige(f"post:{what} is a list of three flattened groups", p, z3.BoolVal(False), "post")
                return
            for pos, (c, nm) in enumerate(zip(ch, names)):
                eng.oblige(f"post:{what}: group {pos + 1} is exactly the {nm.replace('_axis_names', '').replace('_', '-')} axes, in the order of that list, each with its recorded length", p, self.is_group(eng, p, c, nm), "post")

        L, R, O = ids[0], ids[1], ids[2]
        ok("post:the left operand (tensor1 under expr1) is rearranged first, the right operand (tensor2 under expr2) second", L[1][0].f["value"] is self.t1 and L[1][0].f["expr"] is self.e1 and R[1][0].f["value"] is self.t2 and R[1][0].f["expr"] is self.e2)
        groups(L[2]["out"], ["batch_axis_names", "left_keep_axis_names", "contract_axis_names"], "left matmul expression")
        groups(R[2]["out"], ["batch_axis_names", "contract_axis_names", "right_keep_axis_names"], "right matmul expression")
        mm = mms[0]
        ok("post:classical.matmul is applied to (rearranged left, rearranged right)", len(mm[1]) == 2 and mm[1][0] is L[3] and mm[1][1] is R[3])
        ok("post:the product is rearranged from the product expression to the requested output", O[1][0].f["value"] is mm[3] and O[2]["out"] is self.out)
        groups(O[1][0].f["expr"], ["batch_axis_names", "left_keep_axis_names", "right_keep_axis_names"], "product expression")
        r = out.v
        ok("post:the result carries the requested output expression", isinstance(r, SRec) and r.cls == "NamedTensor" and r.f["value"] is O[3] and r.f["expr"] is self.out)

    def twin(self, tier):
        """native: numpylike dot with two batch axes in different relative order in the two operands, against einsum"""
        import itertools
        import numpy as np
        import einx
        n, fails = 0, []
        rng = np.random.RandomState(0)
        for lo, ro in itertools.product(list(itertools.permutations("ghik")), list(itertools.permutations("hgkj")))[:: (12 if tier == "quick" else 1)] if False else list(itertools.product(list(itertools.permutations("ghik")), list(itertools.permutations("hgkj"))))[:: (24 if tier == "quick" else 3)]:
            n += 1
            sz = {"g": 2, "h": 2, "i": 3, "k": 4, "j": 2}
            x = rng.rand(*[sz[c] for c in lo])
            y = rng.rand(*[sz[c] for c in ro])
            desc = " ".join(f"[{c}]" if c == "k" else c for c in lo) + ", " + " ".join(f"[{c}]" if c == "k" else c for c in ro) + " -> g h i j"
            try:
                got = np.asarray(einx.dot(desc, x, y, backend="numpy.numpylike"))
            except Exception as e:  # noqa
                fails.append({"detail": f"einx.dot({desc!r}, backend='numpy.numpylike') raised {type(e).__name__}: {e}"})
                continue
            exp = np.einsum("".join(lo) + "," + "".join(ro) + "->ghij", x, y)
            if got.shape != exp.shape or not np.allclose(got, exp):
                fails.append({"detail": f"einx.dot({desc!r}, backend='numpy.numpylike') differs from einsum"})
        return n, fails[:3]


KERNELS_C08 = [DotFlow()]
KERNELS = KERNELS + KERNELS_C08


class DotClassify(Kernel):
    """region of dot(): the two loops that sort the axis names into batch / contracted / left-kept / right-kept"""
    id = "C08.P.dot_classify"
    prop = "C08"
    file, module = F, M
    qual = "dot/dot"
    describe = ("axis classification of dot: batch = names of the left operand that also occur in the right operand and in the output, contracted = in both operands but not in the output, "
                "left-kept = only in the left operand, right-kept = only in the right operand - each list sound and complete (its order is irrelevant: C08.P.dot_flow shows every list is used as ONE list everywhere); "
                "no AssertionError when every axis that occurs in one operand only is an output axis (checked earlier by the semantic checks)")

    def region(self, fnode):
        import ast
        body = fnode.body
        a = [i for i, st in enumerate(body) if isinstance(st, ast.Assign) and ast.unparse(st) == "batch_axis_names = []"]
        b = [i for i, st in enumerate(body) if isinstance(st, ast.For) and ast.unparse(st.iter) == "right_axis_names"]
        if len(a) != 1 or len(b) != 1 or b[0] < a[0]:
            raise LookupError("anchors `batch_axis_names = []` ... `for axis in right_axis_names:` not found in dot()")
        return body[a[0] : b[0] + 1]

    def setup(self, eng, bound=None):
        nl, nr, no = z3.Ints("n_left n_right n_out")
        L, R, O = z3.Array("left_axis_names", I, Obj), z3.Array("right_axis_names", I, Obj), z3.Array("out_axis_names", I, Obj)
        self.nl, self.nr, self.no, self.L, self.R, self.O = nl, nr, no, L, R, O

        def mem(arr, n, x):
            k = fresh("k")
            return z3.Exists([k], z3.And(0 <= k, k < n, z3.Select(arr, k) == x))

        self.inL, self.inR, self.inO = (lambda x: mem(L, nl, x)), (lambda x: mem(R, nr, x)), (lambda x: mem(O, no, x))
        self.cond = {"batch_axis_names": lambda x: z3.And(self.inR(x), self.inO(x)), "contract_axis_names": lambda x: z3.And(self.inR(x), z3.Not(self.inO(x))),
                     "left_keep_axis_names": lambda x: z3.Not(self.inR(x)), "right_keep_axis_names": lambda x: z3.Not(self.inL(x))}

        def sub(lst, src, i, cond):
            """lst holds exactly the elements of src[0:i] that satisfy cond"""
            t, u, j, j2 = fresh("t"), fresh("u"), fresh("j"), fresh("j2")
            A = lambda q: z3.Select(lst.arr, q)  # noqa
            return z3.And(lst.n >= 0,
                          z3.ForAll([t], z3.Implies(z3.And(0 <= t, t < lst.n), z3.Exists([j], z3.And(0 <= j, j < i, z3.Select(src, j) == A(t), cond(A(t)))))),
                          z3.ForAll([j], z3.Implies(z3.And(0 <= j, j < i, cond(z3.Select(src, j))), z3.Exists([t], z3.And(0 <= t, t < lst.n, A(t) == z3.Select(src, j))))))

        self.sub = sub

        def inv0(e, p, it):
            return z3.And(*[sub(e.as_seq(p.lookup(nm), p, ek="obj"), L, it, self.cond[nm]) for nm in ("batch_axis_names", "contract_axis_names", "left_keep_axis_names")],
                          e.as_seq(p.lookup("right_keep_axis_names"), p, ek="obj").n == 0)

        def inv1(e, p, it):
            ent = p.ghost["entry1"]
            return sub(e.as_seq(p.lookup("right_keep_axis_names"), p, ek="obj"), R, it, self.cond["right_keep_axis_names"])

        eng.invariants[0], eng.invariants[1] = inv0, inv1
        eng.local_types = {nm: ("list", "obj") for nm in self.cond}
        x = z3.Const("x", Obj)
        pre = [nl >= 0, nr >= 0, no >= 0,
               z3.ForAll([x], z3.Implies(z3.And(self.inL(x), z3.Not(self.inR(x))), self.inO(x))), z3.ForAll([x], z3.Implies(z3.And(self.inR(x), z3.Not(self.inL(x))), self.inO(x)))]
        env = {"left_axis_names": SSeq(L, nl, "obj", "list"), "right_axis_names": SSeq(R, nr, "obj", "list"), "out_axis_names": SSeq(O, no, "obj", "list")}
        return env, pre, {}

    def post(self, eng, out, p):
        if isinstance(out, Raise):
            eng.oblige(f"post:no {out.cls}", p, z3.BoolVal(False), "post")
            return
        for nm, src, n in (("batch_axis_names", self.L, self.nl), ("contract_axis_names", self.L, self.nl), ("left_keep_axis_names", self.L, self.nl), ("right_keep_axis_names", self.R, self.nr)):
            lst = eng.as_seq(p.lookup(nm), p, ek="obj")
            eng.oblige(f"post:{nm} holds exactly its operand's names with the stated membership (sound and complete)", p, self.sub(lst, src, n, self.cond[nm]), "post")

    def twin(self, tier):
        return 0, []


KERNELS_C08.append(DotClassify())
KERNELS = KERNELS_C14 + KERNELS_C15 + KERNELS_C08


class ElementwiseOut(Kernel):
    """region of elementwise.inner(): the output expression of the element-wise call (two operands)"""
    id = "C01.P.elementwise_out"
    prop = "C01"
    file, module = F, M
    qual = "elementwise/inner"
    allowed_raises = ("AssertionError",)
    describe = ("element-wise lowering, two operands already aligned to a common rank: the k-th output axis is a copy of an operand's k-th axis with the LARGEST length at that position "
                "(the first operand on ties), so the expression handed to the output check is the broadcast of the operand expressions; AssertionError only if the operand ranks differ")

    def region(self, fnode):
        import ast
        body = fnode.body
        a = [i for i, st in enumerate(body) if isinstance(st, ast.Assign) and ast.unparse(st.targets[0]) == "in_axes"]
        b = [i for i, st in enumerate(body) if isinstance(st, ast.Assign) and ast.unparse(st.targets[0]) == "expr_out"]
        if len(a) != 1 or len(b) != 1 or b[0] < a[0]:
            raise LookupError("anchors `in_axes = ...` / `expr_out = ...` not found in elementwise.inner")
        return body[a[0] : b[0] + 1]

    def setup(self, eng, bound=None):
        self.n = [z3.Int("n_axes0"), z3.Int("n_axes1")]
        self.A = [z3.Array("axes0", I, Obj), z3.Array("axes1", I, Obj)]
        self.value = uf("attr_value", Obj, I)
        eng.int_attrs = set(eng.int_attrs) | {"value"}
        self.copy = uf("axis_deepcopy", Obj, Obj)
        e0, e1 = z3.Const("expr0", Obj), z3.Const("expr1", Obj)

        def c_nodes(e, p, av, kw):
            ex = p.lookup("expr").t
            i = 0 if z3.eq(ex, e0) else 1
            p.pc.append(self.n[i] >= 0)
            return SSeq(self.A[i], self.n[i], "obj", "list")

        def c_argmax(e, p, av, kw):
            v = av[0]
            if not (isinstance(v, STup) and len(v.items) == 2):
                raise OutOfSubset("np.argmax on something else than a 2-element list")
            return SInt(z3.If(v.items[1].t > v.items[0].t, 1, 0))

        def c_create(e, p, av, kw):
            p.ghost["out_axes"] = e.as_seq(av[0], p, ek="obj")
            return SObj(fresh("expr_out", Obj))

        eng.contracts.update({"expr.nodes": SContract(c_nodes, "expr.nodes() (here: exactly the Axis nodes of an aligned operand expression)"), "np.argmax": SContract(c_argmax, "np.argmax (index of the first maximum)"),
                              "stage3.List.create": SContract(c_create), "isinstance": SContract(lambda e, p, av, kw: SBool(True)),
                              "out_axis_i.__deepcopy__": SContract(lambda e, p, av, kw: SObj(self.copy(p.lookup("out_axis_i").t)))})
        eng.opaque_seq_kind = "obj"
        eng.local_types = {"out_axes": ("list", "obj")}

        def inv(e, p, it):
            oa = e.as_seq(p.lookup("out_axes"), p, ek="obj")
            t = fresh("t")
            cp = uf("call_meth___deepcopy__[o,|]", Obj, Obj)
            return z3.And(oa.n == it, z3.ForAll([t], z3.Implies(z3.And(0 <= t, t < it), z3.Select(oa.arr, t) == cp(self.pick(p, t)))))

        eng.invariants[0] = inv
        env = {"exprs_in": STup([SObj(e0), SObj(e1)], "list"), "stage3": SObj(z3.Const("stage3", Obj)), "np": SObj(z3.Const("np", Obj))}
        return env, [], {}

    def operands(self, p):
        """the two lists of Axis nodes the code extracted (in_axes)"""
        ia = p.lookup("in_axes")
        return [q for q in ia.items]

    def pick(self, p, t):
        o0, o1 = self.operands(p)
        a0, a1 = z3.Select(o0.arr, t), z3.Select(o1.arr, t)
        return z3.If(self.value(a1) > self.value(a0), a1, a0)

    def post(self, eng, out, p):
        o0, o1 = self.operands(p)
        if isinstance(out, Raise):
            eng.oblige("post:AssertionError only if the aligned operands have different numbers of axes", p, o0.n != o1.n, "post")
            return
        oa = p.ghost.get("out_axes")
        if oa is None:
            eng.oblige("post:the output expression is built from the list of output axes", p, z3.BoolVal(False), "post")
            return
        t = fresh("t")
        eng.oblige("post:normal exit only for operands with equally many axes", p, o0.n == o1.n, "post")
        eng.oblige("post:one output axis per position", p, oa.n == o0.n, "post")
        # the code appends `in_axes_i[idx].__deepcopy__()`: the engine names that copy through its generic method-call abstraction
        cp = uf("call_meth___deepcopy__[o,|]", Obj, Obj)
        eng.oblige("post:the k-th output axis is a copy of the operand axis with the largest length at position k (first operand on ties)", p,
                   z3.ForAll([t], z3.Implies(z3.And(0 <= t, t < oa.n), z3.Select(oa.arr, t) == cp(self.pick(p, t)))), "post")

    def twin(self, tier):
        import numpy as np
        import einx
        n, fails = 0, []
        for desc, s1, s2 in (("a b, a 1 -> a b", (2, 3), (2, 1)), ("1 b, a b -> a b", (1, 3), (2, 3)), ("a 1, 1 b -> a b", (2, 1), (1, 3)), ("a b c, c -> a b c", (2, 3, 4), (4,))):
            n += 1
            x, y = np.arange(int(np.prod(s1)), dtype=float).reshape(s1), np.arange(int(np.prod(s2)), dtype=float).reshape(s2)
            try:
                got = np.asarray(einx.add(desc, x, y, backend="numpy.numpylike"))
            except Exception as e:  # noqa
                fails.append({"detail": f"einx.add({desc!r}) raised {type(e).__name__}: {e}"})
                continue
            exp = x + y if x.ndim == y.ndim else x + y.reshape((1,) * (x.ndim - y.ndim) + y.shape)
            if got.shape != exp.shape or not np.allclose(got, exp):
                fails.append({"detail": f"einx.add({desc!r}) differs from numpy broadcasting"})
        return n, fails[:3]


KERNELS_C01 = [ElementwiseOut()]
KERNELS = KERNELS_C14 + KERNELS_C15 + KERNELS_C08 + KERNELS_C01
