"""Sidecar contract for classical_from_numpy.py :: update_at/inner (C14): at the call of the scatter primitive, indices and updates have the same shape."""
import z3
from ..pyvc import *  # noqa
from .base import Kernel


def tensor(nd, shape_arr):
    return SRec("tensor", ndim=SInt(nd), shape=SSeq(shape_arr, nd, "int", "tuple"))


class UpdateAt(Kernel):
    id = "C14.P.bcast"
    prop = "C14"
    file = "einx/_src/adapter/numpy/classical_from_numpy.py"
    module = "einx._src.adapter.numpy.classical_from_numpy"
    qual = "update_at/inner"
    allowed_raises = ("ValueError",)
    describe = ("with broadcast= given (as all numpy registrations do): for 1-D targets and indices/updates of equal rank that are broadcast-compatible, the scatter primitive is applied to "
                "(target, indices, updates) with indices and updates of one and the same shape = element-wise maximum; ValueError only for a non-1-D target or unequal ranks")

    def setup(self, eng, bound=None):
        n = z3.Int("n")
        xi, xu = z3.Array("ishape", I, I), z3.Array("ushape", I, I)
        xn = z3.Int("xndim")
        self.n, self.xi, self.xu, self.xn = n, xi, xu, xn
        nu = z3.Int("nu")
        self.nu = nu
        k = z3.Int("k")
        X = tensor(xn, z3.Array("xshape", I, I))
        X.f["id"] = SConc("target")
        Ind, Upd = tensor(n, xi), tensor(nu, xu)

        def c_to_tensor(e, p, av, kw):
            return STup(av)

        def c_maximum(e, p, av, kw):
            a, b = (e.as_seq(v, p) for v in av)
            e.oblige("callee-pre:np.maximum on shape vectors of equal length", p, a.n == b.n, "callee-pre")
            r = fresh("max", z3.ArraySort(I, I))
            p.pc.append(e.forall(0, a.n, lambda q: z3.Select(r, q) == z3.If(z3.Select(a.arr, q) >= z3.Select(b.arr, q), z3.Select(a.arr, q), z3.Select(b.arr, q))))
            return SSeq(r, a.n, "int", "list")

        def c_asarray(e, p, av, kw):
            return av[0]

        def c_broadcast(e, p, av, kw):
            t, shape = av
            sh = e.as_seq(shape, p)
            ts = t.f["shape"]
            e.oblige("callee-pre:broadcast_to(t, shape): same rank and every dimension equals the target or is 1", p,
                     z3.And(sh.n == ts.n, e.forall(0, sh.n, lambda q: z3.Or(z3.Select(ts.arr, q) == z3.Select(sh.arr, q), z3.Select(ts.arr, q) == 1))), "callee-pre")
            return tensor(sh.n, sh.arr)

        def c_op(e, p, av, kw):
            p.ghost["scatter"] = av
            return av[0]

        eng.contracts.update({"_np.maximum": SContract(c_maximum), "_np.asarray": SContract(c_asarray)})
        env = {"x": X, "indices": Ind, "updates": Upd, "to_tensor": SContract(c_to_tensor), "broadcast": SContract(c_broadcast, "classical broadcast_to"), "reshape": SConc(None), "op": SContract(c_op, "scatter primitive")}
        self.compat = z3.And(n == nu, z3.ForAll([k], z3.Implies(z3.And(0 <= k, k < n), z3.And(xi[k] >= 1, xu[k] >= 1, z3.Or(xi[k] == xu[k], xi[k] == 1, xu[k] == 1)))))
        pre = [n >= 0, nu >= 0, xn >= 0, z3.Implies(n == nu, self.compat)]
        return env, pre, {}

    def post(self, eng, out, p):
        if isinstance(out, Raise):
            eng.oblige("post:ValueError only for a non-1-D target or indices/updates of different rank", p, z3.Or(self.xn != 1, self.n != self.nu), "post")
            return
        sc = p.ghost.get("scatter")
        if sc is None:
            eng.oblige("post:the scatter primitive is applied", p, z3.BoolVal(False), "post")
            return
        tgt, ind, upd = sc
        k = fresh("k")
        eng.oblige("post:the primitive is applied to the target tensor (first argument)", p, z3.BoolVal(isinstance(tgt, SRec) and isinstance(tgt.f.get("id"), SConc) and tgt.f["id"].v == "target"), "post")
        i_s, u_s = ind.f["shape"], upd.f["shape"]
        eng.oblige("post:indices and updates reach the primitive with one and the same shape", p, z3.And(i_s.n == u_s.n, z3.ForAll([k], z3.Implies(z3.And(0 <= k, k < i_s.n), z3.Select(i_s.arr, k) == z3.Select(u_s.arr, k)))), "post")
        eng.oblige("post:that shape is the element-wise maximum of the two argument shapes", p, z3.And(i_s.n == self.n, z3.ForAll([k], z3.Implies(z3.And(0 <= k, k < self.n), z3.Select(i_s.arr, k) == z3.If(self.xi[k] >= self.xu[k], self.xi[k], self.xu[k])))), "post")

    def twin(self, tier):
        import itertools
        import numpy as np
        import einx._src.adapter.numpy.classical_from_numpy as M

        class T:
            def __init__(self, shape):
                self.shape, self.ndim = tuple(shape), len(shape)

        n, fails = 0, []
        seen = {}

        def op(x, i, u):
            seen["args"] = (x, i, u)
            return x

        inner = M.update_at(op, to_tensor=lambda *a: a, broadcast=lambda t, s: T(s))
        for r in range(0, 4):
            for si in itertools.product([1, 2, 3], repeat=r):
                for su in itertools.product([1, 2, 3], repeat=r):
                    if not all(a == b or a == 1 or b == 1 for a, b in zip(si, su)):
                        continue
                    n += 1
                    x = T((5,))
                    inner(x, T(si), T(su))
                    tx, ti, tu = seen["args"]
                    exp = tuple(max(a, b) for a, b in zip(si, su))
                    if tx is not x or ti.shape != exp or tu.shape != exp:
                        fails.append({"detail": f"update_at.inner(indices {si}, updates {su}): primitive receives shapes {ti.shape} / {tu.shape}, expected {exp} for both"})
        return n, fails[:3]


KERNELS = [UpdateAt()]


class RavelMultiplier(Kernel):
    """local region of decomposednamedtensor_from_classical._ravel: the row-major multiplier loop (step 3)"""
    id = "C14.P.ravel"
    prop = "C14"
    file = "einx/_src/adapter/decomposednamedtensor_from_classical.py"
    module = "einx._src.adapter.decomposednamedtensor_from_classical"
    qual = "_ravel"
    describe = ("row-major ravel: after the multiplier loop the k-th coordinate tensor is scaled by suf(k+1) = prod of the lengths of all later target axes "
                "(so that their sum is the flat index), for every number of target axes; multiplication by 1 is skipped")

    def region(self, fnode):
        import ast
        body = fnode.body
        idx = [i for i, st in enumerate(body) if isinstance(st, ast.Assign) and ast.unparse(st) == "multiplier = 1"]
        if len(idx) != 1:
            raise LookupError("anchor `multiplier = 1` not found exactly once in _ravel")
        i = idx[0]
        end = [j for j in range(i, len(body)) if isinstance(body[j], ast.Assign) and ast.unparse(body[j]) == "coords = coords2"]
        if not end:
            raise LookupError("anchor `coords = coords2` after the multiplier loop not found")
        return body[i : end[0] + 1]

    def setup(self, eng, bound=None):
        n = z3.Int("n")
        c = z3.Array("coord_value", I, I)  # ghost: the integer a coordinate tensor denotes at a fixed (arbitrary) position
        ax = z3.Array("axes", I, Obj)
        val = uf("attr_value", Obj, I)
        suf = z3.Function("suf", I, I)
        self.n, self.c, self.ax, self.val, self.suf = n, c, ax, val, suf
        eng.int_attrs = set(eng.int_attrs) | {"value"}
        j = z3.Int("j")
        eng.axioms += [suf(n) == 1, z3.ForAll([j], z3.Implies(z3.And(0 <= j, j < n), suf(j) == val(ax[j]) * suf(j + 1)))]

        def c_multiply(e, p, av, kw):
            return SInt(av[0].t * av[1].t)

        eng.contracts["classical.multiply"] = SContract(c_multiply, "classical.multiply (denoted integer value)")

        def inv(e, p, i):
            m = p.lookup("multiplier").t
            c2 = e.as_seq(p.lookup("coords2"), p)
            t = fresh("t")
            return z3.And(m == suf(n - i), c2.n == i, z3.ForAll([t], z3.Implies(z3.And(0 <= t, t < i), z3.Select(c2.arr, t) == c[n - i + t] * suf(n - i + t + 1))))

        # the region contains exactly one for-loop (ordinal 0 within the region)
        eng.invariants[0] = inv
        env = {"classical": SObj(z3.Const("classical", Obj)), "coords": SSeq(c, n, "int", "list"), "expr_tensor": SSeq(ax, n, "obj", "list")}
        return env, [n >= 0], {}

    def post(self, eng, out, p):
        if out is not None and not isinstance(out, Return):
            return
        c2 = eng.as_seq(p.lookup("coords"), p)
        t = fresh("t")
        eng.oblige("post:coords[k] is scaled by the product of the lengths of all later target axes (row-major)", p,
                   z3.And(c2.n == self.n, z3.ForAll([t], z3.Implies(z3.And(0 <= t, t < self.n), z3.Select(c2.arr, t) == self.c[t] * self.suf(t + 1)))), "post")

    def twin(self, tier):
        """native: the real _ravel through the public API is exercised by the corpus; here the row-major formula of numpy is the conformance check of the spec"""
        import itertools
        import numpy as np
        n, fails = 0, []
        for r in range(1, 5):
            for shape in itertools.product([1, 2, 3], repeat=r):
                suf = [int(np.prod(shape[k + 1:])) for k in range(r)]
                for idx in itertools.product(*[range(s) for s in shape]):
                    n += 1
                    if sum(i * s for i, s in zip(idx, suf)) != int(np.ravel_multi_index(idx, shape)):
                        fails.append({"detail": f"spec suf disagrees with numpy.ravel_multi_index for {idx} in {shape}"})
        return n, fails[:3]


KERNELS.append(RavelMultiplier())


class RavelAssign(Kernel):
    """local region of _ravel, step 2: one coordinate per axis of the target expression (the caller's coordinate for a bracketed axis, an arange for a vectorised axis)"""
    id = "C14.P.ravel_assign"
    prop = "C14"
    file = "einx/_src/adapter/decomposednamedtensor_from_classical.py"
    module = "einx._src.adapter.decomposednamedtensor_from_classical"
    qual = "_ravel"
    describe = ("after step 2 there is exactly one coordinate per target axis: for the k-th axis, the b-th caller coordinate (with its expression) if the axis is bracketed and b bracketed axes precede it, "
                "otherwise arange(axis length) under a copy of the axis as its expression; every caller coordinate is consumed (as many coordinates as bracketed axes: call-site precondition); no IndexError")

    def region(self, fnode):
        import ast
        body = fnode.body
        loops = [i for i, st in enumerate(body) if isinstance(st, ast.For) and ast.unparse(st.target) == "axis" and ast.unparse(st.iter) == "expr_tensor"]
        if len(loops) != 1:
            raise LookupError("anchor `for axis in expr_tensor:` not found exactly once in _ravel")
        i = loops[0]
        if not (ast.unparse(body[i - 2]) == "coords2 = []" and ast.unparse(body[i - 1]) == "expr_coords2 = []" and ast.unparse(body[i + 1]) == "coords = coords2" and ast.unparse(body[i + 2]) == "expr_coords = expr_coords2"):
            raise LookupError("the statements around `for axis in expr_tensor:` are not the expected initialisation / hand-over")
        return body[i - 2 : i + 3]

    def setup(self, eng, bound=None):
        n, m = z3.Ints("n_axes n_coords")
        ax, C, E = z3.Array("expr_tensor", I, Obj), z3.Array("coords", I, Obj), z3.Array("expr_coords", I, Obj)
        self.n, self.m, self.ax, self.C, self.E = n, m, ax, C, E
        marked = uf("in_brackets", Obj, B)
        isM = self.isM = lambda t: marked(ax[t])  # noqa
        cnt = self.cnt = z3.Function("cnt_bracketed", I, I)
        i = z3.Int("i")
        eng.axioms += [cnt(0) == 0, z3.ForAll([i], z3.Implies(z3.And(0 <= i, i < n), cnt(i + 1) == cnt(i) + z3.If(isM(i), 1, 0)))]
        # ghost lemma L5 (monotone counting), instantiated for the pair (i + 1, n) as an axiom schema: cnt(j) <= cnt(n) for 0 <= j <= n
        eng.axioms += [z3.ForAll([i], z3.Implies(z3.And(0 <= i, i <= n), z3.And(0 <= cnt(i), cnt(i) <= cnt(n))))]
        eng.assumed.add("ghost lemma L5 partial_sums_monotone (lemmas/Lemmas.lean, checked by Lean 4 + Mathlib): cnt(j) <= cnt(n) for j <= n, cnt = partial sums of a 0/1 indicator")
        self.arange = uf("classical.arange", I, Obj, Obj)
        self.copy = uf("axis_deepcopy", Obj, Obj)
        eng.int_attrs = set(eng.int_attrs) | {"value"}
        value = uf("attr_value", Obj, I)
        self.value = value
        dt = z3.Const("coord_dtype", Obj)
        eng.contracts.update({"stage3.is_in_brackets": SContract(lambda e, p, av, kw: SBool(marked(av[0].t))),
                              "classical.arange": SContract(lambda e, p, av, kw: SObj(self.arange(av[0].t, kw["dtype"].t)), "classical.arange(length, dtype=)"),
                              "axis.__deepcopy__": SContract(lambda e, p, av, kw: SObj(self.copy(p.lookup("axis").t)), "axis.__deepcopy__()")})
        eng.local_types = {"coords2": ("list", "obj"), "expr_coords2": ("list", "obj")}
        self.dt = dt

        def inv(e, p, it):
            c2, e2 = e.as_seq(p.lookup("coords2"), p, ek="obj"), e.as_seq(p.lookup("expr_coords2"), p, ek="obj")
            rc, re_ = e.as_seq(p.lookup("coords"), p, ek="obj"), e.as_seq(p.lookup("expr_coords"), p, ek="obj")
            t = fresh("t")
            return z3.And(c2.n == it, e2.n == it, rc.n == m - cnt(it), re_.n == m - cnt(it),
                          z3.ForAll([t], z3.Implies(z3.And(0 <= t, t < rc.n), z3.And(z3.Select(rc.arr, t) == C[cnt(it) + t], z3.Select(re_.arr, t) == E[cnt(it) + t]))),
                          z3.ForAll([t], z3.Implies(z3.And(0 <= t, t < it), z3.And(
                              z3.Select(c2.arr, t) == z3.If(isM(t), C[cnt(t)], self.arange(value(ax[t]), dt)),
                              z3.Select(e2.arr, t) == z3.If(isM(t), E[cnt(t)], self.copy(ax[t]))))))

        eng.invariants[0] = inv
        k = z3.Int("k")
        pre = [n >= 0, m == cnt(n), z3.ForAll([k], z3.Implies(z3.And(0 <= k, k < n), uf("is_stage3.Axis", Obj, B)(ax[k])))]
        env = {"expr_tensor": SSeq(ax, n, "obj", "list"), "coords": SSeq(C, m, "obj", "list"), "expr_coords": SSeq(E, m, "obj", "list"), "coord_dtype": SObj(dt),
               "classical": SObj(z3.Const("classical", Obj)), "stage3": SObj(z3.Const("stage3", Obj))}
        return env, pre, {}

    def post(self, eng, out, p):
        if isinstance(out, Raise):
            eng.oblige(f"post:no {out.cls}", p, z3.BoolVal(False), "post")
            return
        c2, e2 = eng.as_seq(p.lookup("coords"), p, ek="obj"), eng.as_seq(p.lookup("expr_coords"), p, ek="obj")
        t = fresh("t")
        eng.oblige("post:one coordinate and one coordinate expression per target axis", p, z3.And(c2.n == self.n, e2.n == self.n), "post")
        eng.oblige("post:bracketed axis k gets the caller's cnt(k)-th coordinate, a vectorised axis gets arange(its length)", p,
                   z3.ForAll([t], z3.Implies(z3.And(0 <= t, t < self.n), z3.Select(c2.arr, t) == z3.If(self.isM(t), self.C[self.cnt(t)], self.arange(self.value(self.ax[t]), self.dt)))), "post")
        eng.oblige("post:with the matching expression (the caller's, or a copy of the axis)", p,
                   z3.ForAll([t], z3.Implies(z3.And(0 <= t, t < self.n), z3.Select(e2.arr, t) == z3.If(self.isM(t), self.E[self.cnt(t)], self.copy(self.ax[t])))), "post")

    def twin(self, tier):
        """native: get_at through the public API with bracketed axes at every position pattern of a rank <= 4 target, against explicit loops"""
        import itertools
        import numpy as np
        import einx
        n, fails = 0, []
        for r in range(1, 5):
            for pat in itertools.product([0, 1], repeat=r):
                if not any(pat):
                    continue
                n += 1
                shape = tuple(range(2, 2 + r))
                x = np.arange(int(np.prod(shape))).reshape(shape)
                names = [f"x{i}" for i in range(r)]
                mk = [i for i, b in enumerate(pat) if b]
                un = [i for i, b in enumerate(pat) if not b]
                rng = np.random.RandomState(n)
                P = 3
                coords = np.stack([rng.randint(0, shape[i], size=P) for i in mk], axis=-1)
                desc = " ".join(f"[{nm}]" if b else nm for nm, b in zip(names, pat)) + f", p [{len(mk)}] -> p " + " ".join(names[i] for i in un)
                try:
                    got = np.asarray(einx.get_at(desc, x, coords))
                except Exception as e:  # noqa
                    fails.append({"detail": f"einx.get_at({desc!r}) raised {type(e).__name__}: {e}"})
                    continue
                exp = np.zeros((P,) + tuple(shape[i] for i in un), dtype=x.dtype)
                for p_ in range(P):
                    for idx in itertools.product(*[range(shape[i]) for i in un]):
                        full = [0] * r
                        for i, v in zip(un, idx):
                            full[i] = v
                        for j, i in enumerate(mk):
                            full[i] = coords[p_, j]
                        exp[(p_,) + idx] = x[tuple(full)]
                if got.shape != exp.shape or not np.array_equal(got, exp):
                    fails.append({"detail": f"einx.get_at({desc!r}, shape {shape}) differs from the explicit loop"})
        return n, fails[:3]


KERNELS.append(RavelAssign())
