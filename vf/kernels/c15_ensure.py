"""Sidecar contract for adapter/_util.py :: _ensure_output/inner (C15: 'if the function returns something of the wrong type, arity or shape, the call fails instead of returning it').

Data-flow contract decided by symbolic execution of the real closure with provenance-carrying values, per FORM of what the adapted function returned:
  static   one traced tensor with a static shape         -> ValueError iff its static shape differs from the expected one (any rank); passed on unchanged otherwise
  generic  one traced value without static shape         -> assert isinstance(raw, expected type), then assert tuple(RUN-TIME raw.shape) == expected shape, then the cast - in this order
  pair     one traced value, two outputs expected        -> assert isinstance(raw, tuple), assert len(raw) == 2, split, then both members checked as in `generic`
  tuple_k  a Python tuple of k traced values, 2 expected -> ValueError iff k != 2
  other    anything else (None, an array, a list)        -> ValueError
The adapted function is called exactly once with the caller's arguments."""
import z3
from ..pyvc import *  # noqa
from .base import Kernel


def V(kind, **f):
    r = SRec("val", **f)
    r.kind_ = kind
    r.isa = {"static": ("Tensor", "Tracer", "tracer.Tracer", "tracer.signature.classical.Tensor"), "other": ()}.get(kind, ("Tracer", "tracer.Tracer", "Value"))
    return r


class Ensure(Kernel):
    prop = "C15"
    file = "einx/_src/adapter/_util.py"
    module = "einx._src.adapter._util"
    qual = "_ensure_output/inner"
    allowed_raises = ("ValueError",)
    form = "static"
    nexp = 1
    typed = True   # the adapter entry points pass the backend's tensor type; with expected_type=None only the shape is asserted

    def setup(self, eng, bound=None):
        import ast
        self.n = z3.Int("out_rank")
        self.sh = z3.Array("out_shape", I, I)
        self.en = [z3.Int(f"expected_rank{i}") for i in range(self.nexp)]
        self.es = [z3.Array(f"expected_shape{i}", I, I) for i in range(self.nexp)]
        self.exp = [SSeq(self.es[i], self.en[i], "int", "tuple") for i in range(self.nexp)]
        raw = V("static", shape=SSeq(self.sh, self.n, "int", "tuple")) if self.form == "static" else V("raw")
        if self.form.startswith("tuple_"):
            k = int(self.form.split("_")[1])
            self.members = [V("raw", idx=SConc(i)) for i in range(k)]
            raw = STup(self.members, "tuple")
        if self.form == "other":
            raw = SConc(None)
        self.raw = raw

        def c_op(e, p, av, kw):
            p.ghost["op_calls"] = list(p.ghost.get("op_calls", [])) + [(list(av), dict(kw))]
            return raw

        def c_assert(e, p, av, kw):
            p.ghost["events"] = list(p.ghost.get("events", [])) + [("assert", av[0], av[1])]
            return V("asserted", of=av[0], cond=av[1])

        def c_cast(e, p, av, kw):
            ev = list(p.ghost.get("events", []))
            src = av[0]
            base = self.base_of(src)
            if self.form == "pair" and base is self.raw and not any(x[0] == "split" for x in ev):
                p.ghost["events"] = ev + [("split", src, None)]
                self.members = [V("raw", idx=SConc(i), member_of=src) for i in range(self.nexp)]
                return STup(self.members, "list")
            p.ghost["events"] = ev + [("cast", src, None)]
            return V("cast", of=src)

        mk = lambda kind: SContract(lambda e, p, av, kw, kind=kind: V(kind, args=STup(list(av))), kind)  # noqa
        eng.contracts.update({"op": SContract(c_op, "the adapted user function"), "tracer.signature.python.assert_": SContract(c_assert), "tracer.cast": SContract(c_cast),
                              "tracer.signature.python.builtins.isinstance": mk("isinstance"), "tracer.signature.python.equal": mk("equal"), "tracer.signature.python.builtins.tuple": mk("tuple"),
                              "tracer.signature.python.builtins.len": mk("len"), "callable": SContract(lambda e, p, av, kw: SBool(not (isinstance(av[0], SConc) and av[0].v is None))), "_to_ord_str": SContract(lambda e, p, av, kw: SConc("<ord>")),
                              "pytree.map": SContract(lambda e, p, av, kw: SConc("<types>"))})
        orig_getattr = eng.getattr

        def getattr_(o, attr, p, lineno=None):
            if isinstance(o, SRec) and getattr(o, "kind_", None) in ("raw", "asserted") and attr == "shape":
                return V("runtime_shape", of=o)
            return orig_getattr(o, attr, p, lineno)

        eng.getattr = getattr_
        orig_apply = eng.apply

        def apply(f, av, kw, p, n):  # `t = _squeeze_shape if allow_squeeze_unsqueeze else tuple; t(x)`: the builtin tuple applied through a variable
            if isinstance(f, SConc) and f.v is tuple and len(av) == 1 and isinstance(n.func, ast.Name) and n.func.id == "t":
                sq = eng.as_seq(av[0], p)
                yield SSeq(sq.arr, sq.n, sq.ek, "tuple"), p
                return
            yield from orig_apply(f, av, kw, p, n)

        eng.apply = apply
        self.T = SObj(z3.Const("expected_type", Obj)) if self.typed else SConc(None)
        self.arg = SObj(z3.Const("caller_arg", Obj))
        env = {"args": STup([self.arg], "tuple"), "kwargs": SDict({"axis": SObj(z3.Const("caller_kw", Obj))}), "op": eng.contracts["op"], "expected_out_shapes": STup(self.exp, "tuple"), "expected_type2": self.T,
               "allow_squeeze_unsqueeze": SBool(False), "classical": SConc(None), "tracer": SObj(z3.Const("tracer", Obj))}
        pre = [self.n >= 0] + [x >= 0 for x in self.en] + ([uf("is_type", Obj, B)(self.T.t), z3.Not(uf("is_None", Obj, B)(self.T.t))] if self.typed else [])
        return env, pre, {}

    @staticmethod
    def base_of(v):
        while isinstance(v, SRec) and getattr(v, "kind_", None) == "asserted":
            v = v.f["of"]
        return v

    def member_checks(self, eng, p, events, member, expected, label):
        """the `generic` discipline for one raw traced value: isinstance assert, run-time shape assert, cast; returns the cast source"""
        mine = [ev for ev in events if ev[0] in ("assert", "cast") and self.base_of(ev[1]) is member]
        kinds = [ev[0] for ev in mine]
        if not self.typed:
            eng.oblige(f"post:{label}: without an expected type exactly shape-assertion, cast - in this order", p, z3.BoolVal(kinds == ["assert", "cast"]), "post")
            if kinds != ["assert", "cast"]:
                return
            (_, x2, c2), (_, x3, _) = mine
            a2 = c2.f["args"].items if getattr(c2, "kind_", None) == "equal" else []
            src = a2[0].f["args"].items[0] if len(a2) == 2 and getattr(a2[0], "kind_", None) == "tuple" else None
            runtime = isinstance(src, SRec) and getattr(src, "kind_", None) == "runtime_shape" and self.base_of(src.f["of"]) is member
            eng.oblige(f"post:{label}: the assertion compares tuple(RUN-TIME shape of the not yet annotated value) with the expected shape", p, z3.BoolVal(bool(runtime) and len(a2) == 2 and a2[1] is expected), "post")
            eng.oblige(f"post:{label}: the cast wraps the asserted value", p, z3.BoolVal(getattr(x3, "kind_", None) == "asserted" and x3.f["of"] is member), "post")
            return
        eng.oblige(f"post:{label}: exactly isinstance-assertion, shape-assertion, cast - in this order", p, z3.BoolVal(kinds == ["assert", "assert", "cast"]), "post")
        if kinds != ["assert", "assert", "cast"]:
            return
        (_, x1, c1), (_, x2, c2), (_, x3, _) = mine
        a1 = c1.f["args"].items if getattr(c1, "kind_", None) == "isinstance" else []
        eng.oblige(f"post:{label}: first assertion is isinstance(raw value, expected type) on the raw value", p, z3.BoolVal(x1 is member and len(a1) == 2 and a1[0] is member and a1[1] is self.T), "post")
        a2 = c2.f["args"].items if getattr(c2, "kind_", None) == "equal" else []
        src = a2[0].f["args"].items[0] if len(a2) == 2 and getattr(a2[0], "kind_", None) == "tuple" else None
        runtime = isinstance(src, SRec) and getattr(src, "kind_", None) == "runtime_shape" and self.base_of(src.f["of"]) is member
        eng.oblige(f"post:{label}: second assertion compares tuple(RUN-TIME shape of the not yet annotated value) with the expected shape", p, z3.BoolVal(bool(runtime) and len(a2) == 2 and a2[1] is expected), "post")
        eng.oblige(f"post:{label}: the cast wraps the twice-asserted value", p, z3.BoolVal(getattr(x3, "kind_", None) == "asserted" and getattr(x3.f["of"], "kind_", None) == "asserted" and x3.f["of"].f["of"] is member), "post")

    def post(self, eng, out, p):
        calls = p.ghost.get("op_calls", [])
        events = p.ghost.get("events", [])
        eng.oblige("post:the adapted function is called exactly once, with the caller's positional and keyword arguments", p,
                   z3.BoolVal(len(calls) == 1 and len(calls[0][0]) == 1 and calls[0][0][0] is self.arg and sorted(calls[0][1]) == ["axis"]), "post")
        f = self.form
        k = fresh("k")
        if isinstance(out, Raise):
            if f == "static":
                same = z3.And(self.n == self.en[0], z3.ForAll([k], z3.Implies(z3.And(0 <= k, k < self.n), z3.Select(self.sh, k) == z3.Select(self.es[0], k))))
                eng.oblige("post:ValueError only if the static shape differs from the expected shape", p, z3.Not(same), "post")
            elif f.startswith("tuple_"):
                eng.oblige("post:ValueError only for a tuple of the wrong length", p, z3.BoolVal(len(self.members) != self.nexp), "post")
            else:
                eng.oblige("post:ValueError only for a return value that is neither a traced value nor a tuple of traced values", p, z3.BoolVal(f == "other"), "post")
            return
        r = out.v
        if f == "other":
            eng.oblige("post:a return value that is not traced is never passed on", p, z3.BoolVal(False), "post")
        elif f == "static":
            same = z3.And(self.n == self.en[0], z3.ForAll([k], z3.Implies(z3.And(0 <= k, k < self.n), z3.Select(self.sh, k) == z3.Select(self.es[0], k))))
            eng.oblige("post:a statically shaped tensor is passed on only if its shape is the expected shape (same rank, same lengths)", p, same, "post")
            eng.oblige("post:... and then unchanged, without run-time checks", p, z3.BoolVal(r is self.raw and not events), "post")
        elif f == "generic":
            eng.oblige("post:the result is the cast of the checked value", p, z3.BoolVal(getattr(r, "kind_", None) == "cast" and self.base_of(r.f["of"]) is self.raw), "post")
            self.member_checks(eng, p, events, self.raw, self.exp[0], "generic value")
        elif f == "pair":
            head = [ev for ev in events if self.base_of(ev[1]) is self.raw]
            kinds = [ev[0] for ev in head]
            eng.oblige("post:the returned object is first asserted to be a tuple, then to have length 2, then split", p, z3.BoolVal(kinds == ["assert", "assert", "split"]), "post")
            if kinds == ["assert", "assert", "split"]:
                c1, c2 = head[0][2], head[1][2]
                a2 = c2.f["args"].items if getattr(c2, "kind_", None) == "equal" else []
                eng.oblige("post:those assertions are isinstance(raw, tuple) and len(raw) == number of expected outputs", p,
                           z3.BoolVal(getattr(c1, "kind_", None) == "isinstance" and c1.f["args"].items[0] is self.raw and len(a2) == 2 and getattr(a2[0], "kind_", None) == "len" and isinstance(a2[1], SInt)) if len(a2) != 2 or not isinstance(a2[1], SInt) else a2[1].t == self.nexp, "post")
            ok = isinstance(r, STup) and r.pykind == "tuple" and len(r.items) == self.nexp and all(getattr(x, "kind_", None) == "cast" for x in r.items)
            eng.oblige("post:the result is the tuple of the casts of the checked members, in order", p, z3.BoolVal(ok and all(self.base_of(x.f["of"]) is m for x, m in zip(r.items, self.members))), "post")
            for i, m in enumerate(self.members):
                self.member_checks(eng, p, events, m, self.exp[i], f"member {i}")
        else:
            eng.oblige("post:a tuple of traced values is passed on only with the expected length", p, z3.BoolVal(len(self.members) == self.nexp), "post")
            for i, m in enumerate(self.members[:self.nexp]):
                self.member_checks(eng, p, events, m, self.exp[i], f"member {i}")

    def twin(self, tier):
        import numpy as np
        import einx
        n, fails = 0, []
        x = np.arange(12.0).reshape(3, 4)
        bad = {"wrong shape": lambda t, axis: np.sum(t, axis=axis, keepdims=True), "wrong type": lambda t, axis: "nope", "tuple": lambda t, axis: (np.sum(t, axis=axis), np.sum(t, axis=axis)), "none": lambda t, axis: None}
        for label, fn in bad.items():
            n += 1
            try:
                r = einx.numpy.adapt_numpylike_reduce(fn)("a [b]", x)
                fails.append({"detail": f"adapted reduce returning {label} was accepted: {r!r}"[:200]})
            except Exception:  # noqa
                pass
        n += 1
        r = einx.numpy.adapt_numpylike_reduce(np.sum)("a [b]", x)
        if r.shape != (3,) or not np.allclose(r, x.sum(1)):
            fails.append({"detail": "correct adapted reduce rejected or wrong"})
        return n, fails[:3]


def _mk(base, name, **attrs):
    return type(name, (base,), attrs)()


KERNELS = []
for form, nexp in (("static", 1), ("generic", 1), ("pair", 2), ("tuple_2", 2), ("tuple_3", 2), ("tuple_1", 2), ("other", 1)):
    KERNELS.append(_mk(Ensure, f"Ensure_{form}", form=form, nexp=nexp, id=f"C15.P.ensure_output[{form}]", describe=f"_ensure_output/inner, adapted function returns form `{form}` ({nexp} output(s) expected): see the module docstring; shapes of any rank"))
KERNELS.append(_mk(Ensure, "Ensure_generic_untyped", form="generic", nexp=1, typed=False, id="C15.P.ensure_output[generic, expected_type=None]", describe="_ensure_output/inner with expected_type=None: the run-time shape assertion and the cast remain (no type assertion)"))
