"""Sidecar contract for frontend/api.py :: _split_tensors (C15 / C13 / C09): which arguments of an einx operation are traced as tensors.

The real function is executed symbolically for concrete operation signatures (the finite part) and SYMBOLIC argument values (opaque objects): `inspect.Signature.bind`
is run natively on placeholders standing for the symbolic values - the binding depends only on the call shape. Contract: the tensor arguments are exactly the values bound to
`Tensor`-annotated parameters, in signature order (a *tensors parameter contributes its elements in order); each is replaced by a TensorArg wrapping exactly that value;
every other argument (description, keyword options, axis sizes) is forwarded unchanged and is never traced; positional / keyword placement is preserved."""
import inspect
import z3
from ..pyvc import *  # noqa
from .base import Kernel


def _signature(kind):
    from einx._src.frontend.types import Tensor

    if kind == "op":          # einx.sum-like: def op(description: str, *tensors: Tensor, backend=None, **parameters)
        def f(description: str, *tensors: Tensor, backend=None, **parameters):
            pass
    elif kind == "single":    # def op(description: str, tensor: Tensor, /, keepdims=None, *, backend=None, **parameters)
        def f(description: str, tensor: Tensor, keepdims=None, *, backend=None, **parameters):
            pass
    elif kind == "string_annotation":
        def f(description: str, x: "Tensor", y: "Tensor", *, backend=None, **parameters):
            pass
    else:
        raise ValueError(kind)
    return inspect.signature(f)


class Split(Kernel):
    prop = "C15"
    file = "einx/_src/frontend/api.py"
    module = "einx._src.frontend.api"
    qual = "_split_tensors"
    allowed_raises = ("TypeError",)
    kind, npos, kws = "op", 2, ("a", "opt")

    def setup(self, eng, bound=None):
        sig = _signature(self.kind)
        self.desc = SObj(z3.Const("description", Obj))
        self.pos = [SObj(z3.Const(f"tensor{i}", Obj)) for i in range(self.npos)]
        self.kw = {k: SObj(z3.Const(f"kw_{k}", Obj)) for k in self.kws}
        args = STup([self.desc] + self.pos, "tuple")
        kwargs = SDict(dict(self.kw))
        place = {}

        def to_py(v):
            if isinstance(v, STup):
                return tuple(to_py(x) for x in v.items)
            if isinstance(v, SDict):
                return {k: to_py(x) for k, x in v.d.items()}
            if isinstance(v, SConc):
                return v.v
            o = object()
            place[id(o)] = (o, v)
            return o

        def from_py(o):
            if id(o) in place:
                return place[id(o)][1]
            if isinstance(o, tuple):
                return STup([from_py(x) for x in o], "tuple")
            if isinstance(o, dict):
                return SDict({k: from_py(x) for k, x in o.items()})
            return SConc(o)

        state = {}

        def c_bind(e, p, av, kw):
            state["bound"] = sig.bind(*[to_py(a) for a in av], **{k: to_py(v) for k, v in kw.items()})
            return SRec("BoundArguments")

        def c_copy(e, p, av, kw):
            return SDict({k: from_py(v) for k, v in state["bound"].arguments.items()})

        def c_defaults(e, p, av, kw):
            state["bound"].apply_defaults()
            return SConc(None)

        def c_tensorarg(e, p, av, kw):
            return SRec("TensorArg", value=av[0])

        eng.contracts["signature.parameters.items"] = SContract(lambda e, p, av, kw: STup([STup([SConc(nm), SConc(pr)], "tuple") for nm, pr in sig.parameters.items()], "list"), "the concrete parameter list of the operation's signature")
        eng.contracts.update({"signature.bind": SContract(c_bind, "inspect.Signature.bind, run natively on placeholders"), "bound.arguments.copy": SContract(c_copy, "BoundArguments.arguments.copy()"),
                              "bound.apply_defaults": SContract(c_defaults, "BoundArguments.apply_defaults()"), "TensorArg": SContract(c_tensorarg, "TensorArg(value)")})
        def st_Try(st, p):  # try: <binding> except TypeError: re-raise with a message - the binding contracts above do not raise for a matching call
            if st.finalbody or st.orelse:
                raise OutOfSubset("try with else/finally")
            for out, q in eng.exec_block(st.body, [p]):
                if isinstance(out, Raise):
                    raise OutOfSubset("exception inside a try body")
                yield out, q

        eng.st_Try = st_Try
        orig_method = eng.method

        def method(n, o, attr, av, kw, p):  # dict.update(other dict) on a dict with concrete keys bound to a plain name
            import ast
            if isinstance(o, SDict) and attr == "update" and len(av) == 1 and isinstance(av[0], SDict) and isinstance(n.func.value, ast.Name):
                d = dict(o.d)
                d.update(av[0].d)
                p.bind(n.func.value.id, SDict(d))
                yield SConc(None), p
                return
            yield from orig_method(n, o, attr, av, kw, p)

        eng.method = method
        return {"signature": SConc(sig), "args": args, "kwargs": kwargs}, [], {}

    def post(self, eng, out, p):
        if isinstance(out, Raise):
            eng.oblige("post:no TypeError for a call that matches the signature", p, z3.BoolVal(False), "post")
            return
        r = out.v
        good = isinstance(r, STup) and len(r.items) == 3
        eng.oblige("post:returns (args, kwargs, tensor_args)", p, z3.BoolVal(good), "post")
        if not good:
            return
        new_args, new_kwargs, tensor_args = r.items
        ta = list(tensor_args.items) if isinstance(tensor_args, STup) else None
        eng.oblige("post:tensor_args are exactly the values given for Tensor-annotated parameters, in order", p,
                   z3.And(z3.BoolVal(ta is not None and len(ta) == self.npos and all(isinstance(x, SObj) for x in ta)), *[x.t == y.t for x, y in zip(ta or [], self.pos)]), "post")
        na = list(new_args.items) if isinstance(new_args, STup) else []
        eng.oblige("post:the description is forwarded unchanged, as the first positional argument, and is not traced", p, na[0].t == self.desc.t if na and isinstance(na[0], SObj) else z3.BoolVal(False), "post")
        wrapped = [x for x in na[1:] if isinstance(x, SRec) and x.cls == "TensorArg"]
        eng.oblige("post:every tensor is replaced by a TensorArg wrapping exactly that value, position kept", p,
                   z3.And(z3.BoolVal(len(wrapped) == self.npos and len(na) == 1 + self.npos), *[w.f["value"].t == y.t for w, y in zip(wrapped, self.pos)]), "post")
        nk = new_kwargs.d if isinstance(new_kwargs, SDict) else {}
        eng.oblige("post:keyword arguments (options, axis sizes) are forwarded unchanged under their names and never traced; unset options appear with their defaults", p,
                   z3.And(z3.BoolVal(all(k in nk and isinstance(nk[k], SObj) for k in self.kw) and set(nk) - set(self.kw) <= {"backend", "keepdims"}), *[nk[k].t == v.t for k, v in self.kw.items() if k in nk and isinstance(nk[k], SObj)]), "post")

    def twin(self, tier):
        import numpy as np
        import einx._src.frontend.api as A
        n, fails = 0, []
        for kind, npos in (("op", 0), ("op", 3), ("single", 1), ("string_annotation", 2)):
            n += 1
            sig = _signature(kind)
            ts = [np.zeros(i + 1) for i in range(npos)]
            a, k, t = A._split_tensors(sig, ("desc", *ts), {"b": 3, "opt": [1]})
            if len(t) != npos or any(x is not y for x, y in zip(t, ts)) or a[0] != "desc" or k.get("b") != 3 or k.get("opt") != [1] or not all(isinstance(x, A.TensorArg) for x in a[1:]):
                fails.append({"detail": f"_split_tensors on signature kind {kind} with {npos} tensors: args {a}, kwargs {k}"})
        return n, fails[:3]


def _mk(base, name, **attrs):
    return type(name, (base,), attrs)()


KERNELS = []
for kind, npos, kws in (("op", 0, ()), ("op", 1, ("a",)), ("op", 3, ("a", "opt")), ("single", 1, ("a", "keepdims")), ("string_annotation", 2, ("backend", "n"))):
    KERNELS.append(_mk(Split, f"Split_{kind}_{npos}", kind=kind, npos=npos, kws=kws, id=f"C15.P.split_tensors[{kind}, {npos} tensors, keywords {list(kws)}]",
                       describe=f"_split_tensors for an operation signature of kind `{kind}` called with {npos} positional tensor(s) and keywords {list(kws)} (values symbolic): see the module docstring"))
