"""Ghost lemmas (pure mathematics on lists/integers) that a kernel may invoke in a proof, and their machine check.

Each lemma is stated and proved in lemmas/Lemmas.lean (Lean 4 + Mathlib); `ensure_checked()` re-runs `lean` on that file whenever its
content hash differs from the stamp written by the last successful run (setup.sh runs it once; the thorough tier always re-runs it).
The SMT instance is an implication: the solver must discharge the premises from the path condition before it may use the conclusion."""
import hashlib
import os
import subprocess
import time
import z3
from .pyvc.values import fresh

ROOT = os.path.dirname(os.path.dirname(os.path.abspath(__file__)))
LEAN_FILE = os.path.join(ROOT, "lemmas", "Lemmas.lean")
STAMP = os.path.join(ROOT, ".venv", "lemmas.stamp")


def _hash():
    h = hashlib.sha256(open(LEAN_FILE, "rb").read())
    try:
        h.update(subprocess.run(["lean", "--version"], capture_output=True, text=True, timeout=60).stdout.encode())
    except Exception:  # noqa
        h.update(b"no-lean")
    return h.hexdigest()


def ensure_checked(force=False):
    """returns dict(ok, cached, seconds, detail)"""
    want = _hash()
    if not force and os.path.exists(STAMP) and open(STAMP).read().strip() == want:
        return {"ok": True, "cached": True, "seconds": 0.0, "detail": "lean accepted lemmas/Lemmas.lean (stamp matches file + toolchain hash)"}
    t0 = time.time()
    try:
        r = subprocess.run(["lean", LEAN_FILE], capture_output=True, text=True, timeout=1500)
    except Exception as e:  # noqa
        return {"ok": False, "cached": False, "seconds": time.time() - t0, "detail": f"lean could not be run: {e}"}
    ok = r.returncode == 0 and "error" not in r.stdout and "sorry" not in (r.stdout + r.stderr)
    if ok:
        try:
            open(STAMP, "w").write(want)
        except OSError:
            pass
    return {"ok": ok, "cached": False, "seconds": round(time.time() - t0, 1), "detail": (r.stdout + r.stderr)[-600:] if not ok else "lean accepted lemmas/Lemmas.lean"}


def _nodup(sq):
    a, b = fresh("la"), fresh("lb")
    return z3.ForAll([a, b], z3.Implies(z3.And(0 <= a, a < b, b < sq.n), z3.Select(sq.arr, a) != z3.Select(sq.arr, b)))


def _mem(sq, x):
    k = fresh("lk")
    return z3.Exists([k], z3.And(0 <= k, k < sq.n, z3.Select(sq.arr, k) == x))


def nodup_same_members_same_length(eng, s1, s2):
    """L1: Nodup s1 /\\ Nodup s2 /\\ (forall x, x in s1 <-> x in s2)  ->  len s1 = len s2"""
    eng.assumed.add("ghost lemma L1 nodup_same_members_same_length (lemmas/Lemmas.lean, checked by Lean 4 + Mathlib)")
    x = fresh("lx", s1.arr.sort().range())
    return z3.Implies(z3.And(_nodup(s1), _nodup(s2), z3.ForAll([x], _mem(s1, x) == _mem(s2, x))), s1.n == s2.n)


def nodup_subset_length_le(eng, s1, s2):
    """L2: Nodup s1 /\\ (forall x, x in s1 -> x in s2)  ->  len s1 <= len s2"""
    eng.assumed.add("ghost lemma L2 nodup_subset_length_le (lemmas/Lemmas.lean, checked by Lean 4 + Mathlib)")
    x = fresh("lx", s1.arr.sort().range())
    return z3.Implies(z3.And(_nodup(s1), z3.ForAll([x], z3.Implies(_mem(s1, x), _mem(s2, x)))), s1.n <= s2.n)


def ancestor_or_self_preorder(eng, rel):
    """L6: a relation satisfying `rel(a, b) <-> a = b \\/ (parent b exists /\\ rel(a, parent b))` over a forest of finite depth is reflexive and transitive.
    Returns the two facts as axioms for the uninterpreted relation `rel`; the recursive equation is discharged by kernel C04.P.is_predecessor, finite depth
    (no cycle through `parent`) stays an assumption."""
    from .pyvc.values import Obj
    eng.assumed.add("ghost lemma L6 ancestor_or_self_refl / ancestor_or_self_trans (lemmas/Lemmas.lean, checked by Lean 4 + Mathlib): a relation satisfying the recursive equation of "
                    "Scope.is_predecessor_of (C04.P.is_predecessor) over parent chains of finite depth is reflexive and transitive; finite depth (no cycle through `parent`) is assumed")
    a, b, c = z3.Const("l6a", Obj), z3.Const("l6b", Obj), z3.Const("l6c", Obj)
    return [z3.ForAll([a], rel(a, a)), z3.ForAll([a, b, c], z3.Implies(z3.And(rel(a, b), rel(b, c)), rel(a, c)))]
