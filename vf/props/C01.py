"""C01 - every built-in operation computes its loop-notation meaning."""
import collections
from ..report import Check
from ..kernels.base import run_kernel
from . import _corpus_run


def add_corpus(chk, res, name, bound):
    cnt = collections.Counter(r[0] for r in res)
    fails = [r for r in res if r[0] in ("mismatch", "exception", "timeout")]
    seen = set()
    for kind, desc, be, detail in fails:
        key = (desc["op"], kind, (detail or "")[:40])
        if key in seen:
            continue
        seen.add(key)
        if kind == "timeout":
            chk.undecided.append({"case": desc, "backend": be, "why": "per-call alarm"})
            continue
        chk.violation(f"{chk.prop}.B.loop_meaning[{desc['op']}]", f"einx.{desc['op']}({desc['description']!r}, shapes={desc['shapes']}, {desc['kwargs']}, backend={be!r}): {detail}",
                      replay={"kind": "case", "case": desc}, found_input=True)
    for r in res:
        if r[0] == "oracle-error":
            chk.checker_errors.append(f"oracle error on {r[1]}: {r[3]}")
    distinct = len({(r[1]["op"], r[1]["description"], str(r[1]["shapes"])) for r in res if r[0] in ("ok", "mismatch")})
    chk.add_bounded(name, bound, len(res), distinct, failures=fails, samples=[r[1] for r in res[:3]], note=f"outcomes: {dict(cnt)}")
    return cnt


def run(tier, seed):
    chk = Check("C01", tier, seed, "other")
    try:
        from ..kernels import c01_lowering, c01_shapes, c08_align, c01_argfind, c01_decompose, c01_numpy_wrappers, c14_dataflow, c01_unravel, c01_numpy_wrappers2, c01_shapes2, c01_backend_getattr
        for k in c01_lowering.KERNELS + c01_shapes.KERNELS + c08_align.KERNELS + c01_argfind.KERNELS + c01_decompose.KERNELS + [q for q in c01_numpy_wrappers.KERNELS if q.prop == "C01"] + c14_dataflow.KERNELS_C01 + c01_unravel.KERNELS + [q for q in c01_numpy_wrappers2.KERNELS if q.prop == "C01"] + [q for q in c01_shapes2.KERNELS if q.prop == "C01"] + c01_backend_getattr.KERNELS:
            chk.add_kernel(run_kernel(k, tier))
        chk.add_lemmas(tier)
    except ImportError:
        pass
    res = _corpus_run.run_corpus(seed, tier)
    add_corpus(chk, res, "public API vs loop-notation interpreter, 3 numpy backends", "templates from the grammar of DESIGN §2.6: <=4 names, nesting depth 1, sizes from pools with equal lengths and 1s")
    chk.trusted += ["loop-notation interpreter (vf/spec/notation.py, written from the property statement and docs, imports no einx)", "numpy as elementary operations"]
    chk.assumptions += ["floating-point results compared up to rel 1e-6", "only numpy backends importable", "values for descriptions beyond the corpus bound are not decided"]
    chk.explanation = "contracts on the lowering chain with the loop-notation meaning as top-level postcondition; integer/sequence kernels proved unbounded, the whole-pipeline postcondition evaluated at run time over a bounded corpus (labelled bounded)"
    return chk
