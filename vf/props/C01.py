"""C01 - every built-in operation computes its loop-notation meaning."""
import collections
import numpy as np
from .. import harness
from ..report import Check
from ..kernels.base import run_kernel
from . import _corpus_run


def add_corpus(chk, res, name, bound):
    cnt = collections.Counter(r[0] for r in res)
    fails = [r for r in res if r[0] in ("mismatch", "exception", "timeout")]
    seen = set()
    for kind, desc, be, detail in fails:
        key = (desc["op"], kind, (detail or "")[:40])
        if key in seen:
            continue
        seen.add(key)
        if kind == "timeout":
            chk.undecided.append({"case": desc, "backend": be, "why": "per-call alarm"})
            continue
        chk.violation(f"{chk.prop}.B.loop_meaning[{desc['op']}]", f"einx.{desc['op']}({desc['description']!r}, shapes={desc['shapes']}, {desc['kwargs']}, backend={be!r}): {detail}",
                      replay={"kind": "case", "case": desc}, found_input=True)
    for r in res:
        if r[0] == "oracle-error":
            chk.checker_errors.append(f"oracle error on {r[1]}: {r[3]}")
    distinct = len({(r[1]["op"], r[1]["description"], str(r[1]["shapes"])) for r in res if r[0] in ("ok", "mismatch")})
    chk.add_bounded(name, bound, len(res), distinct, failures=fails, samples=[r[1] for r in res[:3]], note=f"outcomes: {dict(cnt)}")
    return cnt


def extreme_values():
    """'at every position the value obtained by running the elementary operation inside the loops': the exponential family with slices of very different magnitudes - the result of one
    slice must not depend on the values of another slice (each slice is its own run of the elementary operation; references computed per slice with the standard shift by the slice maximum)"""
    import einx
    out = []
    rows = np.array([[0.0, 1.0, 2.0, -1.0], [1000.0, 1001.0, 999.0, 1000.5], [-1000.0, -1001.0, -999.0, -1000.5], [1e-3, -1e-3, 0.0, 2e-3], [700.0, -700.0, 0.0, 1.0]])

    def lse(v):
        m = np.max(v)
        return m + np.log(np.sum(np.exp(v - m)))

    for dt, tol in (("float64", 1e-9), ("float32", 1e-4)):
        x = rows.astype(dt)
        refs = {"logsumexp": ("a [b]", np.array([lse(r.astype("float64")) for r in x])),
                "log_softmax": ("a [b]", np.stack([r.astype("float64") - lse(r.astype("float64")) for r in x])),
                "softmax": ("a [b]", np.stack([np.exp(r.astype("float64") - lse(r.astype("float64"))) for r in x]))}
        xt = np.ascontiguousarray(x.T)
        for op, (desc, want) in refs.items():
            for be in ("numpy", "numpy.numpylike", "numpy.einsum"):
                for d, arg, w in ((desc, x, want), ("[b] a", xt, want.T if want.ndim == 2 else want)):
                    o = harness.call_einx(op, d, [arg.copy()], {}, be)
                    dd = {"op": op, "description": d, "shapes": [list(arg.shape)], "kwargs": {"dtype": dt}, "backend": be}
                    if o[0] == "exc" and "OperationNotSupported" in o[1]:
                        out.append(("unsupported", dd, be, None))
                    elif o[0] != "ok":
                        out.append(("exception", dd, be, f"{o[1:]}"[:200]))
                    else:
                        got = np.asarray(o[1], dtype="float64")
                        ok = got.shape == w.shape and np.all(np.isfinite(got) == np.isfinite(w)) and np.allclose(got, w, rtol=tol, atol=tol)
                        out.append(("ok", dd, be, None) if ok else ("mismatch", dd, be, f"slices of magnitude 0, +-1000 and 700 side by side ({dt}): got {got.tolist()}, per-slice reference {w.tolist()}"[:400]))
    return out


def degenerate_reductions():
    """a reduction whose description brackets no axis runs the elementary operation on ONE value per output position: var/std give 0, count_nonzero 0/1, any/all a bool, the rest the value"""
    out = []
    x = np.array([[0.0, 3.0, -2.0], [5.0, 0.0, 1.5]])
    ref = {"sum": lambda v: v, "mean": lambda v: v, "prod": lambda v: v, "max": lambda v: v, "min": lambda v: v, "var": lambda v: np.zeros_like(v), "std": lambda v: np.zeros_like(v),
           "count_nonzero": lambda v: (v != 0).astype(int), "any": lambda v: v != 0, "all": lambda v: v != 0, "logsumexp": lambda v: v}
    for op, f in ref.items():
        for desc, perm in (("a b", None), ("a b -> a b", None), ("a b -> b a", (1, 0)), ("a b -> b 1 a", (1, 0))):
            want = f(x)
            if perm:
                want = np.transpose(want, perm)
            if desc.endswith("b 1 a"):
                want = want[:, None, :]
            for be in ("numpy", "numpy.numpylike", "numpy.einsum"):
                o = harness.call_einx(op, desc, [x.copy()], {}, be)
                dd = {"op": op, "description": desc, "shapes": [[2, 3]], "kwargs": {}, "backend": be}
                if o[0] == "exc" and "OperationNotSupported" in o[1]:
                    out.append(("unsupported", dd, be, None))
                elif o[0] != "ok":
                    out.append(("exception", dd, be, f"{o[1:]}"[:200]))
                else:
                    got = np.asarray(o[1])
                    ok = got.shape == want.shape and np.allclose(got.astype(float), np.asarray(want).astype(float))
                    out.append(("ok", dd, be, None) if ok else ("mismatch", dd, be, f"no axis is reduced: got {got.tolist()}, the elementary operation on single values gives {np.asarray(want).tolist()}"[:300]))
    return out


def run(tier, seed):
    chk = Check("C01", tier, seed, "other")
    try:
        from ..kernels import c01_lowering, c01_shapes, c08_align, c01_argfind, c01_decompose, c01_numpy_wrappers, c14_dataflow, c01_unravel, c01_numpy_wrappers2, c01_shapes2, c01_backend_getattr, c01_preserve_shape, c01_parent_walk
        for k in c01_lowering.KERNELS + c01_shapes.KERNELS + c08_align.KERNELS + c01_argfind.KERNELS + c01_decompose.KERNELS + [q for q in c01_numpy_wrappers.KERNELS if q.prop == "C01"] + c14_dataflow.KERNELS_C01 + c01_unravel.KERNELS + [q for q in c01_numpy_wrappers2.KERNELS if q.prop == "C01"] + [q for q in c01_shapes2.KERNELS if q.prop == "C01"] + c01_backend_getattr.KERNELS + c01_preserve_shape.KERNELS + c01_parent_walk.KERNELS:
            chk.add_kernel(run_kernel(k, tier))
        chk.add_lemmas(tier)
    except ImportError:
        pass
    res = _corpus_run.run_corpus(seed, tier) + extreme_values() + degenerate_reductions()
    add_corpus(chk, res, "public API vs loop-notation interpreter, 3 numpy backends", "templates from the grammar of DESIGN §2.6: <=4 names, nesting depth 1, sizes from pools with equal lengths and 1s")
    chk.trusted += ["loop-notation interpreter (vf/spec/notation.py, written from the property statement and docs, imports no einx)", "numpy as elementary operations"]
    chk.assumptions += ["floating-point results compared up to rel 1e-6", "only numpy backends importable", "values for descriptions beyond the corpus bound are not decided"]
    chk.explanation = "contracts on the lowering chain with the loop-notation meaning as top-level postcondition; integer/sequence kernels proved unbounded, the whole-pipeline postcondition evaluated at run time over a bounded corpus (labelled bounded)"
    return chk
