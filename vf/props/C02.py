"""C02 - axis and rank solving is sound, unambiguous and exact."""
import ast
import random
import numpy as np
import z3
from ..report import Check
from .. import frame, harness


# ------------------------------------------------------------------ abstract expressions + constraint oracle (never parses einx strings)
def gen(rng, names, depth):
    r = rng.random()
    if depth > 0 and r < 0.25:
        return ("flat", [gen(rng, names, depth - 1) for _ in range(rng.randint(2, 3))])
    if depth > 0 and r < 0.35:
        return ("cat", [gen1(rng, names) for _ in range(rng.randint(2, 3))])
    return gen1(rng, names)


def gen1(rng, names):
    return ("num", rng.choice([1, 2, 3])) if rng.random() < 0.15 else ("ax", rng.choice(names))


def to_str(e):
    if e[0] == "ax":
        return e[1]
    if e[0] == "num":
        return str(e[1])
    if e[0] == "flat":
        return "(" + " ".join(to_str(c) for c in e[1]) + ")"
    return "(" + " + ".join(to_str(c) for c in e[1]) + ")"


def val(e, sizes):
    if e[0] == "ax":
        return sizes[e[1]]
    if e[0] == "num":
        return e[1]
    if e[0] == "flat":
        v = 1
        for c in e[1]:
            v *= val(c, sizes)
        return v
    return sum(val(c, sizes) for c in e[1])


def zval(e, zs):
    if e[0] == "ax":
        return zs[e[1]]
    if e[0] == "num":
        return z3.IntVal(e[1])
    if e[0] == "flat":
        v = z3.IntVal(1)
        for c in e[1]:
            v = v * zval(c, zs)
        return v
    return z3.Sum([zval(c, zs) for c in e[1]])


def axes(e):
    if e[0] == "ax":
        yield e[1]
    elif e[0] in ("flat", "cat"):
        for c in e[1]:
            yield from axes(c)


def classify(cons, reported):
    s = z3.Solver()
    s.set(timeout=3000)
    s.add(*cons)
    r = s.check()
    if r == z3.unsat:
        return "none", None
    if r != z3.sat:
        return "unknown", None
    m = s.model()
    sol = {k: m.eval(v, model_completion=True).as_long() for k, v in reported.items()}
    if not reported:
        return "unique", sol
    s.add(z3.Or(*[v != sol[k] for k, v in reported.items()]))
    r2 = s.check()
    return ("unique", sol) if r2 == z3.unsat else (("ambiguous", None) if r2 == z3.sat else ("unknown", None))


def propagation_determined(exprs, shapes, kw):
    """all lengths follow by substituting known values one flattened/concatenated axis at a time (the 'must succeed' clause)"""
    known = dict(kw)
    eqs = [(d, s) for e, sh in zip(exprs, shapes) if sh is not None for d, s in zip(e, sh)]
    changed = True
    while changed:
        changed = False
        for d, s in eqs:
            un = [a for a in axes(d) if a not in known]
            if len(un) != 1 or list(axes(d)).count(un[0]) != 1:
                continue
            a = un[0]

            def solve_for(e, target):
                # returns value of axis a such that e == target, or None
                if e[0] == "ax":
                    return target if e[1] == a else None
                if e[0] == "num":
                    return None
                if e[0] == "flat":
                    rest = 1
                    sub = None
                    for c in e[1]:
                        if a in list(axes(c)):
                            sub = c
                        else:
                            rest *= val(c, known)
                    if sub is None or rest == 0 or target % rest != 0:
                        return None
                    return solve_for(sub, target // rest)
                rest = 0
                sub = None
                for c in e[1]:
                    if a in list(axes(c)):
                        sub = c
                    else:
                        rest += val(c, known)
                return solve_for(sub, target - rest) if sub is not None else None

            v = solve_for(d, s)
            if v is not None and v > 0:
                known[a] = v
                changed = True
    allax = {a for e in exprs for d in e for a in axes(d)}
    if not allax <= set(known):
        return False
    # and the determined assignment satisfies every equation
    return all(val(d, known) == s for d, s in eqs) and all(known[k] == v for k, v in kw.items() if k in allax)


def divisibility_case(rng):
    """a flattened axis with >= 3 factors in which a sub-group (a literal next to an otherwise unused axis, or a repeated axis) has no integer solution"""
    k = rng.choice([2, 3])
    known = rng.choice([2, 3, 5])
    kind = rng.choice(["literal", "repeat"])
    if kind == "literal":
        members = [("ax", "a"), ("num", k), ("ax", "b")]
        bad_total = known * rng.choice([x for x in (3, 5, 7, 9, 11) if x % k != 0])
    else:
        members = [("ax", "a"), ("ax", "a"), ("ax", "b")]
        bad_total = known * rng.choice([2, 3, 5, 6, 8])
    rng.shuffle(members) if kind == "literal" else None
    extra = [("ax", "c")] if rng.random() < 0.5 else []
    exprs = [[("flat", members)] + extra]
    shapes = [(bad_total,) + ((4,) if extra else ())]
    desc = " ".join(to_str(d) for d in exprs[0])
    return exprs, desc, shapes, {"b": known}, sorted({"a", "b"} | ({"c"} if extra else set()))


def nonlinear_case(rng):
    """two flattened axes sharing repeated axes: the real solution of the system is in general not an integer"""
    pats = [[["a", "a", "b"], ["b", "b", "a"]], [["a", "b"], ["a", "a", "b"]], [["a", "a"], ["a", "b", "b"]], [["a", "b", "b"], ["b", "a"]]]
    pat = rng.choice(pats)
    exprs = [[("flat", [("ax", n) for n in g]) for g in pat]]
    if rng.random() < 0.5:
        sizes = {"a": rng.choice([1, 2, 3, 4]), "b": rng.choice([1, 2, 3, 5])}
        shape = tuple(val(d, sizes) for d in exprs[0])
        if rng.random() < 0.5:
            shape = (shape[0] + rng.choice([1, 2, 5]), shape[1])
    else:
        shape = (rng.randint(2, 200), rng.randint(2, 200))
    return exprs, " ".join(to_str(d) for d in exprs[0]), [shape], {}, ["a", "b"]


def one_case(rng):
    r0 = rng.random()
    if r0 < 0.12:
        return divisibility_case(rng)
    if r0 < 0.24:
        return nonlinear_case(rng)
    k = rng.randint(1, 4)
    names = list("abcd")[:k]
    sizes = {n: rng.choice([1, 2, 3, 4, 5, 6]) for n in names}
    nt = rng.randint(1, 2)
    exprs = [[gen(rng, names, rng.choice([1, 1, 2])) for _ in range(rng.randint(1, 3))] for _ in range(nt)]
    desc = ", ".join(" ".join(to_str(d) for d in e) for e in exprs)
    shapes = [tuple(val(d, sizes) for d in e) for e in exprs]
    mode = rng.choice(["ok", "ok", "perturb", "none"])
    if mode == "perturb":
        t = rng.randrange(nt)
        shp = list(shapes[t])
        j = rng.randrange(len(shp))
        shp[j] = max(1, shp[j] + rng.choice([-1, 1, 2]))
        shapes[t] = tuple(shp)
    shapes = list(shapes)
    if mode == "none":
        shapes[rng.randrange(nt)] = None
    used = sorted({a for e in exprs for d in e for a in axes(d)})
    kw = {n: sizes[n] for n in used if rng.random() < 0.4}
    if kw and rng.random() < 0.15:
        n = rng.choice(sorted(kw))
        kw[n] += 1
    return exprs, desc, shapes, kw, used


def _work(args):
    seed, idx = args
    import einx
    rng = random.Random(seed * 52361 + idx)
    out = []
    for _ in range(40):
        exprs, desc, shapes, kw, used = one_case(rng)
        tensors = [None if s is None else np.broadcast_to(np.zeros(()), s) for s in shapes]
        zs = {n: z3.Int(n) for n in used}
        cons = [v > 0 for v in zs.values()] + [zs[n] == v for n, v in kw.items()]
        for e, s in zip(exprs, shapes):
            if s is not None:
                for d, x in zip(e, s):
                    cons.append(zval(d, zs) == x)
        cls, sol = classify(cons, zs)
        zdims = {f"{i}.{j}": zval(d, zs) for i, e in enumerate(exprs) for j, d in enumerate(e)}
        cls_s, sol_s = classify(cons, zdims)
        d = {"description": desc, "shapes": [None if s is None else list(s) for s in shapes], "kwargs": kw, "oracle_axes": cls, "oracle_shapes": cls_s, "replay": {"fn": "vf.props.C02:replay", "args": [desc, [None if s is None else list(s) for s in shapes], kw]}}
        if "unknown" in (cls, cls_s):
            out.append(("oracle-unknown", d, None))
            continue
        must = cls == "unique" and propagation_determined(exprs, shapes, kw)
        for name in ("solve_axes", "solve_shapes", "matches"):
            o = harness.outcome(lambda: getattr(einx, name)(desc, *tensors, **kw), 5)
            if o[0] == "timeout":
                out.append(("timeout", dict(d, entry=name), None))
                continue
            if o[0] == "exc" and o[1] not in ("einx.errors.AxisSizeError", "einx.errors.RankError"):
                out.append(("internal", dict(d, entry=name), f"{name} raised {o[1]}: {o[2][:100]}"))
                continue
            c, s_ = (cls, sol) if name == "solve_axes" else (cls_s, sol_s)
            if name == "matches":
                if o[0] == "ok" and o[1] is True and cls_s == "none":
                    out.append(("accepts-unsolvable", dict(d, entry=name), "matches returns True although no assignment of positive integers satisfies the constraints"))
                elif o[0] == "ok" and o[1] is False and must and all(s is not None for s in shapes):
                    out.append(("rejects-determined", dict(d, entry=name), "matches returns False although all lengths follow by propagation"))
                else:
                    out.append(("ok", dict(d, entry=name), None))
                continue
            if o[0] == "ok":
                if c != "unique":
                    out.append((f"accepts-{c}", dict(d, entry=name), f"{name} returns {o[1]} although the constraint system has {'no solution' if c == 'none' else 'several solutions differing in a reported quantity'}"))
                elif name == "solve_axes" and any(int(np.asarray(o[1].get(n, -1))) != s_[n] for n in used):
                    out.append(("wrong-value", dict(d, entry=name), f"solve_axes returns {o[1]} but the unique solution is {s_}"))
                elif name == "solve_shapes" and tuple(tuple(int(x) for x in sh) for sh in o[1]) != tuple(tuple(s_[f'{i}.{j}'] for j in range(len(e))) for i, e in enumerate(exprs)):
                    out.append(("wrong-value", dict(d, entry=name), f"solve_shapes returns {o[1]}"))
                else:
                    out.append(("ok", dict(d, entry=name), None))
            else:
                if must:
                    out.append(("rejects-determined", dict(d, entry=name), f"{name} raises {o[1]} although all lengths follow by substituting known values one axis at a time"))
                else:
                    out.append(("ok", dict(d, entry=name), None))
    return out


def replay(desc, shapes, kw):
    import einx
    tensors = [None if s is None else np.broadcast_to(np.zeros(()), s) for s in shapes]
    r = {}
    for name in ("solve_axes", "solve_shapes", "matches"):
        o = harness.outcome(lambda: getattr(einx, name)(desc, *tensors, **kw), 15)
        r[name] = o[1] if o[0] != "ok" else str(o[1])
    return f"{desc!r} shapes={shapes} {kw}: {r} (compare with the oracle verdict recorded in the replay file)"


def large_magnitudes():
    """exact arithmetic: products / sums far beyond 2**31 and 2**63 with unknown tensors"""
    import einx
    out = []
    rng = random.Random(5)
    for _ in range(40):
        a, b, c = (rng.choice([2 ** 16, 2 ** 31 + 7, 2 ** 40 + 1, 3 ** 25, 2 ** 61 - 1, 65536, 10 ** 12]) for _ in range(3))
        for desc, kw, exp in [("(a b)", dict(a=a, b=b), ((a * b,),)), ("(a b c)", dict(a=a, b=b, c=c), ((a * b * c,),)), ("(a + b)", dict(a=a, b=b), ((a + b,),)), ("a (b + c) (a c)", dict(a=a, b=b, c=c), ((a, b + c, a * c),))]:
            o = harness.outcome(lambda: einx.solve_shapes(desc, None, **kw), 15)
            d = {"description": desc, "shapes": [None], "kwargs": {k: str(v) for k, v in kw.items()}, "entry": "solve_shapes"}
            got = tuple(tuple(int(x) for x in s) for s in o[1]) if o[0] == "ok" else o[1]
            out.append(("ok", d, None) if got == exp else ("inexact", d, f"solve_shapes({desc!r}, None, {kw}) = {got}, exact value {exp}"))
        # literal numbers take another path (values of stage1/stage2 nodes, common-subexpression axes)
        for desc, exp in [(f"({a} {b})", ((a * b,),)), (f"({a} {b} {c})", ((a * b * c,),)), (f"({a} + {b})", ((a + b,),)), (f"x ({a} {b}), ({a} {b})", ((7, a * b), (a * b,)))]:
            args = (None,) if "," not in desc else (None, None)
            o = harness.outcome(lambda: einx.solve_shapes(desc, *args, **({"x": 7} if "x" in desc else {})), 15)
            d = {"description": desc, "shapes": [None] * len(args), "kwargs": {}, "entry": "solve_shapes"}
            got = tuple(tuple(int(x) for x in s) for s in o[1]) if o[0] == "ok" else o[1]
            out.append(("ok", d, None) if got == exp else ("inexact", d, f"solve_shapes({desc!r}, {args}) = {got}, exact value {exp}"))
        o = harness.outcome(lambda: einx.solve_axes("a b", None, None, a=a, b=b) if False else einx.solve_axes("(a b)", np.zeros((6,)), a=2), 15)
        big = rng.choice([2 ** 31, 2 ** 33 + 5, 2 ** 40])
        o = harness.outcome(lambda: einx.solve_axes("a", None, a=big), 15)
        d = {"description": "a", "shapes": [None], "kwargs": {"a": str(big)}, "entry": "solve_axes"}
        out.append(("ok", d, None) if o[0] == "ok" and int(o[1]["a"]) == big else ("inexact", d, f"solve_axes('a', None, a={big}) = {o[1]}"))
    return out


def constraint_rank_sequences():
    """a scalar size for an ellipsis axis broadcasts over its repetitions, a tuple fixes one entry per repetition: the outcome for either form must not depend on
    which form was solved first in this process (same numbers, different rank)"""
    import einx
    out = []
    for desc, shape, name in (("(a b)...", (6, 8), "a"), ("(a b)... c", (6, 8, 3), "a"), ("a... (b c)", (2, 2, 6), "c"), ("(a b)...", (6,), "a")):
        r = len(shape) - (1 if desc.endswith(" c") else 0) - (1 if desc.startswith("a...") else 0)
        reps = r if not desc.startswith("a...") else 1
        forms = [("scalar", 2), ("tuple-1", (2,)), ("tuple-r", (2,) * max(reps, 1)), ("tuple-r+1", (2,) * (reps + 1)), ("list-1", [2]), ("array-1", np.array([2]))]
        for entry in ("solve_axes", "solve_shapes", "matches"):
            f = getattr(einx, entry)
            for order in (forms, forms[::-1]):
                got = {}
                for label, v in order:
                    o = harness.outcome(lambda: f(desc, np.broadcast_to(np.zeros(()), shape), **{name: v}), 15)
                    got[label] = ("ok", str(o[1])) if o[0] == "ok" else (o[0], o[1] if len(o) > 1 else "")
                key = (desc, entry, shape)
                out.append((key, "fwd" if order is forms else "rev", got))
    res = []
    by = {}
    for key, direction, got in out:
        by.setdefault(key, {})[direction] = got
    reps_of = {("(a b)...", (6, 8)): 2, ("(a b)... c", (6, 8, 3)): 2, ("a... (b c)", (2, 2, 6)): 0, ("(a b)...", (6,)): 1}  # 0: the constrained axis is not under an ellipsis
    for (desc, entry, shape), d in by.items():
        dd = {"description": desc, "shapes": [list(shape)], "kwargs": {}, "entry": entry}
        reps = reps_of[(desc, shape)]
        bad = None
        for direction in ("fwd", "rev"):
            for label, o in d[direction].items():
                k = {"scalar": None, "tuple-1": 1, "list-1": 1, "array-1": 1, "tuple-r": reps, "tuple-r+1": reps + 1}[label]
                valid = k is None or (reps > 0 and k == reps)
                accepted = (o[0] == "ok" and o[1] != "False")
                if accepted != valid:
                    bad = f"{entry}({desc!r}, size given as {label}) is {'accepted' if accepted else 'rejected: ' + str(o[1])} in call order {direction}; a tuple must have one entry per repetition ({reps}), a scalar is broadcast"
        res.append(("constraint-rank", dd, bad) if bad else ("ok", dd, None))
    return res


def rank_value_independence():
    """Ellipsis repetition counts (ranks) are determined from ranks alone: tensor ranks, the number of entries of tuple-valued sizes, and the structure of the
    expressions. Hence WHETHER a call fails with RankError cannot depend on the numeric values of scalar size keywords or on coincidences between those values and
    tensor dimensions (equal numbers, equal printed text). Relation checked: for a fixed description and fixed tensor ranks, the predicate 'raises RankError' is the
    same for every assignment of scalar values (all equal / all distinct / equal to a tensor dimension), for solve_axes, solve_shapes, matches and einx.id."""
    import einx
    out = []
    scenarios = [
        ("(a c)..., b...", [(4, 6), None], ["a", "b"]),
        ("(a b)... c", [(4, 6, 2)], ["a", "c"]),
        ("a..., b...", [(2, 2), None], ["b"]),
        ("a... b, c...", [(2, 3, 2), (2,)], ["b"]),
        ("(s ds)... g", [(4, 6, 2)], ["ds", "g"]),
        ("a... (b c)", [(2, 2, 6)], ["c"]),
        ("(a b)..., (c d)...", [(4, 6), (4, 6)], ["a", "c"]),
        ("a b..., b...", [(2, 3, 4), None], ["a"]),
    ]
    for desc, shapes, names in scenarios:
        tensors = [None if s is None else np.broadcast_to(np.zeros(()), s) for s in shapes]
        dims = sorted({d for s in shapes if s is not None for d in s})
        assignments = [("all equal 2", {n: 2 for n in names}), ("all distinct", {n: 2 + i for i, n in enumerate(names)}), ("all distinct, reversed", {n: 2 + len(names) - i for i, n in enumerate(names)}),
                       ("equal to a tensor dimension", {n: dims[i % len(dims)] for i, n in enumerate(names)}), ("all equal 3", {n: 3 for n in names})]
        for entry in ("solve_axes", "solve_shapes", "matches"):
            got = {}
            for label, kw in assignments:
                o = harness.outcome(lambda: getattr(einx, entry)(desc, *tensors, **kw), 15)
                if o[0] == "timeout":
                    got[label] = "timeout"
                elif entry == "matches":
                    got[label] = "n/a"
                else:
                    got[label] = "RankError" if (o[0] == "exc" and o[1] == "einx.errors.RankError") else "no RankError"
            vals = {v for v in got.values() if v not in ("timeout", "n/a")}
            d = {"description": desc, "shapes": [None if s is None else list(s) for s in shapes], "kwargs": {n: "varied" for n in names}, "entry": entry}
            if len(vals) > 1:
                out.append(("rank-depends-on-values", d, f"{entry}({desc!r}) with scalar sizes {names}: RankError depends on the VALUES of the sizes: {got}"))
            else:
                out.append(("ok", d, None))
    return out


def many_repetitions():
    """ellipses with 10+ repetitions: per-repetition lengths are reported in repetition order (positions 10, 11, ... must not be ordered as text)"""
    import einx
    out = []
    for shape in [(2, 3, 1, 2, 1, 3, 2, 1, 1, 2, 3, 2), (1, 2, 3, 1, 2, 3, 1, 2, 3, 1, 2), (3, 1, 2, 1, 1, 2, 1, 3, 1, 2, 1, 1, 2)]:
        x = np.broadcast_to(np.zeros(()), shape)
        for desc, kw, want in [("a...", {}, {"a": shape}), ("a... b", {}, {"a": shape[:-1], "b": shape[-1]}), ("(a b)...", {"b": 1}, {"a": shape, "b": (1,) * len(shape)})]:
            o = harness.outcome(lambda: einx.solve_axes(desc, x, **kw), 30)
            d = {"description": desc, "shapes": [list(shape)], "kwargs": kw, "entry": "solve_axes"}
            if o[0] == "timeout":
                out.append(("timeout", d, None))
                continue
            good = o[0] == "ok" and all(np.array_equal(np.asarray(o[1].get(k)), np.asarray(v)) for k, v in want.items())
            out.append(("ok", d, None) if good else ("wrong-value", d, f"solve_axes({desc!r}, shape {shape}, {kw}) = {o[1]}, expected {want}"))
            o = harness.outcome(lambda: einx.solve_shapes(desc, x, **kw), 30)
            d = dict(d, entry="solve_shapes")
            if o[0] != "timeout":
                out.append(("ok", d, None) if o[0] == "ok" and tuple(int(v) for v in o[1][0]) == tuple(shape) else ("wrong-value", d, f"solve_shapes({desc!r}, shape {shape}) = {o[1]}"))
    return out


POSITIVITY = [("a ()", [(3, 5)], {}), ("() a", [(2, 3)], {}), ("a (b...)", [(3, 5)], {"b": ()}), ("(a + b) c", [(1, 4)], {}), ("((a + b) (c + d))", [(5,)], {}), ("(a + b + c) d", [(2, 3)], {}), ("a (b + 1)", [(3, 1)], {}), ("(a + b), b", [(3,), (3,)], {}), ("((a + b) c)", [(3,)], {"c": 3})]


def positivity_cases(chk):
    """every axis length is a POSITIVE integer: a concatenation of k axes is at least k. Systems that have a solution over the non-negative integers only must be rejected.
    solve_axes (no common-subexpression elimination) rejects them; solve_shapes / matches replace '(a + b)' by one axis first and then accept: finding F-cse-positivity"""
    import einx
    out = []
    for desc, shapes, kw in POSITIVITY:
        tensors = [np.broadcast_to(np.zeros(()), s) for s in shapes]
        d = {"description": desc, "shapes": [list(s) for s in shapes], "kwargs": kw}
        o_axes = harness.outcome(lambda: einx.solve_axes(desc, *tensors, **kw), 15)
        for entry in ("solve_axes", "solve_shapes", "matches"):
            o = harness.outcome(lambda: getattr(einx, entry)(desc, *tensors, **kw), 15)
            accepted = o[0] == "ok" and not (entry == "matches" and o[1] is False)
            if o[0] == "exc" and o[1] not in ("einx.errors.AxisSizeError", "einx.errors.RankError"):
                out.append(("internal", dict(d, entry=entry), f"{entry} raised {o[1]}"))
            elif accepted and entry != "solve_axes" and o_axes[0] == "exc" and o_axes[1] == "einx.errors.AxisSizeError":
                chk.known_finding("F-cse-positivity", "einx.solve_shapes / matches accept systems that have no solution in POSITIVE integers when a concatenation is replaced by one axis first, e.g. solve_shapes('(a + b) c', shape (1, 4)) = ((1, 4),)")
                out.append(("ok", dict(d, entry=entry), None))
            elif accepted:
                out.append(("accepts-none", dict(d, entry=entry), f"{entry} accepts {desc!r} against {shapes} {kw} although no assignment of positive integers satisfies it"))
            else:
                out.append(("ok", dict(d, entry=entry), None))
    return out


UNEXPANDED = [("(3...)", [(7,)], {}), ("b (3...)", [(2, 7)], {}), ("(2...) (3...)", [(5, 7)], {})]


def unexpanded_ellipsis_cases(chk):
    """a flattened ellipsis of literal lengths '(3...)' denotes 3**k: against a dimension that is no power of 3 no assignment exists. The solve_* entry points leave the repetition count
    of such an ellipsis undetermined and accept: finding F-unexpanded-ellipsis-unchecked (operations reject the same expression with RankError)"""
    import einx
    out = []
    for desc, shapes, kw in UNEXPANDED:
        tensors = [np.broadcast_to(np.zeros(()), s) for s in shapes]
        for entry in ("solve_axes", "solve_shapes", "matches"):
            o = harness.outcome(lambda: getattr(einx, entry)(desc, *tensors, **kw), 15)
            d = {"description": desc, "shapes": [list(s) for s in shapes], "kwargs": kw, "entry": entry}
            accepted = o[0] == "ok" and not (entry == "matches" and o[1] is False)
            if o[0] == "exc" and o[1] not in ("einx.errors.AxisSizeError", "einx.errors.RankError"):
                out.append(("internal", d, f"{entry} raised {o[1]}"))
            elif accepted:
                chk.known_finding("F-unexpanded-ellipsis-unchecked", "einx.solve_shapes / solve_axes / matches accept '(3...)' against a dimension that is not a power of 3 (the repetition count of a flattened ellipsis is left undetermined and its length unchecked)")
                out.append(("ok", d, None))
            else:
                out.append(("ok", d, None))
    return out


def rule_exact():
    """C02.S.exact: no 32-bit casts of sizes in the solving code; lengths of flattened / concatenated axes are computed with Python ints"""
    sites, failing = [], []
    import glob, os
    from .. import REPO
    files = sorted(glob.glob(os.path.join(REPO, "einx/_src/namedtensor/**/*.py"), recursive=True)) + [os.path.join(REPO, "einx/_src/frontend/util.py"), os.path.join(REPO, "einx/_src/util/solver.py")]
    for f in files:
        t = ast.parse(open(f).read())
        r = os.path.relpath(f, REPO)
        par = frame.parents(t)
        for n in ast.walk(t):
            if isinstance(n, ast.Constant) and isinstance(n.value, str) and n.value in ("int32", "int16", "int8", "uint32", "float32", "float64", "float16"):
                # docstrings / examples are not code
                w = par.get(n)
                if isinstance(w, ast.Expr):
                    continue
                site = f"{r}:{n.lineno}:{n.value}"
                sites.append(site)
                fn = n
                while fn in par and not isinstance(fn, ast.FunctionDef):
                    fn = par[fn]
                allowed = r.endswith("stage2/solve.py") and isinstance(fn, ast.FunctionDef) and fn.name == "_input_expr"  # dtype of an EMPTY array only
                if not allowed:
                    failing.append(site + " (narrow numeric type in size arithmetic)")
    # fixed-width numpy reductions over axis lengths (np.prod / np.sum / cumulative forms wrap at 2**63 without any error)
    NARROW = ("prod", "sum", "cumprod", "cumsum", "multiply", "add", "dot", "product")
    for f in files:
        t = ast.parse(open(f).read())
        r = os.path.relpath(f, REPO)
        for n in ast.walk(t):
            if isinstance(n, ast.Call) and isinstance(n.func, ast.Attribute) and n.func.attr in NARROW and isinstance(n.func.value, ast.Name) and n.func.value.id in ("np", "numpy", "_np"):
                site = f"{r}:{n.lineno}:{ast.unparse(n)[:60]}"
                sites.append(site)
                failing.append(site + " (fixed-width numpy arithmetic on axis lengths; use Python integers)")
    t, p = frame.parse("einx/_src/namedtensor/stage3/tree.py")
    for cname in ("List", "ConcatenatedAxis"):
        c = frame.find_class(t, cname)
        init = [q for q in c.body if isinstance(q, ast.FunctionDef) and q.name == "__init__"][0]
        call = [n for n in ast.walk(init) if isinstance(n, ast.Call) and ast.unparse(n.func) == "Expression.__init__"][0]
        arg = ast.unparse(call.args[1])
        site = f"{frame.rel(p)}:{call.lineno}:{cname} value = {arg}"
        sites.append(site)
        if "np." in arg or "numpy" in arg or "astype" in arg:
            failing.append(site + " (value of a flattened/concatenated axis computed with fixed-width numpy arithmetic)")
    return not failing, sites, failing


def rule_tree_fields_frozen():
    """C02.S.tree_fields_frozen: the fields that carry the representation invariant of expression trees (value, children, inner) are written only as
    `self.<field> = ...` inside a constructor; nothing in einx mutates a children list in place, deletes such a field, writes it through setattr/__dict__,
    or overrides attribute assignment in the tree classes. With the constructor contracts (C02.P.tree_*) the invariant value = prod/sum/inner therefore holds
    for every stage3 node for its whole life time."""
    import glob, os
    from .. import REPO
    FIELDS = ("value", "children", "inner")
    MUT = ("append", "insert", "extend", "pop", "remove", "sort", "reverse", "clear", "__setitem__", "__delitem__")
    sites, failing = [], []
    for f in sorted(glob.glob(os.path.join(REPO, "einx/_src/**/*.py"), recursive=True)):
        t = ast.parse(open(f).read())
        r = os.path.relpath(f, REPO)
        par = frame.parents(t)

        def enclosing(n):
            while n in par:
                n = par[n]
                if isinstance(n, (ast.FunctionDef, ast.Lambda)):
                    return n
            return None

        for n in ast.walk(t):
            if isinstance(n, ast.Attribute) and n.attr in FIELDS and isinstance(n.ctx, (ast.Store, ast.Del)):
                fn = enclosing(n)
                site = f"{r}:{n.lineno}:{ast.unparse(n)}"
                sites.append(site)
                if not (isinstance(n.ctx, ast.Store) and isinstance(n.value, ast.Name) and n.value.id == "self" and isinstance(fn, ast.FunctionDef) and fn.name == "__init__"):
                    failing.append(site + " (field carrying the tree invariant written outside a constructor)")
            if isinstance(n, ast.Subscript) and isinstance(n.ctx, (ast.Store, ast.Del)) and isinstance(n.value, ast.Attribute) and n.value.attr in FIELDS:
                site = f"{r}:{n.lineno}:{ast.unparse(n)}"
                sites.append(site)
                failing.append(site + " (item store into a children list)")
            if isinstance(n, ast.Call) and isinstance(n.func, ast.Attribute) and n.func.attr in MUT and isinstance(n.func.value, ast.Attribute) and n.func.value.attr in FIELDS:
                site = f"{r}:{n.lineno}:{ast.unparse(n)[:70]}"
                sites.append(site)
                failing.append(site + " (in-place mutation of a children list)")
            if isinstance(n, ast.Call) and ast.unparse(n.func) in ("setattr", "object.__setattr__", "delattr") and r.startswith("einx/_src/namedtensor/"):
                site = f"{r}:{n.lineno}:{ast.unparse(n)[:70]}"
                sites.append(site)
                failing.append(site + " (reflective attribute write in the expression layer)")
            if isinstance(n, ast.FunctionDef) and n.name in ("__setattr__", "__delattr__") and r.startswith("einx/_src/namedtensor/"):
                failing.append(f"{r}:{n.lineno}: tree class overrides {n.name}")
            if isinstance(n, ast.AugAssign) and isinstance(n.target, ast.Attribute) and n.target.attr in FIELDS:
                failing.append(f"{r}:{n.lineno}:{ast.unparse(n)[:70]} (augmented assignment to a tree field)")
    # the List children handed to List(...) must not be aliased to a list that is mutated afterwards: List.create builds a fresh list (children2)
    return not failing, sites, failing


def run(tier, seed):
    from ..kernels.base import run_kernel
    from ..kernels import c02_stage3_tree, c02_values
    chk = Check("C02", tier, seed, "other")
    for k in c02_stage3_tree.KERNELS + c02_values.KERNELS:
        chk.add_kernel(run_kernel(k, tier))
    ok, sites, failing = rule_exact()
    chk.add_rule("C02.S.exact", ok, sites, failing)
    ok, sites, failing = rule_tree_fields_frozen()
    chk.add_rule("C02.S.tree_fields_frozen", ok, sites, failing)
    n = 24 if tier == "quick" else 1500
    res = [x for r in harness.pmap(_work, [(seed, i) for i in range(n)]) for x in r]
    res += large_magnitudes()
    res += constraint_rank_sequences() + rank_value_independence() + positivity_cases(chk) + many_repetitions() + unexpanded_ellipsis_cases(chk)
    cnt = {}
    for r in res:
        cnt[r[0]] = cnt.get(r[0], 0) + 1
    fails = [r for r in res if r[0] not in ("ok", "oracle-unknown", "timeout")]
    seen = set()
    for st, d, detail in fails:
        k = (st, d.get("entry"))
        if k in seen:
            continue
        seen.add(k)
        chk.violation(f"C02.B.{st}[{d.get('entry')}]", f"einx.{d.get('entry')}({d['description']!r}, shapes={d['shapes']}, {d['kwargs']}): {detail}", replay={"kind": "case", "case": d}, found_input=True)
    n_to = 0
    for r in res:
        if r[0] == "timeout":
            n_to += 1
            chk.undecided.append({"case": {k: v for k, v in r[1].items() if k != "replay"}, "why": "per-call alarm (known finding F-solver-order-hang)"})
    if n_to:
        chk.known_finding("F-solver-order-hang", f"{n_to} solve_* calls on (mostly unsolvable / ambiguous) systems with a flatten group next to a concatenation did not return within the per-call alarm")
    chk.add_bounded("random expression lists (flatten, concatenation, numbers; perturbed shapes; unknown tensors; partial / contradicting keyword sizes) through solve_axes / solve_shapes / matches vs a z3 constraint oracle "
                    "(unique / none / ambiguous) and the one-axis-at-a-time propagation criterion; large-magnitude stratum up to 2**180", f"{n} chunks x 40 systems x 3 entry points + 200 large-magnitude calls",
                    len(res), len({(r[1]['description'], str(r[1]['shapes']), str(r[1]['kwargs'])) for r in res}), failures=fails, samples=[{k: v for k, v in r[1].items() if k != 'replay'} for r in res[:2]], note=str(cnt))
    chk.trusted += ["z3 as the constraint oracle (systems it answers `unknown` are counted and skipped)"]
    chk.assumptions += ["completeness beyond the propagation criterion is not decided", "sympy itself is not verified, only its answers", "ellipsis-rank solving: only the relation `RankError does not depend on the values of scalar sizes` (8 descriptions x 5 value assignments) and the scalar/tuple constraint-rank sequences are checked here; the rest through the C07/C01 corpora"]
    chk.explanation = "certifying postcondition on the solve entry points: returns sigma => sigma satisfies E and is the only positive solution on the reported quantities; raises => E has no unique solution; propagation-determined => returns. Decided per call by z3 on a bounded corpus; exactness by a syntactic rule (no fixed-width size arithmetic) plus a large-magnitude stratum"
    return chk
