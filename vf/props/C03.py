"""C03 - ill-formed calls are rejected with documented errors, never computed."""
import linecache
import random
import signal
import traceback
import numpy as np
from ..report import Check
from ..kernels.base import run_kernel
from .. import frame, corpus, harness

ALLOWED_EINX = {"SyntaxError", "RankError", "AxisSizeError", "SemanticError", "OperationNotSupportedError", "BackendResolutionError"}
EDIT_TOKENS = ["a", "b", "z", "1", "2", "0", "(", ")", "[", "]", "...", "->", ",", "+", " ", "|", "²", "{", "-", "a.b"]


def classify(fn, seconds=15):
    """('ok',) | ('rejected', cls) | ('internal', cls, where, msg) | ('timeout',)"""
    try:
        harness.with_alarm(seconds, fn)
        return ("ok",)
    except harness.CallTimeout:
        return ("timeout",)
    except BaseException as e:  # noqa
        mod, name = type(e).__module__, type(e).__name__
        tb = traceback.extract_tb(e.__traceback__)
        last = tb[-1] if tb else None
        where = f"{last.filename.split('/einx/')[-1]}:{last.lineno}" if last else "?"
        if mod.startswith("einx"):
            if name in ALLOWED_EINX:
                return ("rejected", name)
            return ("internal", name, where, str(e)[:120])  # CallOperationError (backend code ran), ImportBackendError, ...
        if name in ("ValueError", "TypeError") and last is not None and "/einx/" in last.filename:
            line = (last.line or linecache.getline(last.filename, last.lineno)).strip()
            if line.startswith("raise "):
                return ("rejected", name)
        return ("internal", f"{mod}.{name}", where, str(e)[:120])


def edits(desc, rng, k):
    toks = []
    i = 0
    lits = ["...", "->"]
    while i < len(desc):
        for l in lits:
            if desc.startswith(l, i):
                toks.append(l)
                i += len(l)
                break
        else:
            j = i
            if desc[i].isalnum() or desc[i] == "_":
                while j < len(desc) and (desc[j].isalnum() or desc[j] == "_"):
                    j += 1
                toks.append(desc[i:j])
                i = j
            else:
                toks.append(desc[i])
                i += 1
    out = set()
    for _ in range(k * 3):
        t = list(toks)
        kind = rng.choice(["delete", "duplicate", "replace", "insert", "swap"])
        if not t and kind != "insert":
            continue
        p = rng.randrange(len(t)) if t else 0
        if kind == "delete":
            del t[p]
        elif kind == "duplicate":
            t.insert(p, t[p])
        elif kind == "replace":
            t[p] = rng.choice(EDIT_TOKENS)
        elif kind == "insert":
            t.insert(p, rng.choice(EDIT_TOKENS))
        elif kind == "swap" and len(t) > 1:
            q = rng.randrange(len(t))
            t[p], t[q] = t[q], t[p]
        s = "".join(t)
        if s != desc:
            out.add(s)
        if len(out) >= k:
            break
    return sorted(out)


def _work(args):
    seed, idx = args
    import einx
    rng = random.Random(seed * 9176 + idx)
    out = []
    for c in corpus.corpus(seed * 100003 + idx, 10):
        f = getattr(einx, c.op)
        variants = []
        for s in edits(c.desc, rng, 14):
            variants.append(("description edit", s, c.tensors, c.kwargs))
        for ti, t in enumerate(c.tensors):
            if t.ndim:
                ax = rng.randrange(t.ndim)
                sh = list(t.shape)
                sh[ax] += 1
                variants.append((f"dimension {ax} of tensor {ti} + 1", c.desc, c.tensors[:ti] + [np.zeros(sh, dtype=t.dtype)] + c.tensors[ti + 1:], c.kwargs))
                variants.append((f"rank of tensor {ti} + 1" + (" !must-reject" if "..." not in c.desc else ""), c.desc, c.tensors[:ti] + [t[None]] + c.tensors[ti + 1:], c.kwargs))
        variants.append(("last tensor dropped !must-reject", c.desc, c.tensors[:-1], c.kwargs))
        variants.append(("tensor added !must-reject", c.desc, c.tensors + [np.zeros(2)], c.kwargs))
        for k in list(c.kwargs)[:2]:
            if isinstance(c.kwargs[k], int) and not isinstance(c.kwargs[k], bool):
                variants.append((f"size keyword {k} removed", c.desc, c.tensors, {a: b for a, b in c.kwargs.items() if a != k}))
                variants.append((f"size keyword {k} contradicted", c.desc, c.tensors, dict(c.kwargs, **{k: c.kwargs[k] + 1})))
        variants.append(("unknown keyword as size", c.desc, c.tensors, dict(c.kwargs, qq=3)))
        variants.append(("non-tensor argument", c.desc, ["x"] + c.tensors[1:], c.kwargs))
        for what, d, ts, kw in variants:
            ran = []
            r = classify(lambda: f(d, *[np.array(t, copy=True) if isinstance(t, np.ndarray) else t for t in ts], backend="numpy", **kw))
            if r[0] == "ok" and what.endswith("!must-reject"):
                r = ("accepted", "returned a value", "-", "a call that is certainly ill-formed was computed instead of rejected")
            out.append((r, {"op": c.op, "description": d, "shapes": [list(np.shape(t)) for t in ts], "kwargs": {a: str(b) for a, b in kw.items()}, "edit": what, "seed_call": c.desc}))
        # solve_* entry points on the (edited) expression list
        exprs = c.desc.split("->")[0]
        for s in [exprs] + edits(exprs, rng, 4):
            for name in ("solve_axes", "solve_shapes", "matches"):
                g = getattr(einx, name)
                r = classify(lambda: g(s, *c.tensors, **{k: v for k, v in c.kwargs.items() if isinstance(v, int) and k not in ("shift",)}))
                out.append((r, {"op": name, "description": s, "shapes": [list(np.shape(t)) for t in c.tensors], "kwargs": {}, "edit": "expression-list edit", "seed_call": exprs}))
    return out


AMBIGUOUS = [("add", "a b, b a", [(2, 3), (3, 2)]), ("add", "a b, b a", [(3, 3), (3, 3)]), ("subtract", "(a b), a b", [(6,), (2, 3)]), ("multiply", "a b c, c b a", [(2, 2, 2), (2, 2, 2)]),
             ("add", "a 1, a", [(3, 1), (3,)]), ("where", "a b, b a, a", [(2, 3), (3, 2), (2,)]), ("maximum", "a (b c), (a b) c", [(2, 6), (4, 3)]), ("less", "b a, a b", [(2, 2), (2, 2)])]
BRACKET_RULES = [("sum", "a [b] -> a b", [(2, 3)]), ("sum", "[a] b -> a", [(2, 3)]), ("dot", "a [b], [b] c, [b] -> a c", [(2, 3), (3, 2), (3,)]), ("get_at", "[a] b, [c] -> b", [(3, 2), (2,)]),
                 ("argmax", "a b -> a", [(2, 3)]), ("sort", "[a b]", [(2, 3)]), ("id", "a -> a a", [(2,)]), ("add", "a, b -> c", [(2,), (3,)]), ("sum", "a [b] -> [b]", [(2, 3)])]


CONCAT_NOT_ALLOWED = [("add", "c a, c b -> c (a + b)", [(2, 3), (2, 3)]), ("multiply", "c (a + b), c -> c (a + b)", [(2, 3), (2,)]), ("sum", "a (b + c)", [(2, 5)]), ("sum", "a [(b + c)]", [(2, 5)]),
                      ("softmax", "a [(b + c)]", [(2, 5)]), ("flip", "a [(b + c)]", [(2, 5)]), ("dot", "a (b + c), (b + c) d -> a d", [(2, 5), (5, 2)]), ("mean", "(a + b) c -> c", [(5, 2)]),
                      ("get_at", "[(a + b)] c, [1] -> c", [(5, 2), (1,)]), ("argmax", "a [(b + c)]", [(2, 5)])]


def must_reject():
    """calls whose ill-formedness is certain from the documented rules: ambiguous implicit output; bracket rules of the operation families"""
    import einx
    out = []
    for op, d, shapes in AMBIGUOUS + BRACKET_RULES + CONCAT_NOT_ALLOWED:
        ts = [np.arange(int(np.prod(s)), dtype=float).reshape(s) + (1 if op in ("less",) else 0) for s in shapes]
        if op == "where":
            ts[0] = ts[0] > 2
        if op == "get_at":
            ts[1] = ts[1].astype(int) % 2
        for be in ("numpy", "numpy.numpylike"):
            r = classify(lambda: getattr(einx, op)(d, *ts, backend=be))
            if r[0] == "ok":
                r = ("accepted", "returned a value", "-", "a call that is certainly ill-formed by the documented rules was computed instead of rejected")
            out.append((r, {"op": op, "description": d, "shapes": [list(s) for s in shapes], "kwargs": {}, "edit": "must-reject list", "seed_call": d, "backend": be}))
    return out


def must_reject_sizes():
    """size keywords that cannot match the tensors, chosen so that a wrap-around in a fixed-width integer WOULD make them match (2**32 + k, 2**64 + k, -2**32 + k): certainly ill-formed"""
    import einx
    out = []
    x6, x23 = np.arange(6.0), np.arange(6.0).reshape(2, 3)
    cases = []
    for big in (2 ** 32, 2 ** 64, -(2 ** 32), 2 ** 31):
        cases += [("id", "(a b) -> a b", [x6], {"a": big + 3}), ("sum", "a [b]", [x23], {"b": big + 3}), ("id", "a b -> a b c", [x23], {"a": big + 2, "c": 2}),
                  ("id", "(a b) -> a b", [x6], {"a": np.int64(3) if False else big + 2, "b": 3})]
    for op, d, ts, kw in cases:
        r = classify(lambda: getattr(einx, op)(d, *ts, **kw))
        if r[0] == "ok":
            r = ("accepted", "returned a value", "-", f"a size keyword that cannot match the tensor shapes ({kw}) was accepted (fixed-width wrap-around?)")
        out.append((r, {"op": op, "description": d, "shapes": [list(t.shape) for t in ts], "kwargs": {k: str(v) for k, v in kw.items()}, "edit": "must-reject sizes", "seed_call": d, "backend": None}))
    # a size of exactly 0 (as keyword, per-repetition entry or literal) contradicts every tensor with positive lengths
    cases0 = [("id", "a b -> b a", [x23], {"a": 0}), ("id", "a... -> a...", [x23], {"a": (2, 0)}), ("sum", "a [0]", [x23], {}), ("id", "(a b) -> a b", [x6], {"b": 0}), ("sum", "a [b]", [x23], {"b": 0})]
    for op, d, ts, kw in cases0:
        r = classify(lambda: getattr(einx, op)(d, *ts, **kw))
        if r[0] == "ok":
            r = ("accepted", "returned a value", "-", f"a size of 0 that contradicts the tensor shapes ({kw or d}) was accepted")
        out.append((r, {"op": op, "description": d, "shapes": [list(t.shape) for t in ts], "kwargs": {k: str(v) for k, v in kw.items()}, "edit": "must-reject sizes", "seed_call": d, "backend": None}))
    for fn, d, kw in (("solve_axes", "a b", {"b": 0}), ("solve_shapes", "a b", {"a": 0}), ("matches", "a b", {"b": 0})):
        box = {}

        def call():
            box["r"] = getattr(einx, fn)(d, x23, **kw)

        r = classify(call)
        if r[0] == "ok" and not (fn == "matches" and box.get("r") is False):
            r = ("accepted", "returned a value", "-", f"einx.{fn} accepted the size 0 for a tensor dimension of positive length")
        out.append((r, {"op": fn, "description": d, "shapes": [[2, 3]], "kwargs": {k: str(v) for k, v in kw.items()}, "edit": "must-reject sizes", "seed_call": d, "backend": None}))
    for fn, d, ts, kw in (("solve_axes", "(a b)", [x6], {"a": 2 ** 32 + 3}), ("solve_shapes", "(a b)", [x6], {"a": 2 ** 32 + 2})):
        r = classify(lambda: getattr(einx, fn)(d, *ts, **kw))
        if r[0] == "ok":
            r = ("accepted", "returned a value", "-", f"einx.{fn} accepted the impossible size keyword {kw}")
        out.append((r, {"op": fn, "description": d, "shapes": [[6]], "kwargs": {k: str(v) for k, v in kw.items()}, "edit": "must-reject sizes", "seed_call": d, "backend": None}))
    return out


REPORTED = [  # inputs on which the pinned tree escaped with an internal exception (side observations of independent sub-agents, round 4; repaired by fix: commits) - kept as regression cases
    ("id", "a ((2 3)...) -> a", [(3, 6)], {}), ("id", "(a (2 3)...) -> a", [(18,)], {}),                        # NameError: numpy used without import in stage1/tree.py
    ("id", "(([a]) + b) -> b", [(5,)], {"a": 2}), ("solve_axes", "(([a]) + b)", [(5,)], {}), ("solve_axes", "((a [b]) + c)", [(5,)], {"a": 1, "b": 2}),  # AssertionError: brackets inside a concatenation operand
    ("id", "a b -> b a", [(2, 3)], {"a": -1}), ("id", "a... -> a...", [(2, 3)], {"a": (2, -3)}), ("solve_axes", "a b", [(2, 3)], {"a": -2}),            # SyntaxError about the generated text '-1'
    ("id", "a b -> b a", [(2, 3)], {"a": 2 ** 63}), ("solve_shapes", "a b", [(2, 3)], {"a": 2 ** 64 - 3}), ("sum", "a [b]", [(2, 3)], {"b": 2 ** 63 + 3}),   # sizes in [2**63, 2**64) wrapped negative -> SyntaxError about generated text
    ("get_at", "a [b], p, p, p -> a p", [(2, 3), (1,), (1,), (1,)], {}), ("get_at", "[a b], [2], [1] ->", [(2, 3), (2,), (1,)], {}),                          # AttributeError while building the SemanticError
    ("add_at", "a [b], p, p, p, p -> a [b]", [(2, 3), (1,), (1,), (1,), (1,)], {}),
]
GROUP_UNDER_ELLIPSIS = [("solve_axes", "[a b]...", [(2, 3)], {}), ("solve_shapes", "[a b]... c", [(2, 3, 4)], {}), ("solve_axes", "a [b c]...", [(2, 3, 4)], {})]
ZERO_SIZED_UPDATES = [("set_at", "a [b", [(2, 3), (0, 1), (0,)]), ("add_at", "a [b], p [1] -> a [b]", [(2, 3), (0, 1), (0,)]), ("subtract_at", "a [b], p [1], p q -> a [b]", [(2, 3), (0, 1), (0,)]),
                      ("set_at", "a [b], p [1], p -> a [b], c", [(2, 3), (0, 1), (0,)])]


def reported_cases():
    """regression inputs of repaired defects: must end in a documented exception, whose text (for SyntaxError) does not quote generated text"""
    import einx
    out = []
    for op, d, shapes, kw in REPORTED:
        ts = [np.zeros(s, dtype=int) if op.endswith("_at") and 0 < i < len(shapes) - (0 if op == "get_at" else 1) else np.zeros(s) for i, s in enumerate(shapes)]
        r = classify(lambda: getattr(einx, op)(d, *ts, **kw))
        if r[0] == "ok":
            r = ("accepted", "returned a value", "-", "a call that is ill-formed was computed instead of rejected")
        elif r[0] == "rejected" and r[1] == "SyntaxError" and any(isinstance(v, (int, tuple)) and ("-" in str(v) or (isinstance(v, int) and v >= 2 ** 63)) for v in kw.values()):
            r = ("internal", "einx.errors.SyntaxError", "-", "a negative size keyword is reported as a syntax error about text the caller did not write")
        out.append((r, {"op": op, "description": d, "shapes": [list(s) for s in shapes], "kwargs": {k: str(v) for k, v in kw.items()}, "edit": "regression list", "seed_call": d}))
    return out


def group_under_ellipsis(chk):
    """'[a b]...': finding F-ellipsis-group-rank (the rank equations count a bracket group of k axes under an ellipsis as ONE dimension per repetition)"""
    import einx
    out = []
    for op, d, shapes, kw in GROUP_UNDER_ELLIPSIS:
        ts = [np.zeros(s) for s in shapes]
        r = classify(lambda: getattr(einx, op)(d, *ts, **kw))
        dd = {"op": op, "description": d, "shapes": [list(s) for s in shapes], "kwargs": {}, "edit": "bracket group under an ellipsis", "seed_call": d}
        if r[0] == "internal" and r[1] == "builtins.AssertionError" and r[2].startswith("_src/namedtensor/stage3/solve.py"):
            chk.known_finding("F-ellipsis-group-rank", "einx.solve_axes / solve_shapes on '[a b]...' (a bracket group of >= 2 axes under an ellipsis) fail with AssertionError in stage3.solve: the ellipsis is expanded once per tensor dimension instead of once per group")
            out.append((("rejected", "known"), dd))
        else:
            out.append((r, dd))
    return out


def zero_sized_updates(chk):
    """finding F-zero-size-update-shortcut: set_at/add_at/subtract_at return their first argument without parsing or validating anything when a coordinate/update tensor has a zero-length dimension"""
    import einx
    out = []
    for op, d, shapes in ZERO_SIZED_UPDATES:
        ts = [np.zeros(shapes[0]), np.zeros(shapes[1], dtype=int), np.zeros(shapes[2])]
        box = {}

        def call():
            box["r"] = getattr(einx, op)(d, *ts)

        r = classify(call)
        dd = {"op": op, "description": d, "shapes": [list(s) for s in shapes], "kwargs": {}, "edit": "ill-formed call with a zero-sized coordinate tensor", "seed_call": d}
        if r[0] == "ok" and isinstance(box.get("r"), np.ndarray) and box["r"].shape == tuple(shapes[0]):
            chk.known_finding("F-zero-size-update-shortcut", "einx.set_at / add_at / subtract_at with a zero-sized coordinate or update tensor return the target without parsing or validating anything, e.g. einx.set_at('a [b', x, zeros((0, 1)), zeros((0,)))")
            out.append((("rejected", "known"), dd))
        elif r[0] == "ok":
            out.append((("accepted", "returned a value", "-", "an ill-formed call was computed instead of rejected"), dd))
        else:
            out.append((r, dd))
    return out


def run(tier, seed):
    chk = Check("C03", tier, seed, "other")
    from ..kernels import c12_lexer, c03_indicator, c03_zerosized
    for k in c03_indicator.KERNELS + c03_zerosized.KERNELS:
        chk.add_kernel(run_kernel(k, tier))
    for k in c12_lexer.KERNELS:
        chk.add_kernel(run_kernel(k, tier))
    ok, sites, failing = frame.rule_flow_api()
    chk.add_rule("C03.S.no_backend_code_before_graph", ok, sites, failing)
    ok, sites, failing = frame.rule_dispatch()
    chk.add_rule("C03.S.dispatch_complete", ok, sites, failing)
    from .C02 import rule_exact
    ok, sites, failing = rule_exact()
    chk.add_rule("C03.S.sizes_not_narrowed", ok, sites, failing, detail="a size that is narrowed to a fixed-width integer can turn an ill-formed call into a well-formed one (same rule as C02.S.exact)")
    n = 24 if tier == "quick" else 600
    res = [x for r in harness.pmap(_work, [(seed, i) for i in range(n)]) for x in r]
    res += must_reject() + must_reject_sizes() + reported_cases() + group_under_ellipsis(chk) + zero_sized_updates(chk)
    cnt = {}
    fails = []
    for r, d in res:
        cnt[r[0]] = cnt.get(r[0], 0) + 1
        if r[0] in ("internal", "accepted"):
            fails.append((r, d))
    seen = set()
    for r, d in fails:
        key = (r[1], r[2])
        if key in seen:
            continue
        seen.add(key)
        from ._parser_enum import is_known_braces
        if is_known_braces(d["description"], r[3]):
            chk.known_finding("F-ellipsis-braces", "a bracket group of >= 2 axes under an ellipsis prints with braces, which the parser rejects")
            continue
        chk.violation(f"C03.B.raises_documented[{d['op']}]", f"einx.{d['op']}({d['description']!r}, shapes={d['shapes']}, {d['kwargs']}) [{d['edit']} of {d['seed_call']!r}] escapes with {r[1]} at {r[2]}: {r[3]}",
                      replay={"kind": "case", "case": d}, found_input=True)
    import einx
    xs = [np.full((2,), 1.0) for _ in range(400)]
    r = classify(lambda: einx.add(", ".join(["a"] * 400) + " -> a", *xs), 60)
    if r[0] == "internal" and "RecursionError" in r[1]:
        chk.known_finding("F-deep-graph-recursion", "einx.add with 400 operands raises RecursionError (recursion depth grows with the length of the dependency chain)")
    elif r[0] == "internal":
        chk.violation("C03.B.raises_documented[add]", f"einx.add with 400 operands escapes with {r[1:]}", found_input=True)
    chk.add_bounded("single-edit corruptions (token delete/duplicate/replace/insert/swap; dimension/rank/tensor-count/keyword edits) of valid corpus calls on all public entry points incl. solve_axes/solve_shapes/matches",
                    f"{n} chunks x 10 seed calls x ~30 edits", len(res), len({(d['op'], d['description'], str(d['shapes'])) for _, d in res}), failures=fails, samples=[d for _, d in res[:3]], note=f"outcome classes: {cnt}")
    chk.assumptions += ["a ValueError/TypeError counts as documented only if it is raised by an explicit `raise` statement inside einx (an exception escaping from numpy/sympy internals or from an implicit operation counts as internal)",
                        "exception-freedom of the tree-recursive parser stages and of _parse_op for all inputs is bounded only"]
    chk.explanation = "raises ⊆ documented: lexer proved total for all strings with caret positions inside the text (shared with C12); nothing can run backend code before the graph is built (rule); everything else by a bounded single-edit corruption corpus"
    return chk
