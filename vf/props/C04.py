"""C04 - generated source is a faithful, self-contained compilation of the traced graph."""
import ast
import random
import numpy as np
from ..report import Check
from .. import frame, corpus, harness
from ..spec import termcmp, irinterp


def check_compiled(graph, fn, code, args=None, tag=""):
    """E1..E5 on one (graph, compiled function, text); returns list of (obligation, detail)"""
    import einx._src.tracer as tracer

    bad = []
    if not isinstance(graph, tracer.Graph):
        # a wrapper graph was inlined to the function it wraps (einx.add on equal shapes compiles to np.add itself): the returned text must still say WHAT is executed -
        # executing it in an empty namespace must define `op`, and `op` must be the object that runs (repaired by fix e9f23f1: the text used to be the import line only)
        ns = {k: v for k, v in getattr(fn, "__globals__", {}).items() if k.startswith("const")} if hasattr(fn, "__globals__") else {}
        try:
            exec(code, ns, ns)
        except Exception as e:  # noqa
            return [("C04.B.E1_text_parses", f"generated text of an inlined wrapper does not execute: {type(e).__name__}: {e}")]
        if "op" not in ns or not callable(ns["op"]):
            return [("C04.B.E2_self_contained", f"the returned text of an inlined wrapper defines no function `op` (text: {code!r}): it does not state what is executed")]
        if ns["op"] is not fn:
            if args is None:
                return [("unsupported", "compiled object is not a graph (a wrapper graph was inlined to its function)")]
            try:
                same = _eq(ns["op"](*[np.array(x, copy=True) if isinstance(x, np.ndarray) else x for x in args]), fn(*[np.array(x, copy=True) if isinstance(x, np.ndarray) else x for x in args]))
            except Exception as e:  # noqa
                same = False
            if not same:
                return [("C04.B.E3_executes_like_graph", "the `op` defined by the returned text of an inlined wrapper is not the function that is executed")]
        return [("unsupported", "compiled object is not a graph (a wrapper graph was inlined to its function): term comparison skipped, text defines the executed object")]
    consts = {k: v for k, v in getattr(fn, "__globals__", {}).items() if k.startswith("const")}
    try:
        ast.parse(code)
    except SyntaxError as e:
        return [("C04.B.E1_text_parses", f"generated text does not parse: {e}")]
    fr = termcmp.free_names(code, set(consts))
    if fr:
        bad.append(("C04.B.E2_self_contained", f"free names {fr} are neither imported, defined, constants from the header nor builtins"))
    declared = {l.split(":")[0].replace("# Constant ", "").strip() for l in code.splitlines() if l.startswith("# Constant ")}
    if set(consts) - declared:
        bad.append(("C04.B.E2_self_contained", f"constants {sorted(set(consts) - declared)} are used but not announced in header comments"))
    try:
        as_ir, as_tx = [], []
        a = termcmp.normalise_lambda_params(termcmp.ir_term(graph, as_ir))
        b = termcmp.normalise_lambda_params(termcmp.text_term(code, consts, as_tx))
        if sorted(set(termcmp.normalise_lambda_params(x) for x in as_ir)) != sorted(set(termcmp.normalise_lambda_params(x) for x in as_tx)):
            bad.append(("C04.B.E4_asserts_emitted", f"the assertions of the graph ({len(set(as_ir))}) are not exactly the assert statements of the text ({len(set(as_tx))})"))
        if a != b:
            bad.append(("C04.B.E3_term_equal", "the term computed by the generated text differs from the term of the traced graph (a value is overwritten while still needed, computed twice, re-ordered across an in-place update, or bound to the wrong variable)"))
    except termcmp.Unsupported as e:
        bad.append(("unsupported", str(e)))
    if args is not None:
        # concrete cross-check: execute the RETURNED TEXT in an empty namespace (+ announced constants) and compare with the reference interpreter
        ns = dict(consts)
        try:
            exec(code, ns, ns)
            name = [n.name for n in ast.parse(code).body if isinstance(n, ast.FunctionDef)][-1]
            a1 = [np.array(x, copy=True) if isinstance(x, np.ndarray) else x for x in args]
            a2 = [np.array(x, copy=True) if isinstance(x, np.ndarray) else x for x in args]
            r1 = ns[name](*a1)
            r2, it = irinterp.run_graph(graph, a2)
            if not _eq(r1, r2):
                bad.append(("C04.B.E3_executes_like_graph", "executing the returned text gives a different result than evaluating the graph node by node"))
            if not all(_eq(x, y) for x, y in zip(a1, a2)):
                bad.append(("C04.B.E3_side_effects", "in-place effects on the arguments differ between the returned text and the node-by-node evaluation"))
            multi = [k for k, v in it.exec_count.items() if v > 1]
            if multi:
                bad.append(("checker", "reference interpreter executed a node twice"))
        except Exception as e:  # noqa
            bad.append(("C04.B.E3_executes_like_graph", f"executing the returned text in an empty namespace raised {type(e).__name__}: {str(e)[:100]}"))
    return bad


def _eq(a, b):
    if isinstance(a, (list, tuple)) or isinstance(b, (list, tuple)):
        return isinstance(a, (list, tuple)) and isinstance(b, (list, tuple)) and len(a) == len(b) and all(_eq(x, y) for x, y in zip(a, b))
    if callable(a) and callable(b):
        return True
    a, b = np.asarray(a), np.asarray(b)
    return a.shape == b.shape and (np.array_equal(a, b) or np.allclose(a.astype(float), b.astype(float), rtol=1e-12, atol=0, equal_nan=True))


def _work(args):
    seed, idx = args
    import einx
    import einx._src.tracer as tracer

    captured = []
    orig = tracer.compiler.python.compile

    def wrapped(graph, return_code=False):
        fn, code = orig(graph, return_code=True)
        captured.append((graph, fn, code))
        return (fn, code) if return_code else fn

    tracer.compiler.python.compile = wrapped
    out = []
    try:
        for c in corpus.corpus(seed * 100003 + idx, 30):
            for be in c.backends:
                captured.clear()
                ts = [t.copy() for t in c.tensors]
                o = harness.call_einx(c.op, c.desc, ts, c.kwargs, be)
                g = harness.call_einx(c.op, c.desc, [t.copy() for t in c.tensors], dict(c.kwargs, graph=True), be)
                d = dict(c.describe(), backend=be)
                for graph, fn, code in captured:
                    if g[0] == "ok" and g[1] != code:
                        out.append(("C04.B.E6_returned_text_is_executed_text", d, "graph=True returns a text different from the one that was compiled for the same call"))
                    for ob, detail in check_compiled(graph, fn, code, [t.copy() for t in c.tensors]):
                        out.append((ob, dict(d, code=code), detail))
                    out.append(("ok", d, None))
    finally:
        tracer.compiler.python.compile = orig
    return out


# ------------------------------------------------------------------ synthetic graphs over the IR node types
def synth_graph(rng):
    import einx._src.tracer as tracer

    P = tracer.signature.python
    T = tracer.signature.classical.Tensor
    npx = P.import_("numpy", as_="np")
    nin = rng.randint(1, 3)
    ins = [T(None, (3, 3)) for _ in range(nin)]
    pool = list(ins)
    const_fn = P.constant(lambda v: v * 2)
    inplace_targets = set()
    for _ in range(rng.randint(2, 9)):
        kind = rng.choice(["call2", "call2", "call1", "getitem", "getattr", "tuple", "operator", "const", "inplace", "update", "assert", "nested", "reuse"])
        a = rng.choice(pool)
        b = rng.choice(pool)
        if kind == "call2":
            v = P.call(P.getattr(npx, rng.choice(["add", "subtract", "multiply", "maximum"])), [a, b])
        elif kind == "call1":
            v = P.call(P.getattr(npx, rng.choice(["cumsum", "cumprod"])), [a], {"axis": rng.choice([0, 1])})
        elif kind == "getitem":
            v = P.call(P.getattr(npx, "add"), [a, P.getitem(b, (rng.choice([0, 1, 2]), slice(None)))])
        elif kind == "getattr":
            v = P.getattr(a, "T")
        elif kind == "tuple":
            tup = P.call(P.builtins.tuple, [[a, b]])
            v = P.call(P.getattr(npx, "add"), [P.getitem(tup, 0), P.getitem(tup, 1)])
        elif kind == "operator":
            v = P.add(a, b) if rng.random() < 0.5 else P.mul(a, b)
        elif kind == "const":
            v = P.call(const_fn, [a])
        elif kind == "inplace":
            base = P.call(P.getattr(npx, "array"), [a])
            v = P.call_inplace(base, P.getattr(npx, "put"), [base, [0, 1], [7.0, 8.0]])
        elif kind == "update":
            base = P.call(P.getattr(npx, "array"), [a])
            v = rng.choice([P.setitem, P.additem, P.subtractitem])(base, (0, slice(None)), P.getitem(b, (1, slice(None))))
        elif kind == "assert":
            v = P.assert_(a, P.equal(P.call(P.builtins.tuple, [P.getattr(a, "shape")]), (3, 3)), "shape")
        elif kind == "nested":
            p1 = T(None, (3, 3))
            inner = tracer.Graph([p1], P.call(P.getattr(npx, "add"), [p1, b]), name="inner")
            v = P.call(inner, [a])
        else:
            v = P.call(P.getattr(npx, "subtract"), [a, P.getitem(a, (1, slice(None)))])
        pool.append(v)
    outv = pool[-1] if rng.random() < 0.7 else (pool[-1], rng.choice(pool))
    return tracer.Graph(ins, outv, name="op"), nin


def _synth(args):
    seed, idx = args
    import einx._src.tracer as tracer
    rng = random.Random(seed * 7 + idx)
    out = []
    for k in range(60):
        try:
            g, nin = synth_graph(rng)
        except Exception as e:  # construction through the tracer API failed (e.g. getattr on a tuple): not a compile case
            continue
        try:
            fn, code = tracer.compiler.python.compile(g, return_code=True)
        except Exception as e:  # noqa
            out.append(("C04.B.compiles", {"synthetic_graph": f"seed {seed} chunk {idx} #{k}", "replay": {"fn": "vf.props.C04:replay_synth", "args": [seed, idx, k]}}, f"compile raised {type(e).__name__}: {str(e)[:200]}"))
            continue
        vals = [np.arange(9.0).reshape(3, 3) + 10 * i + 1 for i in range(nin)]
        res = check_compiled(g, fn, code, vals)
        d = {"synthetic_graph": f"seed {seed} chunk {idx} #{k}", "code": code, "replay": {"fn": "vf.props.C04:replay_synth", "args": [seed, idx, k]}}
        for ob, detail in res:
            out.append((ob, d, detail))
        out.append(("ok", {"synthetic_graph": f"seed {seed} chunk {idx} #{k}"}, None))
    return out


def replay_synth(seed, idx, k):
    for ob, d, detail in _synth((seed, idx)):
        if ob != "ok" and d["synthetic_graph"].endswith(f"#{k}"):
            return f"{ob}: {detail}\n{d.get('code', '')}"
    return None


def many_variables():
    """name generator stress: graphs with many variable groups must compile (no keyword / reserved-name collisions)"""
    import einx
    out = []
    for n in (30, 60, 120):
        xs = [np.full((2,), float(i)) for i in range(n)]
        o = harness.outcome(lambda: einx.add(", ".join(["a"] * n) + " -> a", *xs), 60)
        d = {"op": "add", "description": f"{n} operands 'a, a, ... -> a'", "shapes": [[2]] * 3, "kwargs": {}}
        if o[0] != "ok" or not np.allclose(o[1], sum(range(n))):
            out.append(("C04.B.names", d, f"einx.add of {n} tensors: {o[:2] if o[0] != 'ok' else 'wrong value'} {o[2][-200:] if o[0] == 'exc' else ''}"))
        else:
            out.append(("ok", d, None))
    n = 400
    xs = [np.full((2, 3), float(i)) for i in range(n)]
    o = harness.outcome(lambda: einx.id(", ".join(["a b"] * n) + " -> " + ", ".join(["b a"] * n), *xs), 120)
    d = {"op": "id", "description": f"{n} inputs 'a b, ... -> b a, ...'", "shapes": [[2, 3]], "kwargs": {}}
    out.append(("ok", d, None) if o[0] == "ok" and len(o[1]) == n and np.array_equal(o[1][7], xs[7].T) else ("C04.B.names", d, f"einx.id with {n} tensors: {o[:2]} {o[2][-300:] if o[0] == 'exc' else ''}"))
    return out


def constants_in_text():
    """the text returned with graph=True, executed with ITS OWN listed constants, equals the call - for operations that differ only in a constant
    whose printed form is identical (the header comment prints str(value), the name const<i> is the only trace in the text)"""
    import einx
    out = []

    class Affine:
        def __init__(self, k):
            self.k = k

        def __call__(self, x, y):
            return np.asarray(x * self.k + y)

        def __repr__(self):
            return "Affine()"

    x, y = np.arange(6.0).reshape(2, 3), np.ones((2, 3))
    for rnd in range(2):
        for k in (2.0, 3.0, 5.0):
            fn = Affine(k)
            ad = einx.numpy.adapt_numpylike_elementwise(fn)
            d = {"op": "adapted elementwise", "description": "a b, a b -> a b", "shapes": [[2, 3], [2, 3]], "kwargs": {"constant": f"Affine(k={k}) printed as {fn!r}", "round": rnd}}
            o = harness.outcome(lambda: ad("a b, a b -> a b", x, y))
            if o[0] != "ok" or not np.array_equal(o[1], x * k + y):
                out.append(("C04.B.E6_returned_text_is_executed_text", d, f"call with a constant whose printed form equals that of an earlier constant returned {o[1] if o[0] == 'ok' else o[:2]}, expected x*{k}+y (compiled function of another operation reused?)"))
                continue
            t = harness.outcome(lambda: ad("a b, a b -> a b", x, y, graph=True))
            if t[0] != "ok" or "const1" not in str(t[1]):
                out.append(("ok", d, None))
                continue
            ns = {"const1": fn}
            try:
                exec(t[1], ns, ns)
                r = ns["op"](x, y)
                out.append(("ok", d, None) if np.array_equal(r, x * k + y) else ("C04.B.E6_returned_text_is_executed_text", d, "returned text executed with its own constant differs from the call"))
            except Exception as e:  # noqa
                out.append(("C04.B.E2_closed", d, f"returned text does not run with its listed constant: {type(e).__name__}: {e}"))
    return out


def rule_slice_operands():
    """C04.S.slice_operands: in the indexing emitter `_at` of compile(), every component of a slice that is PRINTED (`value_to_code(s.start/stop/step)`) is also listed among the
    expression's inputs - the liveness / name-fusion analysis only sees listed inputs, an unlisted operand can be overwritten before it is read"""
    import ast
    tree, p = frame.parse("einx/_src/tracer/compiler/python/__init__.py")
    fn = [n for n in ast.walk(tree) if isinstance(n, ast.FunctionDef) and n.name == "_at"]
    sites, failing = [], []
    if len(fn) != 1:
        return False, [], [f"{frame.rel(p)}: expected exactly one `_at` helper, found {len(fn)}"]
    printed, listed = set(), set()
    for n in ast.walk(fn[0]):
        if isinstance(n, ast.Call) and isinstance(n.func, ast.Name) and n.func.id == "value_to_code" and n.args and isinstance(n.args[0], ast.Attribute) and n.args[0].attr in ("start", "stop", "step"):
            printed.add(n.args[0].attr)
        if isinstance(n, ast.Call) and isinstance(n.func, ast.Attribute) and n.func.attr in ("append", "extend", "insert") and ast.unparse(n.func.value) == "inputs":
            for q in ast.walk(n):
                if isinstance(q, ast.Attribute) and q.attr in ("start", "stop", "step"):
                    listed.add(q.attr)
    sites.append(f"{frame.rel(p)}:{fn[0].lineno}:_at prints slice components {sorted(printed)}, lists {sorted(listed)} as inputs")
    for a in sorted(printed - listed):
        failing.append(f"{frame.rel(p)}:{fn[0].lineno}: slice component `{a}` is printed into the generated expression but not listed among its inputs")
    if not printed:
        failing.append(f"{frame.rel(p)}: `_at` prints no slice component (anchor lost)")
    return not failing, sites, failing


def run(tier, seed):
    chk = Check("C04", tier, seed, "other")
    ok, sites, failing = frame.rule_flow_compile()
    chk.add_rule("C04.S.returned_text_is_executed_text", ok, sites, failing)
    ok, sites, failing = frame.rule_flow_api()
    chk.add_rule("C04.S.function_and_code_from_one_cached_pair", ok, sites, failing)
    ok, sites, failing = frame.rule_names()
    chk.add_rule("C04.S.names_reserved", ok, sites, failing)
    ok, sites, failing = rule_slice_operands()
    chk.add_rule("C04.S.slice_operands", ok, sites, failing)
    from .C10 import TLS
    ok, sites, failing = frame.rule_tls(TLS)
    chk.add_rule("C04.S.tls", ok, sites, failing, detail="'in-place updates are ordered after the reads they depend on' rests on the dependency stack of tracer.depend_on being per thread: a stack shared between threads "
                 "makes one trace record the input tracers of another")
    from ..kernels import c04_fuse, c04_scope, c04_api_inner, c04_call_nodes
    from ..kernels.base import run_kernel
    for k in c04_fuse.KERNELS + c04_scope.KERNELS + c04_api_inner.KERNELS + [q for q in c04_call_nodes.KERNELS if q.prop == "C04"]:
        chk.add_kernel(run_kernel(k, tier))
    chk.add_lemmas(tier)
    n = 12 if tier == "quick" else 600
    res = [x for r in harness.pmap(_work, [(seed, i) for i in range(n)]) for x in r]
    m = 16 if tier == "quick" else 800
    syn = [x for r in harness.pmap(_synth, [(seed, i) for i in range(m)]) for x in r]
    names = many_variables() + constants_in_text()
    allr = res + syn + names
    unsupported = [r for r in allr if r[0] == "unsupported"]
    fails = [r for r in allr if r[0] not in ("ok", "unsupported", "checker")]
    for r in allr:
        if r[0] == "checker":
            chk.checker_errors.append(r[2])
    seen = set()
    for ob, d, detail in fails:
        if ob in seen:
            continue
        seen.add(ob)
        what = f"einx.{d['op']}({d['description']!r}, backend={d.get('backend')!r})" if "op" in d else d.get("synthetic_graph")
        chk.violation(ob, f"{what}: {detail}" + (f"\n{d['code']}" if "code" in d else ""), replay={"kind": "case", "case": {k: v for k, v in d.items() if k != "code"}}, found_input=True)
    chk.add_bounded("captured (graph, function, text) of real compiles: text parses, is closed, its renamed-apart term equals the IR term, executes like the node-by-node interpreter incl. in-place effects, graph=True text = compiled text",
                    f"{n} chunks x 30 corpus templates x backends", len(res), len({(r[1].get('op'), r[1].get('description')) for r in res}), failures=[f for f in fails if f in res], samples=[{k: v for k, v in r[1].items() if k != 'code'} for r in res[:2]],
                    note=f"{len([u for u in unsupported if u in res])} compiles outside the term comparator's subset (counted, not judged)")
    chk.add_bounded("synthetic graphs over the IR node types (call, in-place call, getattr, getitem, item update, import, operator, assert, builtin, constant, nested graph, tuple values, values used 0/1/many times)",
                    f"{m} chunks x 60 random DAGs of <= 9 nodes", len(syn), len({r[1]['synthetic_graph'] for r in syn}), failures=[f for f in fails if f in syn], samples=[syn[0][1]] if syn else [],
                    note=f"{len([u for u in unsupported if u in syn])} outside the comparator's subset")
    chk.add_bounded("name generator stress (30 / 60 / 420 / 400x2 variable groups)", "4 calls", len(names), len(names), failures=[f for f in fails if f in names])
    chk.trusted += ["reference IR interpreter vf/spec/irinterp.py", "term comparator vf/spec/termcmp.py (renaming apart of straight-line text)"]
    chk.assumptions += ["x[(k,)] is x[k] (the emitter prints a 1-tuple key without the tuple)", "vmap-style nested definitions only synthetic", "equivalence for graphs beyond the enumeration bound is not decided",
                        "C04.P.fuse_liveness proves the guard of name sharing (all readers already emitted in the same block); that this guard implies 'no needed value is overwritten' for the emitted statement order is the paper step of Appendix A"]
    chk.explanation = "postcondition of compile(): E1 text parses, E2 closed, E3/E4/E5 by input-independent term equality between the renamed-apart text and the IR graph plus concrete execution of the returned text in an empty namespace, E6 by syntactic rule (the exec'ed local is the returned local)"
    return chk
