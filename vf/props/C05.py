"""C05 - graph optimisation preserves meaning and terminates."""
from ..report import Check
from ..kernels.base import run_kernel
from ..kernels import c05_optimizer, c05_driver, c06_graph
from .. import frame


def run(tier, seed):
    chk = Check("C05", tier, seed, "other")
    from ..kernels import c01_shapes
    for k in c05_optimizer.KERNELS + c05_driver.KERNELS + [q for q in c06_graph.KERNELS if q.prop == "C05"] + [q for q in c01_shapes.KERNELS if q.id in ("C01.P.shape_transpose", "C01.P.shape_set_shape")]:  # the shape kernels discharge the 'static shape is sound' precondition of the lemmas
        chk.add_kernel(run_kernel(k, tier))
    ok, sites, failing = frame.rule_subterm()
    chk.add_rule("C05.S.subterm", ok, sites, failing)
    ok, sites, failing = frame.rule_pure()
    chk.add_rule("C05.S.pure", ok, sites, failing)
    chk.trusted += ["numpy index-level laws of transpose/reshape/broadcast_to/concatenate (axioms of the lemmas; conformance-tested by the bounded twins against the installed numpy)",
                    "graph induction over node height (paper step, DESIGN Appendix A2)"]
    chk.assumptions += ["equal tracers (==) denote equal values", "abstracted tracer plumbing is deterministic and does not mutate modelled state (backed by rule C05.S.pure)", "no termination proof"]
    chk.explanation = ("One denotation-preservation lemma per rewrite rule, generated from the AST of the real __call__ methods and discharged by z3/cvc5 for every rank/shape; "
                       "side conditions of the graph induction by syntactic rules; bounded twins run the real optimizer on real graphs (all permutation pairs up to the stated rank).")
    return chk
