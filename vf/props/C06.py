"""C06 - a call's outcome does not depend on earlier calls (cache transparency)."""
import json
import os
import random
import subprocess
import sys
from ..report import Check, ROOT
from ..kernels.base import run_kernel
from ..kernels import c11_registry
from .. import frame, harness
from .C10 import TLS, ALLOWED_WRITERS


def _hist(h):
    env = dict(os.environ, PYTHONHASHSEED="0", PYTHONPATH=(os.environ.get("EINX_VERIF_REPO", "") + os.pathsep + ROOT).lstrip(os.pathsep))
    r = subprocess.run([sys.executable, "-m", "vf.props._c06child", json.dumps(h)], capture_output=True, text=True, env=env, cwd=ROOT, timeout=600)
    rows = [json.loads(l) for l in r.stdout.splitlines() if l.startswith("{")]
    return h, rows, (r.stderr[-400:] if len(rows) != len(h) else "")


def rule_no_process_settings():
    """C06.S.no_process_settings: einx code never changes interpreter- or library-wide settings (recursion limit, warning filters, numpy error state / print options, locale, signal
    handlers, trace functions, global RNG seeds, os.environ): such a change outlives the call that made it and alters later calls"""
    import ast
    BANNED = {"sys.setrecursionlimit", "sys.settrace", "sys.setprofile", "sys.setswitchinterval", "warnings.simplefilter", "warnings.filterwarnings", "warnings.resetwarnings",
              "np.seterr", "np.seterrcall", "np.set_printoptions", "numpy.seterr", "numpy.set_printoptions", "locale.setlocale", "signal.signal", "random.seed", "np.random.seed",
              "numpy.random.seed", "os.putenv", "os.unsetenv", "gc.disable", "gc.enable", "gc.set_threshold", "threading.setprofile", "threading.settrace", "faulthandler.enable"}
    sites, failing = [], []
    for f in frame.all_files():
        t = ast.parse(open(f).read())
        r = frame.rel(f)
        for n in ast.walk(t):
            if isinstance(n, ast.Call) and ast.unparse(n.func) in BANNED:
                site = f"{r}:{n.lineno}:{ast.unparse(n)[:60]}"
                sites.append(site)
                failing.append(site + " (changes a process-wide setting)")
            if isinstance(n, (ast.Assign, ast.AugAssign, ast.Delete)):
                tg = n.targets if not isinstance(n, ast.AugAssign) else [n.target]
                for tt in tg:
                    if isinstance(tt, ast.Subscript) and ast.unparse(tt.value) == "os.environ":
                        failing.append(f"{r}:{n.lineno}: writes os.environ")
    return not failing, sites, failing


def run(tier, seed):
    chk = Check("C06", tier, seed, "other")
    from ..kernels import c06_keys, c06_freeze, c06_to_tracer, c06_graph
    for k in c11_registry.C06_KERNELS + [c11_registry.Enter(), c11_registry.Exit()] + c06_keys.KERNELS + c06_freeze.KERNELS + c06_to_tracer.KERNELS + [q for q in c06_graph.KERNELS if q.prop == "C06"]:
        chk.add_kernel(run_kernel(k, tier))
    ok, sites, failing, inv = frame.rule_shared(ALLOWED_WRITERS)
    chk.add_rule("C06.S.shared", ok, sites, failing, detail="no call-time writes to module-level state other than the registry (under its lock), functools caches and thread-locals")
    ok, sites, failing = frame.rule_tls(TLS)
    chk.add_rule("C06.S.tls", ok, sites, failing)
    ok, sites, failing = rule_no_process_settings()
    chk.add_rule("C06.S.no_process_settings", ok, sites, failing)
    env = dict(os.environ, PYTHONPATH=(os.environ.get("EINX_VERIF_REPO", "") + os.pathsep + ROOT).lstrip(os.pathsep))
    n = int(subprocess.run([sys.executable, "-m", "vf.props._c06child", '"count"'], capture_output=True, text=True, env=env, cwd=ROOT).stdout.strip() or 0)
    if n == 0:
        chk.checker_errors.append("C06 child produced no call pool")
        return chk
    rng = random.Random(seed)
    cold = {}
    for h, rows, err in harness.pmap(_hist, [[j] for j in range(n)]):
        if err or not rows:
            chk.checker_errors.append(f"cold run of call {h} failed: {err}")
            continue
        cold[h[0]] = rows[0]["outcome"]
    hists = []
    if tier == "quick":
        others = list(range(n))
        for i in range(n):
            o = others[:]
            rng.shuffle(o)
            hists.append([i] + o)  # call i first, then every call of the pool (each must equal its cold outcome)
    else:
        for i in range(n):
            for j in range(n):
                hists.append([i, j])
        for _ in range(200):
            hists.append([rng.randrange(n) for _ in range(rng.randint(3, 8))])
    total, fails = 0, []
    for h, rows, err in harness.pmap(_hist, hists):
        if err:
            chk.checker_errors.append(f"history {h[:4]}... failed: {err[-200:]}")
            continue
        for pos, row in enumerate(rows):
            total += 1
            j = row["call"]
            if j in cold and row["outcome"] != cold[j]:
                if "timeout" in (row["outcome"][0], cold[j][0]):
                    continue
                fails.append({"history": h[: pos + 1], "call": j, "warm": row["outcome"], "cold": cold[j], "replay": {"fn": "vf.props.C06:replay", "args": [h[: pos + 1]]}})
    seen = set()
    for f in fails:
        if f["call"] in seen:
            continue
        seen.add(f["call"])
        chk.violation("C06.B.warm_equals_cold", f"pool call #{f['call']} (see vf/props/_c06child.py) gives {f['warm']} after the history {f['history'][:-1]} but {f['cold']} in a fresh interpreter", replay={"kind": "case", "case": f}, found_input=True)
    chk.add_bounded("outcome (values, alpha-normalised graph text or exception class) of every pool call after a history vs. in a fresh interpreter", f"{n} pool calls; {len(hists)} histories ({'one per first call, followed by the whole pool in random order' if tier == 'quick' else 'all ordered pairs + 200 random histories of length 3-8'})",
                    total, n * n if tier != "quick" else total, failures=fails, exhaustive=(tier != "quick"), samples=[{"history": hists[0][:5], "cold_outcome_of_call_0": cold.get(0)}])
    chk.trusted += ["functools.cache stores only returned values (exceptions are not cached)"]
    chk.assumptions += ["histories beyond the sampled ones only through the paper induction of Appendix A3 over: key adequacy (tensor / typed-scalar key equalities proved; _freeze_value's recursion bounded only), balanced context stacks (proved), no other shared state (rule)"]
    chk.explanation = "context restoration (DependOn.__exit__, _enter/_exit) proved from the real AST; no-other-shared-state by rule; key adequacy / cache invariant evaluated as warm-vs-cold outcome equality on enumerated histories (bounded)"
    return chk


def replay(h):
    _, rows, err = _hist(h)
    _, c, _ = _hist([h[-1]])
    if rows and c and rows[-1]["outcome"] != c[0]["outcome"]:
        return f"pool call #{h[-1]} gives {rows[-1]['outcome']} after history {h[:-1]} but {c[0]['outcome']} cold"
    return None
