"""C07 - documented shorthand forms mean exactly their documented expansions (relational postcondition short == long)."""
import itertools
import numpy as np
from ..report import Check
from .. import frame, harness, corpus

A = lambda *s: np.arange(int(np.prod(s)), dtype=float).reshape(s) if s else np.array(3.0)  # noqa

# (kind, op, short description, long description, shapes, kwargs_short, kwargs_long)
PAIRS = [
    # 1 omitted output = the per-operation default output
    ("omitted output", "softmax", "a b [c]", "a b [c] -> a b [c]", [(2, 3, 4)], {}, {}),
    ("omitted output", "sum", "a b [c]", "a b [c] -> a b", [(2, 3, 4)], {}, {}),
    ("omitted output", "sum", "a [b] (c [d])", "a [b] (c [d]) -> a (c)", [(2, 3, 8)], {"d": 2}, {"d": 2}),
    ("omitted output", "argmax", "b [h w] c", "b [h w] c -> b [2] c", [(2, 3, 3, 2)], {}, {}),
    ("omitted output", "argmin", "a [b]", "a [b] -> a [1]", [(3, 4)], {}, {}),
    ("omitted output", "add", "a b c, b c", "a b c, b c -> a b c", [(2, 3, 4), (3, 4)], {}, {}),
    ("omitted output", "multiply", "c b, a b c, a", "c b, a b c, a -> a b c", [(4, 3), (2, 3, 4), (2,)], {}, {}),
    ("omitted output", "flip", "a [b] c", "a [b] c -> a [b] c", [(2, 3, 2)], {}, {}),
    ("omitted output", "sort", "[a] b", "[a] b -> [a] b", [(4, 2)], {}, {}),
    ("omitted output", "set_at", "a [b], a p [1], a p", "a [b], a p [1], a p -> a [b]", [(2, 4), "idx:2,3,1:4", (2, 3)], {}, {}),
    ("omitted output", "add_at", "[b] c, p, p c", "[b] c, p, p c -> [b] c", [(4, 2), "idx:3:4", (3, 2)], {}, {}),
    ("omitted output", "softmax", "b [s...] c", "b [s...] c -> b [s...] c", [(2, 3, 2, 4)], {}, {}),
    ("omitted output", "flip", "b [...] c", "b [...] c -> b [...] c", [(2, 3, 4)], {}, {}),
    ("omitted output", "sort", "[s...] c", "[s...] c -> [s...] c", [(3, 2)], {}, {}),
    ("omitted output", "roll", "a [s...]", "a [s...] -> a [s...]", [(2, 3)], {"shift": 1}, {"shift": 1}),
    ("omitted output", "add", "... c, ... c", "... c, ... c -> ... c", [(2, 3), (2, 3)], {}, {}),
    ("omitted output", "multiply", "s... c, s... c, c", "s... c, s... c, c -> s... c", [(2, 2, 3), (2, 2, 3), (3,)], {}, {}),
    ("omitted output", "sum", "b [s...] c", "b [s...] c -> b c", [(2, 3, 2, 4)], {}, {}),
    # 2 un-bracketed reduction / dot = brackets around axes missing from the output
    ("un-bracketed reduction", "sum", "a b c -> a c", "a [b] c -> a c", [(2, 3, 4)], {}, {}),
    ("un-bracketed reduction", "max", "a b c -> c", "[a b] c -> c", [(2, 3, 4)], {}, {}),
    ("un-bracketed reduction", "mean", "(a b) c -> a", "(a [b]) [c] -> a", [(6, 4)], {"a": 2}, {"a": 2}),
    ("un-bracketed reduction", "sum", "b ... c -> b ...", "b ... [c] -> b ...", [(2, 3, 2, 4)], {}, {}),
    ("un-bracketed reduction", "max", "b ... c -> b ...", "b s... [c] -> b s...", [(2, 3, 4)], {}, {}),
    ("un-bracketed reduction", "sum", "b s... c -> s...", "[b] s... [c] -> s...", [(2, 3, 2, 4)], {}, {}),
    ("un-bracketed reduction", "dot", "a b, b c -> a c", "a [b], [b] c -> a c", [(2, 3), (3, 4)], {}, {}),
    ("un-bracketed reduction", "dot", "b ... c, c d -> b ... d", "b ... [c], [c] d -> b ... d", [(2, 3, 2, 4), (4, 2)], {}, {}),
    ("un-bracketed reduction", "dot", "a b c, c b -> a", "a [b c], [c b] -> a", [(2, 3, 4), (4, 3)], {}, {}),
    # 3 a number = a fresh axis of that length
    ("number", "id", "a b -> a b 3", "a b -> a b c", [(2, 3)], {}, {"c": 3}),
    ("number", "id", "a b -> a 3 b 3", "a b -> a c b d", [(2, 3)], {}, {"c": 3, "d": 3}),
    ("number", "id", "a 1 c -> a c", "a z c -> a c", [(2, 1, 3)], {}, {"z": 1}),
    ("number", "add", "a, b -> a b 2", "a, b -> a b z", [(3,), (2,)], {}, {"z": 2}),
    ("number", "sum", "a [3] -> a", "a [z] -> a", [(2, 3)], {}, {}),
    ("number", "id", "a -> (a 2)", "a -> (a z)", [(3,)], {}, {"z": 2}),
    # 4 anonymous '...' = one shared named ellipsis
    ("anonymous ellipsis", "add", "..., ... -> ...", "s..., s... -> s...", [(2, 3), (2, 3)], {}, {}),
    ("anonymous ellipsis", "id", "a ... -> ... a", "a s... -> s... a", [(2, 3, 4)], {}, {}),
    ("anonymous ellipsis", "sum", "... [c]", "s... [c]", [(2, 3, 4)], {}, {}),
    ("anonymous ellipsis", "id", "a ... b -> (...) b a", "a s... b -> (s...) b a", [(2, 3, 2, 2)], {}, {}),
    # 5 an ellipsis = its written-out repetition
    ("ellipsis expansion", "id", "a s... -> s... a", "a s0 s1 -> s0 s1 a", [(2, 3, 4)], {}, {}),
    ("ellipsis expansion", "id", "a s... -> s... a", "a -> a", [(2,)], {}, {}),
    ("ellipsis expansion", "id", "(a b)... -> a... b...", "(a1 b1) (a2 b2) -> a1 a2 b1 b2", [(4, 6)], {"b": (2, 3)}, {"b1": 2, "b2": 3}),
    ("ellipsis expansion", "id", "a -> a b...", "a -> a b1", [(3,)], {"b": (5,)}, {"b1": 5}),
    ("ellipsis expansion", "id", "a -> a b...", "a -> a b1 b2", [(3,)], {"b": (5, 6)}, {"b1": 5, "b2": 6}),
    ("ellipsis expansion", "id", "a -> b... a", "a -> b1 a", [(3,)], {"b": [4]}, {"b1": 4}),
    ("ellipsis expansion", "sum", "a [s...] -> a", "a [s0 s1] -> a", [(2, 3, 4)], {}, {}),
    ("ellipsis expansion", "id", "(a b)... -> a... b...", "(a1 b1) -> a1 b1", [(6,)], {"b": (2,)}, {"b1": 2}),
    # 6 a scalar size for an ellipsis axis = the repeated tuple
    ("scalar size", "id", "(a b)... -> a... b...", "(a b)... -> a... b...", [(4, 6)], {"b": 2}, {"b": (2, 2)}),
    ("scalar size", "id", "(s ds)... c -> (s...) ds... c", "(s ds)... c -> (s...) ds... c", [(4, 6, 2)], {"ds": 2}, {"ds": (2, 2)}),
    ("scalar size", "id", "a -> a b...", "a -> a b...", [(3,)], {"b": (5,)}, {"b": [5]}),
    # (sizes that coincide numerically with other sizes / tensor dimensions of the same call: equal numbers must not identify different size sources)
    ("scalar size", "id", "(s ds)... g -> (s...) ds... g", "(s ds)... g -> (s...) ds... g", [(4, 6, 2)], {"ds": 2, "g": 2}, {"ds": (2, 2), "g": 2}),
    ("scalar size", "id", "(a b)... c -> a... b... c", "(a b)... c -> a... b... c", [(4, 6, 2)], {"a": 2, "c": 2}, {"a": (2, 2), "c": 2}),
    ("scalar size", "add", "a..., b -> a... b", "a..., b -> a... b", [(2, 2), (2,)], {"a": 2}, {"a": (2, 2)}),
    ("scalar size", "id", "(a b)... -> a... b...", "(a b)... -> a... b...", [(4, 4)], {"a": 2, "b": 2}, {"a": (2, 2), "b": (2, 2)}),
    # 7 nested '->' and ',' = their top-level distribution
    ("nested operators", "id", "a (b c -> c b)", "a (b c) -> a (c b)", [(2, 6)], {"b": 2}, {"b": 2}),
    ("nested operators", "id", "(a, b) c -> (a + b) c", "(a) c, (b) c -> (a + b) c", [(2, 3), (4, 3)], {}, {}),
    ("nested operators", "id", "a (b, c) -> a (b + c)", "a (b), a (c) -> a (b + c)", [(2, 3), (2, 4)], {}, {}),
    ("nested operators", "softmax", "[a -> a] b", "[a] b -> [a] b", [(3, 2)], {}, {}),
    # 8 adjacent brackets = one bracket
    ("adjacent brackets", "sum", "[a] [b] c", "[a b] c", [(2, 3, 4)], {}, {}),
    ("adjacent brackets", "softmax", "a [b] [c]", "a [b c]", [(2, 3, 4)], {}, {}),
    ("adjacent brackets", "argmax", "[a] [b] c -> [2] c", "[a b] c -> [2] c", [(2, 3, 4)], {}, {}),
    ("adjacent brackets", "get_at", "[a] [b] c, p [2] -> p c", "[a b] c, p [2] -> p c", [(2, 3, 4), "idx:3,2:2"], {}, {}),
    # 9 keepdims=True = wrapping each bracket in parentheses
    ("keepdims", "sum", "a [b] c", "a ([b]) c", [(2, 3, 4)], {"keepdims": True}, {}),
    ("keepdims", "max", "[a] b [c]", "([a]) b ([c])", [(2, 3, 4)], {"keepdims": True}, {}),
    ("keepdims", "mean", "a [b c]", "a [b c] -> a 1", [(2, 3, 4)], {"keepdims": True}, {}),
    ("keepdims", "sum", "a [b] [c]", "a ([b]) ([c])", [(2, 3, 4)], {"keepdims": True}, {}),
    ("keepdims", "mean", "a [b] c", "a ([b]) c", [(2, 3, 4)], {"keepdims": True}, {}),
    ("keepdims", "var", "a [b] c", "a ([b]) c", [(2, 3, 4)], {"keepdims": True}, {}),
    ("keepdims", "std", "a [b] c", "a ([b]) c", [(2, 3, 4)], {"keepdims": True}, {}),
    ("keepdims", "prod", "a [b] c", "a ([b]) c", [(2, 3, 4)], {"keepdims": True}, {}),
    ("keepdims", "count_nonzero", "a [b] c", "a ([b]) c", [(2, 3, 4)], {"keepdims": True}, {}),
    ("keepdims", "any", "a [b] c", "a ([b]) c", [(2, 3, 4)], {"keepdims": True}, {}),
    ("keepdims", "all", "a [b] c", "a ([b]) c", [(2, 3, 4)], {"keepdims": True}, {}),
    ("keepdims", "min", "a [b] c", "a ([b]) c", [(2, 3, 4)], {"keepdims": True}, {}),
    ("keepdims", "logsumexp", "a [b] c", "a ([b]) c", [(2, 3, 4)], {"keepdims": True}, {}),
    # 10 a length-1 coordinate bracket in get_at / argmax = no bracket
    ("unit coordinate bracket", "get_at", "[a] b, c [1] -> b c", "[a] b, c -> b c", [(3, 2), "idx:4,1:3"], {}, {"__squeeze_in__": 1}),
    ("unit coordinate bracket", "get_at", "a [b], a p [1] -> a p", "a [b], a p -> a p", [(2, 4), "idx:2,3,1:4"], {}, {"__squeeze_in__": 1}),
    ("unit coordinate bracket", "argmax", "a [b] -> a [1]", "a [b] -> a", [(3, 4)], {}, {"__unsqueeze_out__": True}),
    ("unit coordinate bracket", "set_at", "[b] c, p [1], p c -> [b] c", "[b] c, p, p c -> [b] c", [(4, 2), "idx:3,1:4", (3, 2)], {}, {"__squeeze_in__": 1}),
    # 11 additional spaces = single spaces
    ("spaces", "id", "a   b  ->  b   a", "a b -> b a", [(2, 3)], {}, {}),
    ("spaces", "sum", " a [ b ] c ", "a [b] c", [(2, 3, 4)], {}, {}),
    ("spaces", "dot", "a [b] , [b] c->a c", "a [b], [b] c -> a c", [(2, 3), (3, 4)], {}, {}),
    ("spaces", "id", "( a + b ) c -> a c , b c", "(a + b) c -> a c, b c", [(5, 2)], {"a": 2}, {"a": 2}),
    # 12 einx.rearrange = einx.id
    ("rearrange", "rearrange", "a (b c) -> c b a", "a (b c) -> c b a", [(2, 6)], {"b": 2}, {"b": 2}),
    ("rearrange", "rearrange", "a b, c -> ((a b) + c)", "a b, c -> ((a b) + c)", [(2, 3), (4,)], {}, {}),
    ("rearrange", "rearrange", "a (b c) -> c b a", "a (b c) -> c b a", [(2, 6)], {"b": 2, "graph": True}, {"b": 2, "graph": True}),
    ("rearrange", "rearrange", "a b -> b a", "a b -> b a", [(2, 3)], {"graph": True}, {"graph": True}),
]


def mk(spec, k):
    if isinstance(spec, str):  # "idx:<shape>:<bound>"
        _, sh, bound = spec.split(":")
        shape = tuple(int(x) for x in sh.split(","))
        rs = np.random.RandomState(k + len(sh))
        return rs.randint(0, int(bound), size=shape)
    rs = np.random.RandomState(k + sum(spec) if spec else k)
    return rs.permutation(int(np.prod(spec)) if spec else 1).astype(float).reshape(spec) if spec else np.array(2.0)


def same(a, b):
    if a[0] != b[0]:
        return False
    if a[0] == "ok":
        x, y = a[1], b[1]
        if isinstance(x, str) or isinstance(y, str):   # graph=True: the generated texts must be identical
            return isinstance(x, str) and isinstance(y, str) and x == y
        if isinstance(x, (list, tuple)) != isinstance(y, (list, tuple)):
            return False
        xs, ys = (x, y) if isinstance(x, (list, tuple)) else ([x], [y])
        return len(xs) == len(ys) and all(np.asarray(p).shape == np.asarray(q).shape and np.allclose(np.asarray(p, dtype=float), np.asarray(q, dtype=float), rtol=1e-9, atol=1e-12) for p, q in zip(xs, ys))
    if a[0] == "exc":
        return a[1] == b[1]
    return True


def long_call(f, desc, ts, be, kwl):
    """the long form of a unit-coordinate-bracket pair takes the coordinate tensor without its trailing length-1 axis / returns the result without it"""
    kw = {k: v for k, v in kwl.items() if not k.startswith("__")}
    ts = [t.copy() for t in ts]
    if "__squeeze_in__" in kwl:
        i = kwl["__squeeze_in__"]
        ts[i] = ts[i][..., 0]
    o = harness.outcome(lambda: f(desc, *ts, backend=be, **kw))
    if o[0] == "ok" and kwl.get("__unsqueeze_out__"):
        o = ("ok", np.asarray(o[1])[..., None])
    return o


def run_pairs():
    import einx
    out = []
    for i, (kind, op, short, long_, shapes, kws, kwl) in enumerate(PAIRS):
        for k in range(2):
            ts = [mk(s, k) for s in shapes]
            for be in ("numpy", "numpy.numpylike", "numpy.einsum"):
                f_short = getattr(einx, op)
                f_long = getattr(einx, "id" if op == "rearrange" else op)
                a = harness.outcome(lambda: f_short(short, *[t.copy() for t in ts], backend=be, **kws))
                b = long_call(f_long, long_, ts, be, kwl)
                if a[0] == "exc" and a[1].endswith("OperationNotSupportedError") and b[0] == "exc" and b[1].endswith("OperationNotSupportedError"):
                    continue
                d = {"kind": kind, "op": op, "short": short, "long": long_, "shapes": [list(np.shape(t)) for t in ts], "kwargs_short": {a_: str(b_) for a_, b_ in kws.items()}, "kwargs_long": {a_: str(b_) for a_, b_ in kwl.items()}, "backend": be,
                     "replay": {"fn": "vf.props.C07:replay", "args": [i, k, be]}}
                if not same(a, b):
                    out.append(("mismatch", d, f"short form gives {a[0]} {a[1] if a[0] == 'exc' else np.asarray(a[1]).ravel()[:4].tolist() if not isinstance(a[1], (list, tuple)) else '...'}; long form gives {b[0]} {b[1] if b[0] == 'exc' else np.asarray(b[1]).ravel()[:4].tolist() if not isinstance(b[1], (list, tuple)) else '...'}"))
                elif a[0] == "exc" and k == 0 and be == "numpy" and kind not in ():
                    out.append(("both-fail", d, f"both forms raise {a[1]}: {a[2][:80]}"))
                else:
                    out.append(("ok", d, None))
    return out


def replay(i, k, be):
    import einx
    kind, op, short, long_, shapes, kws, kwl = PAIRS[i]
    ts = [mk(s, k) for s in shapes]
    a = harness.outcome(lambda: getattr(einx, op)(short, *[t.copy() for t in ts], backend=be, **kws))
    b = long_call(getattr(einx, "id" if op == "rearrange" else op), long_, ts, be, kwl)
    return None if same(a, b) else f"[{kind}] einx.{op}({short!r}, {kws}) -> {a[:2] if a[0] == 'exc' else 'value'}  vs  ({long_!r}, {kwl}) -> {b[:2] if b[0] == 'exc' else 'value'}"


def _corpus_pairs(args):
    """corpus-driven pairs: implicit vs explicit output of reductions; extra spaces; un-bracketed reductions"""
    seed, idx = args
    g = corpus.Gen(seed * 100003 + idx)
    out = []
    for c in corpus.corpus(seed * 100003 + idx, 30):
        variants = []
        if " " in c.desc:
            variants.append(("spaces", c.desc.replace(" ", "  ").replace(",", " , ").replace("->", "  ->  ")))
        if "(" in c.desc:
            variants.append(("spaces", c.desc.replace("(", "( ").replace(")", " )")))
        if c.fam == "reduce" and "->" in c.desc and "[" in c.desc and "keepdims" not in c.kwargs:
            variants.append(("un-bracketed reduction", c.desc.replace("[", "").replace("]", "")))
        for kind, alt in variants:
            for be in c.backends[:2]:
                a = harness.call_einx(c.op, c.desc, [t.copy() for t in c.tensors], c.kwargs, be)
                b = harness.call_einx(c.op, alt, [t.copy() for t in c.tensors], c.kwargs, be)
                d = {"kind": kind, "op": c.op, "short": alt, "long": c.desc, "shapes": [list(t.shape) for t in c.tensors], "kwargs_short": {k: str(v) for k, v in c.kwargs.items()}, "backend": be}
                out.append(("ok" if same(a, b) else "mismatch", d, None if same(a, b) else f"{a[:2] if a[0] != 'ok' else 'value'} vs {b[:2] if b[0] != 'ok' else 'value'}"))
    return out


LITERAL_GROUPS = [("argmax", "a ([2 3])", {}, "a ([b c])", {"b": 2, "c": 3}, [(2, 6)]), ("argmax", "a [2 3]", {}, "a [b c]", {"b": 2, "c": 3}, [(2, 2, 3)]),
                  ("id", "a (2 3) -> a (2 3)", {}, "a (b c) -> a (d e)", {"b": 2, "c": 3, "d": 2, "e": 3}, [(2, 6)]), ("dot", "a [(2 3)], a [(2 3)] -> a", {}, "a [(b c)], a [(d e)] -> a", {"b": 2, "c": 3, "d": 2, "e": 3}, [(2, 6), (2, 6)])]


def literal_group_cases(chk):
    """'a number = a fresh axis of that length' for GROUPS of numbers that occur twice: common-subexpression elimination identifies sub-expressions by their printed text and a literal axis
    prints as its value, so '(2 3)' on both sides, or '[2 3]' under one bracket, is treated as ONE shared axis - finding F-cse-literal-groups"""
    import einx
    out = []
    for op, short, kws, long_, kwl, shapes in LITERAL_GROUPS:
        ts = [np.arange(int(np.prod(s)), dtype=float).reshape(s) for s in shapes]
        a = harness.outcome(lambda: getattr(einx, op)(short, *[t.copy() for t in ts], **kws))
        b = harness.outcome(lambda: getattr(einx, op)(long_, *[t.copy() for t in ts], **kwl))
        d = {"kind": "number", "op": op, "short": short, "long": long_, "shapes": [list(s) for s in shapes], "kwargs_short": kws, "kwargs_long": {k: str(v) for k, v in kwl.items()}, "backend": "numpy"}
        if same(a, b):
            out.append(("ok", d, None))
            continue
        # the recorded deviation: the short form treats the repeated / bracketed literal group as one axis (works where the long form is rejected, or indexes one axis instead of two)
        if a[0] == "ok" and (b[0] == "exc" or np.asarray(a[1]).shape != np.asarray(b[1]).shape):
            chk.known_finding("F-cse-literal-groups", "groups of literal numbers that occur twice ('(2 3)' in input and output, '[2 3]' in one bracket) are identified by their printed text and treated as ONE axis: "
                              "argmax('a ([2 3])') has shape (2, 1) where 'a ([b c])' has (2, 2); id('a (2 3) -> a (2 3)') works where fresh names are rejected")
            out.append(("ok", d, None))
        else:
            out.append(("mismatch", d, f"short form gives {a[:2]}, long form gives {b[:2]}"))
    return out


def run(tier, seed):
    chk = Check("C07", tier, seed, "other")
    ok, sites, failing = frame.rule_descflow()
    chk.add_rule("C07.S.desc_flow", ok, sites, failing)
    from ..kernels import c07_implicit
    from ..kernels.base import run_kernel
    for k in c07_implicit.KERNELS:
        chk.add_kernel(run_kernel(k, tier))
    res = run_pairs() + literal_group_cases(chk)
    n = 6 if tier == "quick" else 300
    res += [x for r in harness.pmap(_corpus_pairs, [(seed, i) for i in range(n)]) for x in r]
    fails = [r for r in res if r[0] == "mismatch"]
    both = [r for r in res if r[0] == "both-fail"]
    seen = set()
    for st, d, detail in fails:
        k = (d["kind"], d["short"])
        if k in seen:
            continue
        seen.add(k)
        chk.violation(f"C07.B.{d['kind'].replace(' ', '_')}", f"einx.{d['op']}: short form {d['short']!r} {d.get('kwargs_short')} vs long form {d['long']!r} {d.get('kwargs_long', '')} on shapes {d['shapes']} (backend {d['backend']}): {detail}",
                      replay={"kind": "case", "case": d}, found_input=True)
    for st, d, detail in both:
        chk.checker_errors.append(f"pair table entry does not exercise its shorthand (both forms fail): {d['short']!r} / {d['long']!r}: {detail}")
    chk.add_bounded("documented (short form, long form) pairs on identical data, 12 kinds of shorthand, 3 backends, 2 data sets; plus corpus-driven spacing / un-bracketed variants", f"{len(PAIRS)} hand-written pairs + {n} corpus chunks x 30",
                    len(res), len({(r[1]['short'], r[1]['long']) for r in res}), failures=fails, samples=[r[1] for r in res[:2]])
    chk.assumptions += ["bounded: the equivalences are evaluated on the listed pairs and corpus variants only", "Appendix A5: the description string flows only into _parse_op and Invocation (rule), so equal parse results give equal behaviour for all data"]
    chk.explanation = "implicit output of element-wise operations proved from the real _parse_op region (2 and 3 inputs); relational postcondition OP(short, X) == OP(long, X) for the twelve documented shorthand kinds evaluated on a bounded set of pairs"
    return chk
