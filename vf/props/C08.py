"""C08 - results depend on axis names/positions only as the notation says (equivariance relations between public calls)."""
import random
import re
import numpy as np
from ..report import Check
from ..kernels.base import run_kernel
from .. import corpus, harness
from .C07 import same

RENAME = {"a": "zz", "b": "cse", "c": "unnamed", "d": "output", "e": "a_1", "p": "x9", "q": "B", "r": "cse_1", "s": "Zeta", "z": "aa", "n": "m"}
OPTION_KEYS = {"shift", "keepdims"}


def split_top(expr, sep=" "):
    """split an expression at top-level separators"""
    out, depth, cur = [], 0, ""
    i = 0
    while i < len(expr):
        ch = expr[i]
        if ch in "([":
            depth += 1
        elif ch in ")]":
            depth -= 1
        if depth == 0 and expr.startswith(sep, i):
            out.append(cur)
            cur = ""
            i += len(sep)
            continue
        cur += ch
        i += 1
    out.append(cur)
    return [o for o in (x.strip() for x in out)]


def parse_desc(desc):
    if "->" in desc:
        lhs, rhs = desc.split("->")
        outs = [o.strip() for o in split_top(rhs.strip(), ",")]
    else:
        lhs, outs = desc, None
    ins = [i.strip() for i in split_top(lhs.strip(), ",")]
    return ins, outs


def join_desc(ins, outs):
    return ", ".join(ins) + ((" -> " + ", ".join(outs)) if outs is not None else "")


def items(expr):
    return [x for x in split_top(expr, " ") if x != ""]


def plain(it):
    return re.fullmatch(r"[A-Za-z_][A-Za-z0-9_]*", it) is not None


def rename(desc, kwargs):
    d2 = re.sub(r"[A-Za-z_][A-Za-z0-9_]*", lambda m: RENAME.get(m.group(0), m.group(0)), desc)
    kw2 = {(RENAME.get(k, k) if k not in OPTION_KEYS else k): v for k, v in kwargs.items()}
    return d2, kw2


def relations(c, rng):
    """yield (relation name, call2 (op, desc, tensors, kwargs), transform applied to result of call 1 to obtain the expected result of call 2)"""
    ins, outs = parse_desc(c.desc)
    if len(ins) != len(c.tensors):
        return
    # R1 consistent renaming
    d2, kw2 = rename(c.desc, c.kwargs)
    yield "renaming", (c.op, d2, c.tensors, kw2), lambda r: r
    if "..." in c.desc or "+" in c.desc:
        return  # with concatenations, decomposed inputs pair with decomposed outputs in order: permuting '+' axes is a different call
    # R2 permute the un-bracketed top-level axes of one input together with the tensor
    for ti, e in enumerate(ins):
        its = items(e)
        if len(its) != c.tensors[ti].ndim or len(its) < 2:
            continue
        free = [k for k, it in enumerate(its) if not it.startswith("[") and "[" not in it]
        if len(free) < 2:
            continue
        sh = free[:]
        rng.shuffle(sh)
        if sh == free:
            sh = free[1:] + free[:1]
        perm = list(range(len(its)))
        for dst, src in zip(free, sh):
            perm[dst] = src
        ins2 = list(ins)
        ins2[ti] = " ".join(its[p] for p in perm)
        ts2 = list(c.tensors)
        ts2[ti] = np.ascontiguousarray(np.transpose(c.tensors[ti], perm))
        if outs is None and c.fam in ("preserve_shape", "elementwise", "reduce", "update_at"):
            # an implicit output follows the input expression: only applicable when the permuted input does not determine the output
            continue
        yield "input permutation", (c.op, join_desc(ins2, outs), ts2, c.kwargs), lambda r: r
        break
    # R3 permute the un-bracketed axes of a single output
    if outs is not None and len(outs) == 1:
        its = items(outs[0])
        free = [k for k, it in enumerate(its) if "[" not in it]
        if len(free) >= 2:
            sh = free[1:] + free[:1]
            perm = list(range(len(its)))
            for dst, src in zip(free, sh):
                perm[dst] = src
            outs2 = [" ".join(its[p] for p in perm)]
            yield "output permutation", (c.op, join_desc(ins, outs2), c.tensors, c.kwargs), (lambda r, perm=perm, n=len(its): np.transpose(np.asarray(r), perm) if np.asarray(r).ndim == n else None)
    # R4 group two adjacent plain axes of an input with parentheses, reshaping the tensor
    for ti, e in enumerate(ins):
        its = items(e)
        if len(its) != c.tensors[ti].ndim:
            continue
        cand = [k for k in range(len(its) - 1) if plain(its[k]) and plain(its[k + 1]) and its[k] != its[k + 1]]
        if not cand:
            continue
        k = rng.choice(cand)
        t = c.tensors[ti]
        ins2 = list(ins)
        ins2[ti] = " ".join(its[:k] + [f"({its[k]} {its[k + 1]})"] + its[k + 2:])
        ts2 = list(c.tensors)
        ts2[ti] = t.reshape(t.shape[:k] + (t.shape[k] * t.shape[k + 1],) + t.shape[k + 2:])
        kw2 = dict(c.kwargs)
        kw2.setdefault(its[k + 1], int(t.shape[k + 1]))
        if outs is None:
            continue
        yield "regrouping", (c.op, join_desc(ins2, outs), ts2, kw2), lambda r: r
        break


def _work(args):
    seed, idx = args
    rng = random.Random(seed * 4241 + idx)
    out = []
    cases = corpus.corpus(seed * 100003 + idx, 30) + corpus.corpus(seed * 100003 + idx + 7777, 8, fams=["dot"])
    for c in cases:
      for be in (c.backends if c.op == "dot" else [c.backends[rng.randrange(len(c.backends))]]):
          base = harness.call_einx(c.op, c.desc, [t.copy() for t in c.tensors], c.kwargs, be)
          if base[0] != "ok":
              continue
          for name, (op, d2, ts2, kw2), tf in relations(c, rng):
              o = harness.call_einx(op, d2, [np.array(t, copy=True) for t in ts2], kw2, be)
              dd = {"relation": name, "op": c.op, "description": c.desc, "related_description": d2, "shapes": [list(t.shape) for t in c.tensors], "kwargs": {k: str(v) for k, v in c.kwargs.items()}, "backend": be,
                    "replay": {"fn": "vf.props.C08:replay", "args": [seed, idx, c.desc, name, be]}}
              if o[0] == "exc" and o[1].endswith("OperationNotSupportedError"):
                  continue
              if isinstance(base[1], (list, tuple)):
                  exp = base[1] if name in ("renaming", "input permutation", "regrouping") else None
              else:
                  exp = tf(base[1])
              if exp is None:
                  continue
              okk = same(("ok", exp), o)
              if not okk and c.op == "set_at" and o[0] == "ok":
                  okk = c.compare(o[1]) is None and name == "renaming"  # duplicates: any competitor is acceptable
              out.append(("ok" if okk else "mismatch", dd, None if okk else (f"related call raises {o[1]}: {o[2][:80]}" if o[0] == "exc" else "related call returns different values")))
          # R5 inversion / composition of pure rearrangements
          if c.op == "id" and len(c.tensors) == 1 and "+" not in c.desc and "..." not in c.desc and not re.search(r"\b\d+\b", c.desc):
              ins, outs = parse_desc(c.desc)
              names_in = re.findall(r"[a-z]", ins[0])
              names_out = re.findall(r"[a-z]", outs[0]) if outs and len(outs) == 1 else None
              if names_out is not None and sorted(names_in) == sorted(names_out) and len(set(names_in)) == len(names_in):
                  sizes = {}
                  # axis sizes from kwargs and the un-grouped dims
                  its = items(ins[0])
                  kw = {k: v for k, v in c.kwargs.items()}
                  inv = harness.call_einx("id", f"{outs[0]} -> {ins[0]}", [np.asarray(base[1])], kw, be)
                  dd = {"relation": "inversion", "op": "id", "description": c.desc, "related_description": f"{outs[0]} -> {ins[0]}", "shapes": [list(c.tensors[0].shape)], "kwargs": {k: str(v) for k, v in kw.items()}, "backend": be}
                  if inv[0] == "ok":
                      okk = np.array_equal(np.asarray(inv[1]), c.tensors[0])
                      out.append(("ok" if okk else "mismatch", dd, None if okk else "id(B->A)(id(A->B)(x)) != x"))
                  elif not inv[1].startswith("einx.errors.AxisSizeError"):
                      out.append(("mismatch", dd, f"inverse rearrangement raises {inv[1]}"))
                  oit = items(outs[0])
                  if len(oit) >= 2:
                      third = " ".join(oit[1:] + oit[:1])
                      comp1 = harness.call_einx("id", f"{outs[0]} -> {third}", [np.asarray(base[1])], kw, be)
                      comp2 = harness.call_einx("id", f"{ins[0]} -> {third}", [c.tensors[0].copy()], kw, be)
                      dd = dict(dd, relation="composition", related_description=f"{ins[0]} -> {outs[0]} -> {third}")
                      if comp1[0] == "ok" and comp2[0] == "ok":
                          okk = np.array_equal(np.asarray(comp1[1]), np.asarray(comp2[1]))
                          out.append(("ok" if okk else "mismatch", dd, None if okk else "id(B->C)(id(A->B)(x)) != id(A->C)(x)"))
    return out


def replay(seed, idx, desc, name, be):
    for st, d, detail in _work((seed, idx)):
        if st != "ok" and d["description"] == desc and d["relation"] == name:
            return f"[{name}] einx.{d['op']}({desc!r}) vs ({d['related_description']!r}) on backend {d['backend']}: {detail}"
    return None


def concat_rearrangements():
    """'for every pure rearrangement, swapping the input and output expressions inverts it' - with concatenations (the corpus relations skip descriptions containing '+')"""
    import einx
    out = []
    rng = np.random.default_rng(3)
    cases = [("(a + b) (c + d) -> a c, a d, b c, b d", [(5, 7)], dict(a=2, c=3)), ("(a + b) c -> a c, b c", [(5, 3)], dict(a=2)), ("x (a + b) (c + d) -> x a c, x a d, x b c, x b d", [(2, 4, 6)], dict(a=1, c=2)),
             ("(a + b + e) (c + d) -> a c, a d, b c, b d, e c, e d", [(6, 4)], dict(a=1, b=2, c=1)), ("(a + b) (c + d) (e + f) -> a c e, a c f, a d e, a d f, b c e, b c f, b d e, b d f", [(3, 4, 5)], dict(a=1, c=1, e=2)),
             ("(a + a) (b + b) -> a b, a b, a b, a b", [(4, 6)], {}), ("(a + b) (c + d) -> c a, d a, c b, d b", [(5, 7)], dict(a=2, c=3))]
    for desc, shapes, kw in cases:
        x = rng.integers(0, 1000, size=shapes[0]).astype(float)
        lhs, rhs = desc.split(" -> ")
        inv = f"{rhs} -> {lhs}"
        d = {"op": "id", "description": desc, "shapes": [list(s) for s in shapes], "kwargs": kw, "relation": "inversion with concatenation", "related_description": inv, "backend": "numpy"}
        for be in ("numpy", "numpy.numpylike"):
            o = harness.outcome(lambda: einx.id(desc, x, backend=be, **kw), 30)
            if o[0] != "ok":
                out.append(("error", dict(d, backend=be), f"split fails: {o[1:]}"))
                continue
            parts = list(o[1]) if isinstance(o[1], (tuple, list)) else [o[1]]
            o2 = harness.outcome(lambda: einx.id(inv, *parts, backend=be), 30)
            if o2[0] != "ok":
                out.append(("error", dict(d, backend=be), f"recomposition fails: {o2[1:]}"[:300]))
            elif np.asarray(o2[1]).shape != x.shape or not np.array_equal(np.asarray(o2[1]), x):
                out.append(("mismatch", dict(d, backend=be), "splitting and recomposing with the swapped description does not restore the tensor"))
            else:
                out.append(("ok", dict(d, backend=be), None))
    return out


def run(tier, seed):
    chk = Check("C08", tier, seed, "other")
    try:
        from ..kernels import c01_lowering, c08_align, c01_decompose, c14_dataflow
        for k in c01_lowering.KERNELS + c08_align.KERNELS + c01_decompose.KERNELS + c14_dataflow.KERNELS_C08:
            chk.add_kernel(run_kernel(k, tier))
        chk.add_lemmas(tier)
    except ImportError:
        pass
    n = 16 if tier == "quick" else 800
    res = [x for r in harness.pmap(_work, [(seed, i) for i in range(n)]) for x in r] + concat_rearrangements()
    fails = [r for r in res if r[0] != "ok"]
    seen = set()
    for st, d, detail in fails:
        k = (d["relation"], d["op"])
        if k in seen:
            continue
        seen.add(k)
        chk.violation(f"C08.B.{d['relation'].replace(' ', '_')}[{d['op']}]", f"einx.{d['op']}({d['description']!r}, shapes={d['shapes']}, {d['kwargs']}) vs related call ({d['related_description']!r}) on backend {d['backend']}: {detail}",
                      replay={"kind": "case", "case": d}, found_input=True)
    cnt = {}
    for r in res:
        cnt[r[1]["relation"]] = cnt.get(r[1]["relation"], 0) + 1
    chk.add_bounded("relations between public calls: consistent renaming (incl. names colliding with internal prefixes), input permutation with transposed tensor, output permutation, regrouping with parentheses, inversion and composition of rearrangements",
                    f"{n} chunks x 30 templates, sizes with equal lengths and 1s", len(res), len({(r[1]['relation'], r[1]['description']) for r in res}), failures=fails, samples=[r[1] for r in res[:2]], note=str(cnt))
    chk.assumptions += ["bounded corpus for the relations between public calls; unbounded parts: the diagonal bookkeeping (C01.P.diag) and the (name, occurrence) alignment of _squeeze_transpose_broadcast (C08.P.align, C08.P.axis_ids)"]
    chk.explanation = "relational postconditions on public calls generated from one template; the axis bookkeeping of repeated names and the permutation that aligns input axes with output axes by (name, occurrence) are proved for all ranks from the real source"
    return chk
