"""C09 - arguments are never modified (except the *_at target)."""
import copy
import numpy as np
from ..report import Check
from .. import frame, corpus, harness

LAYOUTS = ("contiguous", "transposed_view", "broadcast_view", "readonly", "strided_view")


def layout(a, kind, rng):
    a = np.asarray(a)
    if kind == "contiguous" or a.ndim == 0:
        return np.array(a, copy=True), None
    if kind == "transposed_view":
        base = np.array(a.T, copy=True, order="C")
        return base.T, base
    if kind == "broadcast_view":
        # a view with a zero stride where possible (length-1 axes of a stored as broadcast)
        base = np.array(a, copy=True)
        return np.broadcast_to(base, a.shape) if not base.flags.writeable else np.lib.stride_tricks.as_strided(base, a.shape, base.strides), base
    if kind == "readonly":
        b = np.array(a, copy=True)
        b.flags.writeable = False
        return b, None
    if kind == "strided_view":
        base = np.zeros(tuple(2 * s for s in a.shape), dtype=a.dtype)
        v = base[tuple(slice(None, None, 2) for _ in a.shape)]
        v[...] = a
        return v, base
    raise ValueError(kind)


def snap(x):
    if isinstance(x, np.ndarray):
        return ("nd", x.shape, x.dtype.str, x.strides, x.flags.writeable, x.flags.c_contiguous, x.tobytes())
    if isinstance(x, dict):
        return ("dict", id(x), tuple((k, snap(v)) for k, v in x.items()))
    if isinstance(x, (list, tuple)):
        return (type(x).__name__, id(x), tuple(snap(v) for v in x))
    return ("py", type(x).__name__, copy.deepcopy(x))


def kw_variants(kw, rng):
    """the same sizes / options passed as other object kinds (numpy scalars, 0-d and 1-d arrays, lists): einx must not touch any of them"""
    yield "as-given", dict(kw)
    ints = [k for k, v in kw.items() if isinstance(v, int) and not isinstance(v, bool)]
    seqs = [k for k, v in kw.items() if isinstance(v, (list, tuple)) and all(isinstance(q, int) for q in v)]
    if ints or seqs:
        alt = dict(kw)
        for k in ints:
            alt[k] = rng.choice([np.int64(kw[k]), np.asarray(kw[k]), np.asarray([kw[k]])[0:1].reshape(())])
        for k in seqs:
            alt[k] = rng.choice([np.asarray(list(kw[k])), list(kw[k])])
        yield "numpy-valued sizes/options", alt


def extra_cases():
    """hand-written frame seeds: calls in which an argument is only reshaped/transposed/indexed (a view of the caller's array) before the elementary op"""
    A = np.arange
    C = corpus.Case
    f = lambda: None  # noqa
    return [
        C("elementwise", "add", "(a b), a b, a b -> a b", [A(6.0), A(6.0).reshape(2, 3), A(6.0).reshape(2, 3)], {"a": 2}, f, backends=("numpy", "numpy.numpylike")),
        C("elementwise", "multiply", "b a, a b, a b -> a b", [A(6.0).reshape(3, 2), A(6.0).reshape(2, 3), A(6.0).reshape(2, 3)], {}, f, backends=("numpy", "numpy.numpylike")),
        C("elementwise", "add", "a b c, (a b c), c b a, 1 -> a b c", [A(24.0).reshape(2, 3, 4), A(24.0), A(24.0).reshape(4, 3, 2), A(1.0)], {"a": 2, "b": 3}, f, backends=("numpy", "numpy.numpylike")),
        C("elementwise", "maximum", "(a b), a b, b a -> b a", [A(6.0), A(6.0).reshape(2, 3), A(6.0).reshape(3, 2)], {"a": 2}, f, backends=("numpy", "numpy.numpylike")),
        C("get_at", "get_at", "[d h w], p [3] -> p", [A(4.0).reshape(4, 1, 1), np.array([[1, 0, 0], [3, 0, 0]])], {}, f, backends=("numpy", "numpy.numpylike")),
        C("get_at", "get_at", "b [h w] c, b p [2] -> b p c", [A(24.0).reshape(2, 2, 3, 2), np.array([[[0, 1], [1, 2]], [[1, 0], [0, 0]]])], {}, f, backends=("numpy", "numpy.numpylike")),
        C("update_at", "add_at", "b [h w] c, b p [2], b p c -> b [h w] c", [np.zeros((2, 2, 3, 2)), np.array([[[0, 1], [1, 2]], [[1, 0], [0, 0]]]), np.ones((2, 2, 2))], {}, f, backends=("numpy", "numpy.numpylike"), meta={"inplace_target": 0}),
        C("update_at", "set_at", "[h], p q, q p", [np.zeros(4), np.array([[0, 1], [2, 3]]), A(4.0).reshape(2, 2)], {}, f, backends=("numpy", "numpy.numpylike"), meta={"inplace_target": 0}),
        C("reduce", "sum", "(a b) [c] -> b a", [A(24.0).reshape(6, 4)], {"a": 2}, f, backends=("numpy", "numpy.numpylike")),
        C("id", "id", "(a b) c -> c b a", [A(24.0).reshape(6, 4)], {"a": 2}, f),
        C("dot", "dot", "a [b], (c [b]) -> a c", [A(6.0).reshape(2, 3), A(6.0)], {"c": 2}, f),
        C("preserve_shape", "roll", "a [b]", [A(6.0).reshape(2, 3)], {"shift": [1]}, f, backends=("numpy", "numpy.numpylike")),
    ]


def arity_cases():
    """element-wise operations called with more tensors than the elementary operation takes: nothing may be written into any argument (numpy ufuncs treat an extra
    positional argument as output buffer), and a fixed-arity operation must refuse the call"""
    import einx
    out = []
    fixed = {"subtract": 2, "true_divide": 2, "floor_divide": 2, "divide": 2, "less": 2, "less_equal": 2, "greater": 2, "greater_equal": 2, "equal": 2, "not_equal": 2, "where": 3}
    nary = ["add", "multiply", "maximum", "minimum", "logical_and", "logical_or", "logaddexp"]
    for op in list(fixed) + nary:
        for k in (1, 2, 3, 4):
            for be in ("numpy", "numpy.numpylike"):
                ts = [np.arange(1.0, 4.0) + i for i in range(k)]
                if op in ("logical_and", "logical_or"):
                    ts = [t > 2 for t in ts]
                if op == "where":
                    ts[0] = ts[0] > 2
                before = [snap(t) for t in ts]
                desc = ", ".join(["a"] * k) + " -> a"
                o = harness.call_einx(op, desc, ts, {}, be)
                after = [snap(t) for t in ts]
                d = {"op": op, "description": desc, "shapes": [[3]] * k, "kwargs": {}, "layout": "contiguous", "graph": False, "kwargs_form": f"{k} operands"}
                status = "ok"
                if before != after:
                    status = "modified: " + ", ".join(f"argument {i}" for i in range(k) if before[i] != after[i]) + f" (operand count {k})"
                elif op in fixed and k != fixed[op] and o[0] == "ok":
                    status = f"computed with {k} operands although the elementary operation takes {fixed[op]}"
                out.append((status, d, be))
    return out


def _work(args):
    seed, idx = args
    import random
    rng = random.Random(seed * 7919 + idx)
    out = []
    for c in (extra_cases() if idx < 0 else corpus.corpus(seed * 100003 + idx, 24)):
        for lay in LAYOUTS:
            for be in c.backends[:2]:
                for kwkind, kw in kw_variants(c.kwargs, rng):
                    if kwkind != "as-given" and lay != "contiguous":
                        continue
                    ts, bases = [], []
                    for t in c.tensors:
                        v, b = layout(t, lay, rng)
                        ts.append(v)
                        bases.append(b)
                    # sizes / options passed as mutable containers / numpy objects
                    kw_objs = {k: v for k, v in kw.items()}
                    before = [snap(t) for t in ts] + [snap(b) if b is not None else None for b in bases] + [snap(kw_objs)]
                    target = c.meta.get("inplace_target")
                    for graph in (False, True):
                        o = harness.call_einx(c.op, c.desc, ts, dict(kw, graph=True) if graph else kw, be)
                        after = [snap(t) for t in ts] + [snap(b) if b is not None else None for b in bases] + [snap(kw_objs)]
                        changed = [i for i, (x, y) in enumerate(zip(before, after)) if x != y]
                        n = len(ts)
                        allowed = set() if (target is None or graph) else {target, n + target}
                        bad = [i for i in changed if i not in allowed]
                        status = "ok"
                        if bad:
                            which = [("argument %d" % i) if i < n else ("base array of argument %d" % (i - n)) if i < 2 * n else f"keyword objects ({kwkind}: contents, type or flags)" for i in bad]
                            status = "modified: " + ", ".join(which)
                        elif o[0] == "exc" and "read-only" in o[2] and not (target is not None and lay == "readonly" and not graph):
                            status = "raised on a read-only argument that einx must not write: " + o[2][:100]
                        out.append((status, dict(c.describe(), layout=lay, graph=graph, kwargs_form=kwkind, replay={"fn": "vf.props.C09:replay", "args": [seed, idx, c.desc, lay, be, graph]}), be))
                        before = after
    return out


def replay(seed, idx, desc, lay, be, graph):
    for r in _work((seed, idx)):
        if r[1]["description"] == desc and r[1]["layout"] == lay and r[2] == be and r[1]["graph"] == graph and r[0] != "ok":
            return f"einx.{r[1]['op']}({desc!r}, layout={lay}, backend={be!r}, graph={graph}): {r[0]}"
    return None


def run(tier, seed):
    chk = Check("C09", tier, seed, "other")
    from ..kernels import c09_np_elementwise, c09_nary
    from ..kernels.base import run_kernel
    for k in c09_np_elementwise.KERNELS + c09_nary.KERNELS:
        chk.add_kernel(run_kernel(k, tier))
    ok, sites, failing = frame.rule_inplace()
    chk.add_rule("C09.S.inplace", ok, sites, failing)
    n = 12 if tier == "quick" else 400
    res = [x for r in harness.pmap(_work, [(seed, i) for i in range(-1, n)]) for x in r] + arity_cases()
    seen = set()
    fails = [r for r in res if r[0] != "ok"]
    for st, d, be in fails:
        k = (d["op"], st[:30])
        if k in seen:
            continue
        seen.add(k)
        chk.violation(f"C09.B.frame[{d['op']}]", f"einx.{d['op']}({d['description']!r}, shapes={d['shapes']}, layout={d['layout']}, backend={be!r}, graph={d['graph']}): {st}", replay={"kind": "case", "case": d}, found_input=True)
    distinct = len({(r[1]["op"], r[1]["description"], r[1]["layout"]) for r in res})
    chk.add_bounded("byte/shape/dtype/stride/flag snapshots of every argument (and of the base array of views) before/after each call", f"{n} chunks x 24 templates x {len(LAYOUTS)} layouts x 2 backends x graph in (False, True)",
                    len(res), distinct, failures=fails, samples=[r[1] for r in res[:2]])
    chk.trusted += ["numpy functions on the functional allow-list do not write their inputs"]
    chk.assumptions += ["observation is the byte comparison (np.add.at / np.subtract.at write into arrays whose writeable flag is cleared without raising)"]
    chk.explanation = "frame condition assigns <= {first tensor of *_at}: syntactic rule over the producers of in-place IR nodes, their target position and the functional allow-list of numpy attributes; bounded snapshots over layouts"
    return chk
