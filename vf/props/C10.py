"""C10 - concurrent use behaves like some serial order (scope limited to ownership obligations; no schedule exploration)."""
import threading
from ..report import Check
from .. import frame

TLS = {("einx/_src/tracer/graph.py", "_dependon"), ("einx/_src/util/lru_cache.py", "_thread_local"),
       ("einx/_src/adapter/torch/devicestack.py", "TorchDeviceStack._thread_local"), ("einx/_src/adapter/arrayapi/namespacestack.py", "ArrayApiNamespaceStack._thread_local")}
ALLOWED_WRITERS = {"einx/_src/frontend/impl/torch.py:_has_allowed_in_graph"}  # written once under its own lock (double-checked), torch only


def lifo_overlap_finding():
    """known finding F-use-stack-lifo-threads: two threads with overlapping `with backend:` blocks trip the LIFO assertion (deterministic replay with events)"""
    import einx
    be1, be2 = einx.backend.get("numpy"), einx.backend.get("numpy.einsum")
    e1, e2 = threading.Event(), threading.Event()
    res = {}

    def t1():
        try:
            with be1:
                e1.set()
                e2.wait(5)
            res["t1"] = "ok"
        except BaseException as e:  # noqa
            res["t1"] = type(e).__name__

    def t2():
        e1.wait(5)
        try:
            be2.__enter__()
            e2.set()
            import time
            time.sleep(0.2)
            be2.__exit__(None, None, None)
            res["t2"] = "ok"
        except BaseException as e:  # noqa
            res["t2"] = type(e).__name__

    a, b = threading.Thread(target=t1), threading.Thread(target=t2)
    a.start(); b.start(); a.join(10); b.join(10)
    # clean up the process-global stack whatever happened
    import einx._src.frontend.backend as B
    with B.registry.use_lock:
        st = B.BackendRegistryState(B.registry.state)
        st.use_stack.clear()
        B.registry.state = st
    return res


def run(tier, seed):
    chk = Check("C10", tier, seed, "other")
    ok, sites, failing = frame.rule_lock()
    chk.add_rule("C10.S.lock", ok, sites, failing)
    ok, sites, failing = frame.rule_snapshot()
    chk.add_rule("C10.S.snapshot", ok, sites, failing)
    ok, sites, failing = frame.rule_tls(TLS)
    chk.add_rule("C10.S.tls", ok, sites, failing)
    ok, sites, failing = frame.rule_closure_state()
    chk.add_rule("C10.S.closure_state", ok, sites, failing)
    ok, sites, failing, inv = frame.rule_shared(ALLOWED_WRITERS)
    chk.add_rule("C10.S.shared", ok, sites, failing, detail=f"{len(inv)} module-level mutable bindings inventoried")
    r = lifo_overlap_finding()
    if "AssertionError" in r.values():
        chk.known_finding("F-use-stack-lifo-threads", f"overlapping `with backend:` blocks of two threads trip the LIFO assertion of the process-global use_stack ({r})")
    chk.add_bounded("deterministic two-thread replay of overlapping with-blocks (event-gated)", "1 schedule", 1, 2, samples=[r], note="documents the known finding; no schedule exploration")
    chk.assumptions += ["functools.cache is safe for concurrent callers (trusted CPython)", "threading.Lock/RLock semantics", "the quantifier over interleavings is NOT decided by this family: only the lock/ownership obligations the mechanism relies on (DESIGN §3 C10, Appendix A4)"]
    chk.explanation = ("ownership obligations only: every store to registry.state is a read-modify-write inside `with self.use_lock`, published snapshots are never mutated, tracing/device/namespace stacks are thread-local, "
                       "no other call-time writes to module-level state. Atomicity of registry operations follows by the lock-invariant argument (paper, Appendix A4); schedules are not explored.")
    return chk
