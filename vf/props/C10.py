"""C10 - concurrent use behaves like some serial order (scope limited to ownership obligations; no schedule exploration)."""
import threading
from ..report import Check
from .. import frame

TLS = {("einx/_src/tracer/graph.py", "_dependon"), ("einx/_src/util/lru_cache.py", "_thread_local"),
       ("einx/_src/adapter/torch/devicestack.py", "TorchDeviceStack._thread_local"), ("einx/_src/adapter/arrayapi/namespacestack.py", "ArrayApiNamespaceStack._thread_local")}
ALLOWED_WRITERS = {"einx/_src/frontend/impl/torch.py:_has_allowed_in_graph"}  # written once under its own lock (double-checked), torch only


def lifo_overlap_finding():
    """known finding F-use-stack-lifo-threads: two threads with overlapping `with backend:` blocks trip the LIFO assertion (deterministic replay with events)"""
    import einx
    be1, be2 = einx.backend.get("numpy"), einx.backend.get("numpy.einsum")
    e1, e2 = threading.Event(), threading.Event()
    res = {}

    def t1():
        try:
            with be1:
                e1.set()
                e2.wait(5)
            res["t1"] = "ok"
        except BaseException as e:  # noqa
            res["t1"] = type(e).__name__

    def t2():
        e1.wait(5)
        try:
            be2.__enter__()
            e2.set()
            import time
            time.sleep(0.2)
            be2.__exit__(None, None, None)
            res["t2"] = "ok"
        except BaseException as e:  # noqa
            res["t2"] = type(e).__name__

    a, b = threading.Thread(target=t1), threading.Thread(target=t2)
    a.start(); b.start(); a.join(10); b.join(10)
    # clean up the process-global stack whatever happened
    import einx._src.frontend.backend as B
    with B.registry.use_lock:
        st = B.BackendRegistryState(B.registry.state)
        st.use_stack.clear()
        B.registry.state = st
    return res


def rule_foreign_dicts():
    """C10.S.foreign_dicts: process-global dictionaries that OTHER threads mutate without einx's lock (sys.modules on every import, os.environ) may only be iterated through an
    atomic snapshot (list(d), tuple(d), d.copy(), sorted(d)): iterating the live dict raises `RuntimeError: dictionary changed size during iteration` when another thread imports a module"""
    import ast
    FOREIGN = ("sys.modules", "os.environ")
    sites, failing = [], []
    for f in frame.all_files():
        t = ast.parse(open(f).read())
        r = frame.rel(f)
        par = frame.parents(t)
        for n in ast.walk(t):
            its = []
            if isinstance(n, (ast.For, ast.AsyncFor)):
                its.append(n.iter)
            if isinstance(n, ast.comprehension):
                its.append(n.iter)
            for it in its:
                base = it.func.value if isinstance(it, ast.Call) and isinstance(it.func, ast.Attribute) and it.func.attr in ("items", "keys", "values") and not it.args else it
                txt = ast.unparse(base)
                if txt in FOREIGN:
                    site = f"{r}:{it.lineno}:iteration over {ast.unparse(it)}"
                    sites.append(site)
                    failing.append(site + " (live iteration over a dict that other threads mutate; take a snapshot first)")
        for n in ast.walk(t):
            if isinstance(n, ast.Call) and isinstance(n.func, ast.Name) and n.func.id in ("list", "tuple", "sorted", "set", "frozenset", "dict") and n.args and ast.unparse(n.args[0]).split(".items")[0].split(".keys")[0].split(".values")[0] in FOREIGN:
                sites.append(f"{r}:{n.lineno}:snapshot {ast.unparse(n)[:50]}")
    return not failing, sites, failing


def import_race(seconds):
    """bounded: lookups that check for newly imported frameworks while another thread keeps inserting / removing entries of sys.modules"""
    import sys, threading, time, types
    import einx._src.frontend.backend as B
    errs, stop = [], []

    def importer():
        i = 0
        while not stop:
            i += 1
            sys.modules[f"_vf_fake_mod_{i}"] = types.ModuleType(f"_vf_fake_mod_{i}")
            if i % 50 == 0:
                for j in range(i - 50, i + 1):
                    sys.modules.pop(f"_vf_fake_mod_{j}", None)

    class T:
        pass

    calls = [0]

    def caller():
        while not stop:
            calls[0] += 1
            try:
                B.registry.get_by_tensors([T()])
            except RuntimeError as e:
                errs.append(repr(e))
                return
            except Exception:  # noqa
                pass

    ts = [threading.Thread(target=importer), threading.Thread(target=caller), threading.Thread(target=caller)]
    for t in ts:
        t.start()
    time.sleep(seconds)
    stop.append(1)
    for t in ts:
        t.join(10)
    for k in [k for k in sys.modules if k.startswith("_vf_fake_mod_")]:
        sys.modules.pop(k, None)
    return calls[0], errs


def run(tier, seed):
    chk = Check("C10", tier, seed, "other")
    from ..kernels import c10_snapshots
    from ..kernels.base import run_kernel
    for k in [q for q in c10_snapshots.KERNELS if q.prop == "C10"]:
        chk.add_kernel(run_kernel(k, tier))
    ok, sites, failing = rule_foreign_dicts()
    chk.add_rule("C10.S.foreign_dicts", ok, sites, failing)
    n_calls, errs = import_race(3 if tier == "quick" else 60)
    if errs:
        chk.violation("C10.B.import_race", f"a backend lookup failed because another thread changed sys.modules while einx iterated it: {errs[0]}", replay={"kind": "case", "case": {"fn": "vf.props.C10:import_race", "seconds": 10}}, found_input=True)
    chk.add_bounded("backend lookups for an unknown tensor type (each checks for newly imported frameworks) in two threads while a third thread inserts / removes sys.modules entries", f"{3 if tier == 'quick' else 60} s free-running", n_calls, n_calls, failures=errs[:2], note="schedule not controlled: a stress run, complements rule C10.S.foreign_dicts")
    ok, sites, failing = frame.rule_lock()
    chk.add_rule("C10.S.lock", ok, sites, failing)
    ok, sites, failing = frame.rule_lock_reads()
    chk.add_rule("C10.S.lock_reads", ok, sites, failing, detail="the registry's public methods have one path: lock, delegate to BackendRegistryState, publish - no lock-free or memo-first shortcut")
    ok, sites, failing = frame.rule_snapshot()
    chk.add_rule("C10.S.snapshot", ok, sites, failing)
    ok, sites, failing = frame.rule_snapshot_copy()
    chk.add_rule("C10.S.snapshot_copy", ok, sites, failing)
    ok, sites, failing = frame.rule_tls(TLS)
    chk.add_rule("C10.S.tls", ok, sites, failing)
    ok, sites, failing = frame.rule_closure_state()
    chk.add_rule("C10.S.closure_state", ok, sites, failing)
    ok, sites, failing, inv = frame.rule_shared(ALLOWED_WRITERS)
    chk.add_rule("C10.S.shared", ok, sites, failing, detail=f"{len(inv)} module-level mutable bindings inventoried")
    r = lifo_overlap_finding()
    if "AssertionError" in r.values():
        chk.known_finding("F-use-stack-lifo-threads", f"overlapping `with backend:` blocks of two threads trip the LIFO assertion of the process-global use_stack ({r})")
    chk.add_bounded("deterministic two-thread replay of overlapping with-blocks (event-gated)", "1 schedule", 1, 2, samples=[r], note="documents the known finding; no schedule exploration")
    chk.assumptions += ["functools.cache is safe for concurrent callers (trusted CPython)", "threading.Lock/RLock semantics", "the quantifier over interleavings is NOT decided by this family: only the lock/ownership obligations the mechanism relies on (DESIGN §3 C10, Appendix A4)"]
    chk.explanation = ("ownership obligations only: every store to registry.state is a read-modify-write inside `with self.use_lock`, published snapshots are never mutated, tracing/device/namespace stacks are thread-local, "
                       "no other call-time writes to module-level state. Atomicity of registry operations follows by the lock-invariant argument (paper, Appendix A4); schedules are not explored.")
    return chk
