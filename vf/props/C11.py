"""C11 - backend selection follows the documented precedence and is stable."""
import itertools
import sys
import types
import numpy as np
from ..report import Check
from ..kernels.base import run_kernel
from ..kernels import c11_registry, c11_names
from .. import harness


# ------------------------------------------------------------------ spec: select(...) literally from the property statement
class Spec:
    """view of a registry: list of (name, priority, accepts:set of tensor classes, healthy, module or None) in registration order"""

    def __init__(self, entries):
        self.entries = entries

    def visible(self, imported):
        # a backend registered on import exists once its module has been imported
        names = {}
        for e in self.entries:
            if e["module"] is None or e["module"] in imported:
                names[e["name"]] = e  # last registration of a name wins
        return names

    def select(self, arg, with_stack, tensors, imported):
        """returns ('backend', name) | ('error', cls)"""
        vis = self.visible(imported)
        if isinstance(arg, tuple) and arg[0] == "object":
            return ("backend", arg[1])
        if isinstance(arg, str):
            if arg not in vis:
                return ("error", "ValueError")
            return ("backend", arg) if vis[arg]["healthy"] else ("error", "ImportBackendError")
        if with_stack:
            top = with_stack[-1]
            return ("backend", top) if vis.get(top, {"healthy": True})["healthy"] else ("error", "ImportBackendError")
        if arg is not None:
            return ("error", "ValueError")
        scalars = all(isinstance(t, (int, float, bool, np.floating, np.integer, np.bool_)) for t in tensors)
        if scalars:
            if "numpy" not in vis:
                return ("error", "ValueError")
            return ("backend", "numpy") if vis["numpy"]["healthy"] else ("error", "ImportBackendError")
        cands = [e for e in vis.values() if e["healthy"] and any(type(t) in e["accepts"] for t in tensors)]
        if cands:
            m = max(e["priority"] for e in cands)
            cands = [e for e in cands if e["priority"] == m]
        if len(cands) == 1:
            return ("backend", cands[0]["name"])
        return ("error", "BackendResolutionError")


# ------------------------------------------------------------------ synthetic world on the REAL BackendRegistry
def make_tensor_class(modname):
    ns = types.SimpleNamespace()

    class Tensor:  # same __name__ in every framework, like torch.Tensor / tinygrad.Tensor / tf.Tensor
        pass

    Tensor.__module__ = modname
    return Tensor


F1T, F2T = make_tensor_class("fw1"), make_tensor_class("fw2")


class Unrelated:
    pass


def entries(variant):
    E = lambda name, prio, acc, module=None, healthy=True: {"name": name, "priority": prio, "accepts": set(acc), "module": module, "healthy": healthy}  # noqa
    base = [E("numpy", -1, [np.ndarray]), E("numpy.special", -5, [np.ndarray]), E("fw1", 0, [F1T]), E("fw1.special", -5, [F1T]), E("fw2", 0, [F2T]), E("fw2.special", -5, [F2T])]
    if variant == "eager":
        return base
    if variant == "lazy":
        return [dict(e, module=("vf_fake_" + e["name"].split(".")[0]) if e["name"].startswith("fw") else None) for e in base]
    if variant == "failing":
        return [dict(e, healthy=(e["name"] != "fw1"), module=("vf_fake_fw1" if e["name"].startswith("fw1") else None)) for e in base]
    if variant == "tie":
        return base + [E("fw1.twin", 0, [F1T])]
    raise ValueError(variant)


def build(entries_, order, B):
    reg = B.BackendRegistry()
    objs = {}
    for i in order:
        e = entries_[i]

        def factory(e=e):
            if not e["healthy"]:
                raise RuntimeError("import of the framework failed")
            b = B.Backend(ops={}, name=e["name"], priority=e["priority"], optimizations=[], compiler=None, is_supported_tensor=lambda t, acc=e["accepts"]: type(t) in acc, get_shape=None)
            objs[e["name"]] = b
            return b

        if e["module"] is None:
            reg.register(factory())
        else:
            reg.register_on_import(e["module"], e["name"], factory)
    return reg, objs


TENSORS = {"nd": np.zeros(2), "f1": F1T(), "f2": F2T(), "sc": 1.5, "un": Unrelated()}
TUPLES = [()] + [(a,) for a in TENSORS] + [(a, b) for a in TENSORS for b in TENSORS]


def lookups():
    out = []
    for tt in TUPLES:
        out.append((None, tt))
    for name in ("numpy", "fw1", "fw2.special", "nosuch"):
        out.append((name, ("nd",)))
    out.append((("object", "fw2"), ("nd",)))
    out.append((3, ("nd",)))
    return out


def outcome(reg, objs, arg, tensors, B):
    import einx

    a = objs.get(arg[1]) if isinstance(arg, tuple) else arg
    if isinstance(arg, tuple) and a is None:
        return None
    try:
        b = reg.get(a, [TENSORS[t] for t in tensors])
        b.raise_on_import_failure()
        return ("backend", b.name)
    except einx.errors.BackendResolutionError:
        return ("error", "BackendResolutionError")
    except einx.errors.ImportBackendError:
        return ("error", "ImportBackendError")
    except ValueError:
        return ("error", "ValueError")
    except Exception as e:  # noqa
        return ("error", type(e).__name__)


def _work(args):
    variant, orders, seed = args
    import einx._src.frontend.backend as B

    ents = entries(variant)
    spec = Spec(ents)
    fails, n = [], 0
    lks = lookups()
    mods = sorted({e["module"] for e in ents if e["module"]})
    for order in orders:
        for preimport in ([], mods):
            for m in mods:
                sys.modules.pop(m, None)
            for m in preimport:
                sys.modules[m] = types.ModuleType(m)
            try:
                # single lookups on a fresh registry, and every lookup after one earlier lookup (memo / lazy-registration stability)
                for first in [None] + lks[:: (1 if len(orders) <= 8 else 5)]:
                    reg, objs = build(ents, order, B)
                    imported = set(preimport)
                    if first is not None:
                        outcome(reg, objs, first[0], first[1], B)
                    for arg, tt in lks:
                        if isinstance(arg, tuple) and arg[1] not in objs:
                            continue
                        n += 1
                        got = outcome(reg, objs, arg, tt, B)
                        exp = spec.select(arg, [], [TENSORS[t] for t in tt], imported)
                        if got != exp:
                            fails.append({"detail": f"registry variant {variant}, registration order {[ents[i]['name'] for i in order]}, modules imported {sorted(imported)}, after lookup {first}: get({arg!r}, {tt}) gives {got}, documented selection is {exp}",
                                          "replay": {"fn": "vf.props.C11:replay", "args": [variant, list(order), list(preimport), list(first) if first else None, arg if not isinstance(arg, tuple) else list(arg), list(tt)]}})
                # late import, and the FIRST lookup afterwards fails for an unrelated reason (its registry snapshot is discarded): later lookups must still see the lazily registered backends
                if not preimport and mods:
                    for bad_first in (("nosuch", ("nd",)), (None, ("un",)), (None, ("un", "f1"))):
                        reg, objs = build(ents, order, B)
                        for m in mods:
                            sys.modules[m] = types.ModuleType(m)
                        outcome(reg, objs, bad_first[0], bad_first[1], B)
                        for arg, tt in lks:
                            if isinstance(arg, tuple):
                                continue
                            n += 1
                            got = outcome(reg, objs, arg, tt, B)
                            exp = spec.select(arg, [], [TENSORS[t] for t in tt], set(mods))
                            if got != exp:
                                fails.append({"detail": f"variant {variant}, order {[ents[i]['name'] for i in order]}, modules imported after registration, first lookup {bad_first} (fails), then get({arg!r}, {tt}) gives {got}, documented {exp}"})
                                break
                        for m in mods:
                            sys.modules.pop(m, None)
                # late import: the module appears after registration
                if not preimport and mods:
                    reg, objs = build(ents, order, B)
                    for m in mods:
                        sys.modules[m] = types.ModuleType(m)
                    for arg, tt in lks:
                        if isinstance(arg, tuple):
                            continue
                        n += 1
                        got = outcome(reg, objs, arg, tt, B)
                        exp = spec.select(arg, [], [TENSORS[t] for t in tt], set(mods))
                        if got != exp:
                            fails.append({"detail": f"variant {variant}, order {[ents[i]['name'] for i in order]}, module imported after registration: get({arg!r}, {tt}) gives {got}, documented {exp}"})
            finally:
                for m in mods:
                    sys.modules.pop(m, None)
        if len(fails) > 5:
            break
    return n, fails[:5]


def late_registration(B, orders):
    """'the choice does not depend on registration order or earlier lookups': every lookup is made once when only a PREFIX of the backends is registered (which may memoise
    a choice for its tensor types) and again after the rest has been registered - the second answer must be the documented selection over the full registry"""
    ents = entries("eager")
    spec = Spec(ents)
    lks = [l for l in lookups() if not isinstance(l[0], tuple)]
    n, fails = 0, []
    for order in orders:
        order = list(order)
        for cut in (1, 2, 3, len(order) - 1):
            reg, objs = build(ents, order[:cut], B)
            for arg, tt in lks:
                outcome(reg, objs, arg, tt, B)
            for i in order[cut:]:
                e = ents[i]
                b = B.Backend(ops={}, name=e["name"], priority=e["priority"], optimizations=[], compiler=None, is_supported_tensor=lambda t, acc=e["accepts"]: type(t) in acc, get_shape=None)
                objs[e["name"]] = b
                reg.register(b)
            for arg, tt in lks:
                n += 1
                got = outcome(reg, objs, arg, tt, B)
                exp = spec.select(arg, [], [TENSORS[t] for t in tt], set())
                if got != exp:
                    fails.append({"detail": f"backends {[ents[i]['name'] for i in order[:cut]]} registered, all lookups made, then {[ents[i]['name'] for i in order[cut:]]} registered: get({arg!r}, {tt}) gives {got}, "
                                            f"documented selection over the full registry is {exp} (a choice memoised before the registration survives it)"})
            if len(fails) > 3:
                return n, fails[:3]
    return n, fails[:3]


def with_blocks(B):
    """nested with-blocks on a fresh registry: the innermost active block decides, and leaving a block restores the enclosing one"""
    ents = entries("eager")
    reg, objs = build(ents, range(len(ents)), B)
    names = ["numpy", "fw1", "fw2"]
    n, fails = 0, []
    for depth in (1, 2, 3):
        for seq in itertools.product(names, repeat=depth):
            stack = []
            for nm in seq:
                reg.enter(objs[nm])
                stack.append(nm)
                n += 1
                got = reg.get(None, [TENSORS["f2"]]).name
                if got != stack[-1]:
                    fails.append({"detail": f"inside with-blocks {stack}: get(None) gives {got}"})
            for nm in reversed(seq):
                reg.exit(objs[nm])
                stack.pop()
                n += 1
                got = reg.get(None, [TENSORS["f2"]]).name
                exp = stack[-1] if stack else "fw2"
                if got != exp:
                    fails.append({"detail": f"after leaving {nm!r} with blocks {list(seq)} (still active: {stack}): get(None, [fw2 tensor]) gives {got}, expected {exp}",
                                  "replay": {"fn": "vf.props.C11:replay_with", "args": [list(seq)]}})
            n += 1
            if reg.state.use_stack:
                fails.append({"detail": f"use_stack not empty after leaving all blocks of {seq}"})
    return n, fails[:5]


def replay_with(seq):
    import einx._src.frontend.backend as B
    ents = entries("eager")
    reg, objs = build(ents, range(len(ents)), B)
    stack = []
    for nm in seq:
        reg.enter(objs[nm]); stack.append(nm)
    for nm in reversed(seq):
        reg.exit(objs[nm]); stack.pop()
        got = reg.get(None, [TENSORS["f2"]]).name
        exp = stack[-1] if stack else "fw2"
        if got != exp:
            return f"after leaving {nm!r} of {seq}: get(None) gives {got}, expected {exp}"
    return None


def replay(variant, order, preimport, first, arg, tt):
    import einx._src.frontend.backend as B
    ents = entries(variant)
    mods = sorted({e["module"] for e in ents if e["module"]})
    for m in mods:
        sys.modules.pop(m, None)
    for m in preimport:
        sys.modules[m] = types.ModuleType(m)
    try:
        reg, objs = build(ents, order, B)
        if first:
            outcome(reg, objs, tuple(first[0]) if isinstance(first[0], list) else first[0], tuple(first[1]), B)
        a = tuple(arg) if isinstance(arg, list) else arg
        got = outcome(reg, objs, a, tuple(tt), B)
        exp = Spec(ents).select(a, [], [TENSORS[t] for t in tt], set(preimport))
        return None if got == exp else f"get({a!r}, {tt}) gives {got}, documented selection is {exp}"
    finally:
        for m in mods:
            sys.modules.pop(m, None)


def run(tier, seed):
    import random
    import einx._src.frontend.backend as B

    chk = Check("C11", tier, seed, "other")
    from ..kernels import c04_api_inner, c10_snapshots
    from .. import frame
    ok, sites, failing = frame.rule_snapshot_copy()
    chk.add_rule("C11.S.snapshot_copy", ok, sites, failing, detail="'the choice does not depend on earlier lookups': a lookup that fails discards its snapshot - nothing it did may survive in a shared container")
    ok, sites, failing = frame.rule_lock_reads()
    chk.add_rule("C11.S.lock_reads", ok, sites, failing, detail="BackendRegistry.get & co. only delegate to the proved BackendRegistryState methods under the lock: no memo-first shortcut around the precedence chain")
    for k in c11_registry.KERNELS + c11_names.KERNELS + [q for q in c04_api_inner.KERNELS if q.id == "C04.P.api_entry[run]"] + [q for q in c10_snapshots.KERNELS if q.prop == "C11"]:  # the entry point hands registry.get the backend argument and ALL raw tensor arguments
        chk.add_kernel(run_kernel(k, tier))
    import einx
    api_cases = [("add", "a, a", [lambda shape: np.ones(shape), lambda shape: np.ones(shape)], {"a": 3}, "BackendResolutionError"), ("add", "a, ", [lambda shape: np.ones(shape), 2.0], {"a": 3}, "BackendResolutionError"),
                 ("add", ", ", [1.0, 2.0], {}, "value"), ("add", "a, a", [np.ones(3), lambda shape: np.ones(shape)], {}, "value")]
    for op, d, ts, kw, want in api_cases:
        o = harness.outcome(lambda: getattr(einx, op)(d, *ts, **kw), 20)
        got = "value" if o[0] == "ok" else o[1].split(".")[-1] if o[0] == "exc" else "timeout"
        if got != want:
            chk.violation("C11.B.api_selection", f"einx.{op}({d!r}) with argument kinds {[type(t).__name__ for t in ts]} and no backend argument / with-block: {got}, documented selection gives {want} "
                          "(tensor factories and scalars are arguments like any other: zero candidates raise BackendResolutionError, scalars alone select numpy)", replay={"kind": "case", "case": {"op": op, "description": d}}, found_input=True)
    chk.add_bounded("public calls whose tensor arguments are only factories / scalars / one array", "4 calls", len(api_cases), len(api_cases))
    rng = random.Random(seed)
    m0 = list(range(len(entries("eager"))))
    lr_orders = [m0, m0[::-1]] + [rng.sample(m0, len(m0)) for _ in range(4 if tier == "quick" else 60)]
    n_lr, f_lr = late_registration(B, lr_orders)
    for f in f_lr[:1]:
        chk.violation("C11.B.late_registration", f["detail"], replay={"kind": "case", "case": f}, found_input=True)
    chk.add_bounded("lookups before and after further backends are registered (eager registration, prefix cuts 1/2/3/n-1)", f"{len(lr_orders)} registration orders x 4 cuts x all lookups", n_lr, n_lr, failures=f_lr)
    jobs = []
    for variant in ("eager", "lazy", "failing", "tie"):
        m = len(entries(variant))
        perms = list(itertools.permutations(range(m)))
        if tier == "quick":
            perms = [perms[0], perms[-1]] + rng.sample(perms, 22)
        elif m > 6:
            perms = rng.sample(perms, 720)
        for i in range(0, len(perms), max(1, len(perms) // 16)):
            jobs.append((variant, perms[i : i + max(1, len(perms) // 16)], seed))
    total, fails = 0, []
    for n, f in harness.pmap(_work, jobs):
        total += n
        fails += f
    seen = set()
    for f in fails:
        k = f["detail"].split(": get(")[-1][:60]
        if k in seen:
            continue
        seen.add(k)
        chk.violation("C11.B.select", f["detail"], replay={"kind": "case", "case": f}, found_input=True)
    chk.add_bounded("fresh BackendRegistry objects with synthetic backends (numpy + 2 frameworks x default/specialised, lazy, failing factory, priority tie) vs the selection spec",
                    f"{len(jobs)} order batches ({'24 orders per variant' if tier == 'quick' else 'all 720 orders per variant'}), {len(lookups())} lookups each, fresh and after an earlier lookup, modules imported before/after registration",
                    total, total, failures=fails, exhaustive=(tier != "quick"), samples=[{"lookups": [str(l) for l in lookups()[:4]]}])
    n, f = with_blocks(B)
    for x in f[:2]:
        chk.violation("C11.B.innermost_with", x["detail"], replay={"kind": "case", "case": x}, found_input=True)
    chk.add_bounded("nested with-blocks incl. re-entering an active backend (A > B > A)", "all sequences of depth <= 3 over 3 backends", n, n, failures=f, exhaustive=True)
    # the three real numpy backends through the public API
    import einx
    real = []
    for arg, tens, exp in [(None, [np.zeros(2)], "numpy"), (None, [1.0], "numpy"), ("numpy.einsum", [np.zeros(2)], "numpy.einsum"), (None, [np.zeros(2), 2], "numpy")]:
        got = einx.backend.get(arg, tens).name if True else None
        real.append((str(arg), got))
        if got != exp:
            chk.violation("C11.B.real_numpy", f"einx.backend.get({arg!r}, {tens}) = {got}, expected {exp}", found_input=True)
    chk.add_bounded("real numpy backends through einx.backend.get", "4 lookups", len(real), len(real), samples=real)
    chk.trusted += ["selection spec vf/props/C11.py:Spec.select written from the property statement"]
    chk.assumptions += ["real torch/jax/... factories are not importable: synthetic backends built with the real Backend class stand in", "induction over lookup histories is on paper (memo invariant + C11.P.priority memo-write condition)"]
    chk.explanation = "representation invariant + post = select(...) on BackendRegistryState: precedence chain, priority filter, memo-write condition and LIFO with-stack proved from the real AST; order/lookup-history stability evaluated exhaustively on small synthetic registries (bounded)"
    return chk
