"""C12 - the expression parser is total and stable under re-printing and extra spacing."""
from ..report import Check
from ..kernels.base import run_kernel
from ..kernels import c12_lexer, c03_indicator


def run(tier, seed):
    chk = Check("C12", tier, seed, "other")
    for k in c12_lexer.KERNELS + c03_indicator.KERNELS:
        chk.add_kernel(run_kernel(k, tier))
    from .. import frame
    ok, sites, failing = frame.rule_dispatch()
    chk.add_rule("C12.S.dispatch_complete", ok, sites, failing)
    try:
        from . import _parser_enum
        _parser_enum.add(chk, tier, seed)
    except ImportError:
        pass
    chk.assumptions += ["solver alphabets stop at U+2FFFF (character classes above are not modelled)", "str.strip modelled for ' ' only", "round-trip and totality of the recursive parser stages only up to the enumeration bound"]
    chk.explanation = "lexer prefix of the real parse_op proved for all strings (VCs from its AST, z3 + cvc5 strings); parser stages after the lexer by bounded enumeration of token sequences"
    return chk
