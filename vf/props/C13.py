"""C13 - tensor factories run once per call, with the resolved shape, only at run time."""
import functools
import inspect
import itertools
import types
import numpy as np
from ..report import Check
from .. import frame, corpus, harness


class Rec:
    def __init__(self):
        self.calls = []


def make_factory(kind, rec, value_fn):
    """factories of different signatures; all record (shape, kwargs)"""
    def body(shape, kw):
        rec.calls.append((shape, dict(kw)))
        return value_fn(shape)

    if kind == "plain":
        return lambda shape: body(shape, {})
    if kind == "name":
        def f(shape, name=None):
            return body(shape, {"name": name})
        return f
    if kind == "kwonly_arg_index":
        def f(shape, *, arg_index):
            return body(shape, {"arg_index": arg_index})
        return f
    if kind == "varkw":
        def f(shape, **kw):
            return body(shape, kw)
        return f
    if kind == "all3":
        def f(shape, name, arg_index=None, signature=None):
            return body(shape, {"name": name, "arg_index": arg_index, "signature": signature})
        return f
    if kind == "wrapped_plain" or kind == "wrapped_name":
        # two factories produced by ONE decorator share the wrapper's code object; their signatures follow __wrapped__
        def deco(g):
            @functools.wraps(g)
            def w(*a, **k):
                return g(*a, **k)
            return w
        if kind == "wrapped_plain":
            def g(shape):
                return body(shape, {})
        else:
            def g(shape, name=None, arg_index=None):
                return body(shape, {"name": name, "arg_index": arg_index})
        return deco(g)
    if kind == "posonly_name":
        def f(shape, name=None, /):
            return body(shape, {"posonly-name-not-passed": name})
        return f
    raise ValueError(kind)


DECLARED = {"plain": set(), "name": {"name"}, "kwonly_arg_index": {"arg_index"}, "varkw": {"name", "arg_index", "signature"}, "all3": {"name", "arg_index", "signature"},
            "wrapped_plain": set(), "wrapped_name": {"name", "arg_index"}, "posonly_name": set()}
KINDS = list(DECLARED)


def _work(args):
    seed, idx = args
    import random
    rng = random.Random(seed * 31337 + idx)
    out = []
    for c in corpus.corpus(seed * 100003 + idx, 12, fams=["elw", "dot", "id", "red", "where", "get_at"]):
        n = len(c.tensors)
        ref = harness.call_einx(c.op, c.desc, [t.copy() for t in c.tensors], c.kwargs, "numpy")
        if ref[0] != "ok":
            continue
        subsets = [s for k in (1, 2) for s in itertools.combinations(range(n), k)]
        rng.shuffle(subsets)
        for pos in subsets[:3]:
            kinds = [rng.choice(KINDS) for _ in pos]
            recs = [Rec() for _ in pos]
            facs = [make_factory(k, r, (lambda sh, t=c.tensors[p]: t.copy())) for k, r, p in zip(kinds, recs, pos)]
            ts = [facs[pos.index(i)] if i in pos else c.tensors[i].copy() for i in range(n)]
            d = dict(c.describe(), factory_positions=list(pos), factory_kinds=kinds)
            # graph=True must not invoke
            g = harness.call_einx(c.op, c.desc, ts, dict(c.kwargs, graph=True), "numpy")
            if any(r.calls for r in recs):
                out.append(("invoked-under-graph", d, None))
            if g[0] == "exc":
                # the factory's axes are not determined by the other arguments: einx must reject, and must not have invoked anything
                out.append(("skipped-underdetermined" if g[1].startswith("einx.") else "exception", d, f"{g[1]}: {g[2][:100]}"))
                o = harness.call_einx(c.op, c.desc, ts, c.kwargs, "numpy")
                if any(r.calls for r in recs):
                    out.append(("invoked-when-rejected", d, None))
                continue
            for rep in range(3):  # cold, warm, warm
                for r in recs:
                    r.calls.clear()
                o = harness.call_einx(c.op, c.desc, ts, c.kwargs, "numpy")
                if o[0] != "ok":
                    out.append(("exception", d, f"{o[1:]}"))
                    break
                bad = None
                for p, k, r in zip(pos, kinds, recs):
                    if len(r.calls) != 1:
                        bad = f"factory at position {p} invoked {len(r.calls)} times (repetition {rep})"
                        break
                    shape, kw = r.calls[0]
                    want = tuple(int(s) for s in c.tensors[p].shape)
                    if not (isinstance(shape, tuple) and all(type(s) is int for s in shape) and shape == want):
                        bad = f"factory at position {p} received shape {shape!r} instead of the tuple of ints {want}"
                        break
                    if set(kw) != (DECLARED[k] if k != "posonly_name" else {"posonly-name-not-passed"}):
                        bad = f"factory ({k}) at position {p} received keywords {sorted(kw)} but declares {sorted(DECLARED[k])}"
                        break
                    if "arg_index" in kw and kw["arg_index"] != p:
                        bad = f"factory at position {p} received arg_index={kw['arg_index']}"
                        break
                    if "name" in kw and k != "posonly_name" and kw["name"] != c.op:
                        bad = f"factory received name={kw['name']!r} for einx.{c.op}"
                        break
                if bad is None:
                    same = (np.array_equal(np.asarray(o[1]), np.asarray(ref[1])) if not isinstance(ref[1], (list, tuple)) else all(np.array_equal(a, b) for a, b in zip(o[1], ref[1])))
                    if not same:
                        bad = "result differs from the call with the produced tensors"
                out.append(("mismatch" if bad else "ok", d, bad))
                if bad:
                    break
            # misbehaving factories at the first position
            p = pos[0]
            want = tuple(c.tensors[p].shape)
            class _Duck:  # not a tensor of the backend, but it has the expected .shape and converts to an array
                def __init__(self, a):
                    self.a, self.shape = a, a.shape

                def __array__(self, *args, **kw):
                    return self.a

            wrongs = [("wrong type", lambda sh: [[0.0]]), ("wrong type but the expected .shape (duck object)", lambda sh, t=c.tensors[p]: _Duck(t.copy())),
                      ("wrong type but the expected .shape (memoryview)", lambda sh, t=c.tensors[p]: memoryview(np.ascontiguousarray(t))), ("extra unit axis", lambda sh, t=c.tensors[p]: t.copy()[..., None]), ("leading unit axis", lambda sh, t=c.tensors[p]: t.copy()[None])]
            if len(want) >= 2 and want != want[::-1]:
                wrongs.append(("transposed shape", lambda sh, t=c.tensors[p]: np.ascontiguousarray(t.T)))
            if len(want) >= 2 and want == want[::-1] and want[0] > 1:
                wrongs.append(("one row dropped", lambda sh, t=c.tensors[p]: t.copy()[1:]))
            for what, vf in wrongs:
                ts2 = list(ts)
                ts2[p] = make_factory("plain", Rec(), vf)
                for q in pos[1:]:
                    ts2[q] = c.tensors[q].copy()
                o = harness.call_einx(c.op, c.desc, ts2, c.kwargs, "numpy")
                if o[0] == "ok":
                    out.append(("accepted-misbehaving", dict(d, misbehaviour=what, expected_shape=list(want)), f"a factory returning a value with {what} was accepted"))
                else:
                    out.append(("ok", d, None))
    return out


def kwargs_predicate_complete():
    """C13.P.kwargs: use_parameter over its finite domain (parameter kinds x presence x **kwargs), observed on the real _call_tensorfactory through the traced Call node"""
    import einx._src.tracer as tracer
    from einx._src.adapter.namedtensor_calltensorfactory import _call_tensorfactory
    from einx._src.namedtensor import NamedTensor
    import einx._src.namedtensor.stage3 as s3

    P = inspect.Parameter
    kinds = [None, P.POSITIONAL_ONLY, P.POSITIONAL_OR_KEYWORD, P.KEYWORD_ONLY]
    n, fails = 0, []
    expr = s3.List.create([s3.Axis("a", 2), s3.Axis("b", 3)])
    for kn, ka, ks, varkw in itertools.product(kinds, kinds, kinds, (False, True)):
        params = {"shape": P("shape", P.POSITIONAL_OR_KEYWORD)}
        for nm, k in (("name", kn), ("arg_index", ka), ("signature", ks)):
            if k is not None:
                params[nm] = P(nm, k)
        if varkw:
            params["kw"] = P("kw", P.VAR_KEYWORD)
        t = tracer.signature.classical.ConvertibleTensor(None, shape=(2, 3), concrete=types.SimpleNamespace(type=types.FunctionType, parameters=params))
        with tracer.depend_on(t):
            out, e, called = _call_tensorfactory(NamedTensor(t, expr), {"name": "op", "arg_index": 0, "signature": 1})
        n += 1
        got = set(out.origin.kwargs) if called else None
        want = {nm for nm, k in (("name", kn), ("arg_index", ka), ("signature", ks)) if varkw or k in (P.POSITIONAL_OR_KEYWORD, P.KEYWORD_ONLY)}
        okk = called and got == want and list(out.origin.args) == [(2, 3)]
        if not okk:
            fails.append(f"parameters {[(a, str(b.kind)) for a, b in params.items()]}: forwarded {got}, args {getattr(out.origin, 'args', None) if called else None}; documented {sorted(want)} with positional shape (2, 3)")
    return n, fails


def default_valued_factories():
    """'on every execution (first call and every cached repeat alike)': factories whose optional parameters have array / list / nan / None defaults (they enter the graph cache key
    through the recorded signature) - three executions each, two factories that differ only in the default must not share a compiled function's result"""
    import einx
    out = []
    x = np.ones((2, 3))
    defaults = [np.zeros(3), np.ones(3), [1, 2], float("nan"), None, np.float32(1.5), (np.zeros(2), "s"), {"k": np.arange(2)}]
    for i, dflt in enumerate(defaults):
        calls = []

        def fac(shape, init=dflt, _i=i):
            calls.append(shape)
            return np.full(shape, float(_i))

        d = {"op": "add", "description": "a b, b", "shapes": [[2, 3], "factory"], "factory_positions": [1], "factory_kinds": [f"default={type(dflt).__name__}"]}
        bad = None
        for rep in range(3):
            o = harness.outcome(lambda: einx.add("a b, b", x, fac), 20)
            if o[0] != "ok":
                bad = f"execution {rep + 1} of a factory with a default of type {type(dflt).__name__} fails: {o[1:]}"
                break
            if not np.array_equal(o[1], np.full((2, 3), 1.0 + i)) or len(calls) != rep + 1 or calls[-1] != (3,):
                bad = f"execution {rep + 1}: result {np.asarray(o[1]).tolist()} / {len(calls)} factory calls with {calls[-1:]} (expected the value of THIS factory, one call per execution with shape (3,))"
                break
        out.append((("exception" if bad and "fails" in bad else "mismatch") if bad else "ok", d, bad))
    return out


def run(tier, seed):
    chk = Check("C13", tier, seed, "other")
    ok, sites, failing = frame.rule_flow_api()
    chk.add_rule("C13.S.compiled_function_called_only_at_run_time", ok, sites, failing)
    from ..kernels import c13_factory, c13_call
    from ..kernels.base import run_kernel
    for k in c13_factory.KERNELS + c13_call.KERNELS:
        chk.add_kernel(run_kernel(k, tier))
    n, fails = kwargs_predicate_complete()
    chk.add_rule("C13.P.kwargs", not fails and n == 128, [f"{n} signature classes (kinds of name/arg_index/signature x **kwargs): exhaustive over the finite domain"], fails[:3], "keyword-forwarding predicate, complete enumeration on the real _call_tensorfactory")
    m = 10 if tier == "quick" else 400
    res = [x for r in harness.pmap(_work, [(seed, i) for i in range(m)]) for x in r] + default_valued_factories()
    fails = [r for r in res if r[0] not in ("ok", "skipped-underdetermined")]
    seen = set()
    for st, d, detail in fails:
        k = (st, (detail or "")[:30])
        if k in seen:
            continue
        seen.add(k)
        chk.violation(f"C13.B.{st}", f"einx.{d['op']}({d['description']!r}, shapes={d['shapes']}, factories at {d['factory_positions']} of kinds {d['factory_kinds']}): {detail or st}", replay={"kind": "case", "case": d}, found_input=True)
    cnt = {}
    for r in res:
        cnt[r[0]] = cnt.get(r[0], 0) + 1
    chk.add_bounded("recording factories in subsets of argument positions x 8 signature kinds x cold/warm/warm x graph=True x misbehaving outputs", f"{m} chunks x 12 templates x 3 position subsets",
                    len(res), len({(r[1]['op'], r[1]['description'], str(r[1]['factory_positions']), str(r[1]['factory_kinds'])) for r in res}), failures=fails, samples=[r[1] for r in res[:2]], note=f"{cnt}")
    chk.assumptions += ["only the numpy backend", "factories whose axes are not determined by the other arguments are rejected by einx and not judged further"]
    chk.explanation = "contracts on _call_tensorfactory/_assert_output evaluated at run time with recording factories; keyword-forwarding predicate decided completely over its finite domain; the compiled function (only holder of the concrete factory) is called only after the graph test (rule)"
    return chk
