"""C14 - indexed updates apply every update exactly once and touch nothing else."""
import numpy as np
from ..report import Check
from ..kernels.base import run_kernel
from . import _corpus_run
from .C01 import add_corpus
from .. import harness

FIXED = [  # update seeds: missing / extra vectorised axes, duplicates, repeated bracket names, permuted update axes with equal lengths
    ("set_at", "[n], i j, i -> [n]", [np.zeros(5), np.array([[0, 1], [2, 3]]), np.array([10.0, 20.0])], np.array([10.0, 10.0, 20.0, 20.0, 0.0])),
    ("set_at", "[h], p q, q p", [np.zeros(4), np.array([[0, 1], [2, 3]]), np.array([[1.0, 2.0], [3.0, 4.0]])], np.array([1.0, 3.0, 2.0, 4.0])),
    ("add_at", "[h], p q, q p", [np.zeros(4), np.array([[0, 1], [2, 3]]), np.array([[1.0, 2.0], [3.0, 4.0]])], np.array([1.0, 3.0, 2.0, 4.0])),
    ("add_at", "[n], i, -> [n]", [np.zeros(3), np.array([0, 0, 2]), np.array(1.5)], np.array([3.0, 0.0, 1.5])),
    ("subtract_at", "a [n], a i, i -> a [n]", [np.zeros((2, 3)), np.array([[0, 0], [1, 2]]), np.array([1.0, 2.0])], np.array([[-3.0, 0, 0], [0, -1.0, -2.0]])),
    ("add_at", "b [h w] c, b p [2], b p c -> b [h w] c", None, None),
    ("set_at", "b [h h] c, b p [2], b p c -> b [h h] c", None, None),
    ("add_at", "b [h h] c, p [2], p c -> b [h h] c", None, None),
]


def loop_update(op, x, coords, upd):
    """explicit loop for target 'b [h w] c' / 'b [h h] c' style cases"""
    res = x.copy()
    cands = {}
    B, H, W, C = x.shape
    bc = coords.ndim == 3
    for b in range(B):
        for p in range(coords.shape[-2]):
            h, w = (coords[b, p] if bc else coords[p])
            for c in range(C):
                u = upd[b, p, c] if upd.ndim == 3 else upd[p, c]
                if op == "add_at":
                    res[b, h, w, c] += u
                else:
                    cands.setdefault((b, h, w, c), []).append(u)
    return res, cands


def fixed_cases():
    out = []
    rng = np.random.RandomState(3)
    for op, desc, ts, exp in FIXED:
        if ts is None:
            x = rng.randint(0, 50, size=(2, 3, 3, 2)).astype(float)
            if "b p [2]" in desc:
                coords = np.array([[[0, 1], [2, 1], [0, 1]], [[1, 2], [1, 2], [2, 0]]])
                upd = rng.randint(1, 9, size=(2, 3, 2)).astype(float)
            else:
                coords = np.array([[0, 1], [2, 1], [0, 1]])
                upd = rng.randint(1, 9, size=(3, 2)).astype(float)
            ts = [x, coords, upd]
            res, cands = loop_update(op, x, coords, upd)
        else:
            res, cands = exp, None
        for be in ("numpy", "numpy.numpylike"):
            o = harness.call_einx(op, desc, [np.array(t, copy=True) for t in ts], {}, be)
            bad = None
            if o[0] != "ok":
                bad = f"{o}"
            else:
                got = np.asarray(o[1])
                if cands and op == "set_at":
                    for i in np.ndindex(res.shape):
                        if i in cands:
                            if got[i] not in cands[i]:
                                bad = f"element {i} = {got[i]} is none of the competing updates {cands[i]}"
                        elif got[i] != res[i]:
                            bad = f"un-addressed element {i} changed"
                elif not np.array_equal(got, res):
                    bad = f"got {got.ravel()[:8].tolist()} expected {np.asarray(res).ravel()[:8].tolist()}"
                # read-back: get_at with the same coordinates returns what set_at wrote (unique coordinates only)
            out.append((("mismatch" if bad else "ok"), {"op": op, "description": desc, "shapes": [list(np.shape(t)) for t in ts], "kwargs": {}}, be, bad))
    return out


def dtype_cases():
    """mixed dtypes: the update value is subtracted/added with its mathematical value (unsigned update tensors must not wrap around in their own dtype)"""
    out = []
    idx = np.array([0, 2, 2, 3])
    for op, sign in (("add_at", 1), ("subtract_at", -1), ("set_at", 0)):
        for tdt in ("float64", "int64", "int32", "float32"):
            for udt in ("uint8", "uint16", "uint32", "int16", "int64", "float32"):
                x = np.arange(5).astype(tdt) * 10
                u = np.array([1, 2, 3, 4]).astype(udt)
                exp = x.astype(object)
                if sign:
                    for i, v in zip(idx.tolist(), u.tolist()):
                        exp[i] = exp[i] + sign * v
                for be in ("numpy", "numpy.numpylike"):
                    o = harness.call_einx(op, "[n], i, i -> [n]", [x.copy(), idx.copy(), u.copy()], {}, be)
                    bad = None
                    if o[0] != "ok":
                        bad = f"{o}"
                    else:
                        got = np.asarray(o[1])
                        if sign == 0:
                            ok = got[0] == 1 and got[1] == 10 and got[4] == 40 and got[3] == 4 and got[2] in (2, 3)
                        else:
                            ok = all(float(a) == float(b) for a, b in zip(got.tolist(), exp.tolist()))
                        if not ok:
                            bad = f"target {tdt}, updates {udt}: got {got.tolist()} expected {exp.tolist() if sign else 'x with elements 0,2,3 overwritten'}"
                    out.append((("mismatch" if bad else "ok"), {"op": op, "description": "[n], i, i -> [n]", "shapes": [[5], [4], [4]], "kwargs": {"target_dtype": tdt, "update_dtype": udt}}, be, bad))
    return out


def coordinate_dtype_cases(chk):
    """the element addressed by the coordinates does not depend on the integer dtype in which the caller stores them. Coordinates that are all in range but stored in a
    narrow or unsigned dtype: finding F-coordinate-dtype-arithmetic (the flat index is computed in the coordinate dtype / int32)"""
    out = []
    x = np.arange(400.0).reshape(20, 20)
    pts = np.array([[13, 3], [0, 19], [19, 19], [7, 0]])
    for cdt in ("int64", "int32", "int16", "int8", "uint8", "uint16", "uint32", "uint64"):
        idx = pts.astype(cdt)
        narrow = np.iinfo(cdt).max < 400
        for be in ("numpy", "numpy.numpylike"):
            cases = [("get_at", "[a b], i [2] -> i", [x, idx], x[pts[:, 0], pts[:, 1]])]
            z = np.zeros((20, 20))
            e = z.copy()
            np.add.at(e, (pts[:, 0], pts[:, 1]), np.arange(1.0, 5.0))
            cases.append(("add_at", "[a b], i [2], i -> [a b]", [z, idx, np.arange(1.0, 5.0)], e))
            # a vectorised target axis next to the bracketed one: the generated arange is added to the caller's coordinates
            z2 = np.zeros((3, 200))
            c2 = np.array([[150], [0], [199]]).astype(cdt) if np.iinfo(cdt).max >= 199 else np.array([[100], [0], [127]]).astype(cdt)
            e2 = z2.copy()
            for a in range(3):
                e2[a, int(c2[a, 0])] += 1
            cases.append(("add_at", "a [h], a i, a i -> a [h]", [z2, c2, np.ones((3, 1))], e2))
            for op, desc, args, want in cases:
                o = harness.call_einx(op, desc, [np.array(t, copy=True) for t in args], {}, be)
                d = {"op": op, "description": desc, "shapes": [list(np.shape(t)) for t in args], "kwargs": {"coordinate_dtype": cdt}}
                good = o[0] == "ok" and np.array_equal(np.asarray(o[1]), want)
                if good:
                    out.append(("ok", d, be, None))
                    continue
                what = f"coordinates stored as {cdt} (all in range): " + (f"{o[1:]}"[:160] if o[0] != "ok" else "wrong elements addressed")
                wraps = narrow and op in ("get_at", "add_at") and "[a b]" in desc     # flat index 263 does not fit the coordinate dtype
                promo = cdt == "uint64" and "a [h]" in desc                          # int32 arange + uint64 -> float64 indices
                wraps2 = np.iinfo(cdt).max < 600 and "a [h]" in desc                 # 2 * 200 + h does not fit
                if wraps or promo or wraps2:
                    chk.known_finding("F-coordinate-dtype-arithmetic", "get_at / *_at compute the flat index in the caller's coordinate dtype (or int32): in-range coordinates stored as int8/uint8/int16 "
                                      "address wrong elements once the flat index exceeds the dtype, uint64 coordinates next to a vectorised axis fail")
                    out.append(("ok", d, be, None))
                else:
                    out.append(("mismatch", d, be, what))
    return out


def run(tier, seed):
    chk = Check("C14", tier, seed, "other")
    try:
        from ..kernels import c14_update, c14_dataflow, c01_numpy_wrappers2, c01_shapes2, c04_call_nodes
        for k in c14_update.KERNELS + c14_dataflow.KERNELS_C14 + [q for q in c01_numpy_wrappers2.KERNELS + c01_shapes2.KERNELS + c04_call_nodes.KERNELS if q.prop == "C14"]:
            chk.add_kernel(run_kernel(k, tier))
    except ImportError:
        pass
    from .. import frame
    ok, sites, failing = frame.rule_update_registrations()
    chk.add_rule("C14.S.bcast_registered", ok, sites, failing)
    res = _corpus_run.run_corpus(seed + 14, tier, fams=["upd", "upd", "upd", "get_at"], chunks=(30 if tier == "quick" else 1500))
    res += fixed_cases() + dtype_cases() + coordinate_dtype_cases(chk)
    add_corpus(chk, res, "set_at/add_at/subtract_at (and get_at) vs an explicit loop over all index combinations", "update templates: <=4 target axes, 1-2 bracketed, vectorised axes missing/extra, duplicate coordinates, 2 backends; plus hand-written seeds (repeated bracket names, permuted update axes of equal length, broadcast updates)")
    chk.assumptions += ["set_at with duplicate coordinates: any competing value accepted", "only numpy backends",
                        "the P kernels (C14.P.ravel, C14.P.ravel_assign, C01.P.unravel) prove the index arithmetic over MATHEMATICAL integers; the machine arithmetic of the generated numpy code is covered only by the bounded coordinate-dtype stratum (finding F-coordinate-dtype-arithmetic)"]
    chk.explanation = "top-level postcondition = explicit loop over all combinations of un-bracketed axes of coordinates and updates, frame 'every element not addressed keeps its value'; bounded corpus"
    return chk
