"""C15 - adapted user functions follow loop-notation semantics; their outputs are checked."""
import functools
import numpy as np
from ..report import Check
from .. import corpus, harness
from ..corpus import cmp_arrays

RED_NP = {"sum": np.sum, "prod": np.prod, "max": np.max, "min": np.min, "mean": np.mean, "var": np.var, "std": np.std, "any": np.any, "all": np.all, "count_nonzero": np.count_nonzero}
ELW_NP = {"add": lambda *x: functools.reduce(np.add, x), "multiply": lambda *x: functools.reduce(np.multiply, x), "maximum": lambda *x: functools.reduce(np.maximum, x),
          "minimum": lambda *x: functools.reduce(np.minimum, x), "subtract": np.subtract, "less": np.less, "greater_equal": np.greater_equal, "equal": np.equal}


def _work(args):
    seed, idx = args
    import einx
    out = []
    for c in corpus.corpus(seed * 100003 + idx, 24, fams=["red", "elw"]):
        if "keepdims" in c.kwargs:
            continue
        log = []
        numeric = c.op not in ("any", "all", "less", "greater_equal", "equal", "count_nonzero")
        if c.fam == "reduce" and c.op in RED_NP:
            base = RED_NP[c.op]

            def user(x, axis, *, scale=1, ddof_like=None):
                log.append({"shape": tuple(x.shape), "axis": axis, "scale": scale})
                r = np.asarray(base(x, axis=axis))
                return np.asarray(r * scale) if numeric else np.asarray(r)

            wrong_shape = lambda x, axis: np.zeros((7, 7))  # noqa
            wrong_type = lambda x, axis: [1, 2]  # noqa
            adapted = einx.numpy.adapt_numpylike_reduce(user)
            kwname = "scale"
        elif c.fam == "elementwise" and c.op in ELW_NP:
            base = ELW_NP[c.op]

            def user(*xs, scale=1):
                log.append({"shapes": [tuple(np.shape(x)) for x in xs], "scale": scale})
                r = np.asarray(base(*xs))
                return np.asarray(r * scale) if numeric else np.asarray(r)

            wrong_shape = lambda *xs: np.zeros((7, 7, 7, 7, 7))  # noqa
            wrong_type = lambda *xs: "nope"  # noqa
            adapted = einx.numpy.adapt_numpylike_elementwise(user)
            kwname = "scale"
        else:
            continue
        d = dict(c.describe(), adapter=c.fam)
        exp = np.asarray(c.expect())
        if exp.dtype == object:
            exp = np.array(exp.tolist())
        status, detail = "ok", None
        for rep, scale in enumerate([1, 3, 1, 3] if numeric else [1, 1]):
            log.clear()
            o = harness.outcome(lambda: adapted(c.desc, *[t.copy() for t in c.tensors], **c.kwargs, **({kwname: scale} if numeric else {})))
            if o[0] != "ok":
                status, detail = "exception", f"{o[1:]}"
                break
            if len(log) != 1:
                status, detail = "call-count", f"user function called {len(log)} times in execution {rep}"
                break
            rec = log[0]
            if rec["scale"] != scale:
                status, detail = "kwarg-not-forwarded", f"keyword-only option scale={scale} arrived as {rec['scale']} (execution {rep}; cache?)"
                break
            if c.fam == "reduce":
                ax = rec["axis"]
                nb = sum(1 for t in c.desc.split("->")[0] if t == "[")
                if not (isinstance(ax, (tuple, int)) and all(isinstance(a, (int, np.integer)) and 0 <= a < len(rec["shape"]) for a in (ax if isinstance(ax, tuple) else (ax,)))):
                    status, detail = "axis-argument", f"axis={ax!r} for an input of shape {rec['shape']}"
                    break
                if int(np.prod(rec["shape"])) != int(np.prod(c.tensors[0].shape)):
                    status, detail = "whole-tensor", f"function received shape {rec['shape']} for an argument of shape {c.tensors[0].shape}"
                    break
            else:
                nds = {len(s) for s in rec["shapes"]}
                try:
                    np.broadcast_shapes(*rec["shapes"])
                    bc = True
                except ValueError:
                    bc = False
                if len(nds) != 1 or not bc:
                    status, detail = "elementwise-arguments", f"arguments of shapes {rec['shapes']} are not of equal rank / broadcast-compatible"
                    break
            e = exp * scale if numeric else exp
            r = cmp_arrays(o[1], e, c.exact)
            if r:
                status, detail = "mismatch", r
                break
        out.append((status, d, detail))
        # keyword-only names can never be used as axis names; wrong outputs must be rejected
        for what, fn in (("wrong shape", wrong_shape), ("wrong type", wrong_type)):
            ad2 = (einx.numpy.adapt_numpylike_reduce if c.fam == "reduce" else einx.numpy.adapt_numpylike_elementwise)(fn)
            o = harness.outcome(lambda: ad2(c.desc, *[t.copy() for t in c.tensors], **c.kwargs))
            out.append((("accepted-wrong-output", dict(d, returned=what), f"a user function returning a value of {what} was accepted") if o[0] == "ok" and np.asarray(o[1]).shape != (7, 7) or (o[0] == "ok" and np.asarray(exp).shape != np.asarray(o[1]).shape) else ("ok", d, None)))
        # name clash: description uses the keyword-only name as an axis
        clash = c.desc.replace("a", "scale") if "a" in c.desc.replace("->", "") else None
        if clash and numeric:
            o = harness.outcome(lambda: adapted(clash, *[t.copy() for t in c.tensors], **{("scale" if k == "a" else k): v for k, v in c.kwargs.items()}))
            if not (o[0] == "exc" and o[1] == "einx.errors.SemanticError"):
                out.append(("kwarg-captured-as-axis", dict(d, clash_description=clash), f"a description using the keyword-only name as axis gave {o[:2]} instead of SemanticError"))
            else:
                out.append(("ok", d, None))
    return out


def extra():
    """zero bracketed axes: the function is still called once with axis=()"""
    import einx
    out = []
    log = []

    def user(x, axis):
        log.append(axis)
        return np.asarray(np.sum(x, axis=axis) * 2)

    ad = einx.numpy.adapt_numpylike_reduce(user)
    for desc, shape in (("a b c", (2, 3, 4)), ("a (b c) d", (2, 6, 2))):
        log.clear()
        x = np.arange(int(np.prod(shape)), dtype=float).reshape(shape)
        o = harness.outcome(lambda: ad(desc, x, **({"b": 2} if "(" in desc else {})))
        d = {"op": "adapted reduce", "description": desc, "shapes": [list(shape)], "kwargs": {}, "adapter": "reduce"}
        if o[0] == "ok" and (len(log) != 1 or not np.array_equal(o[1], x * 2)):
            out.append(("call-count", d, f"description without bracketed axes: function called {len(log)} times, result {'unchanged input' if np.array_equal(o[1], x) else 'differs'}"))
        else:
            out.append(("ok", d, None))
    return out


def partial_options():
    """functions wrapped in functools.partial: an option bound BY KEYWORD in the partial is keyword-only in the partial's own signature; overriding it in the call must reach the function
    (and must not be taken for an axis size)"""
    import functools
    import einx
    out = []
    x = np.arange(6.0).reshape(2, 3)
    for adapter in ("reduce", "elementwise"):
        got = {}
        if adapter == "reduce":
            def user(t, axis, scale=1, *, opt="d"):
                got.update(scale=scale, opt=opt)
                return np.asarray(np.sum(t, axis=axis) * scale)
            ad = einx.numpy.adapt_numpylike_reduce(functools.partial(user, scale=2))
            call = lambda **kw: ad("a [b]", x, **kw)  # noqa
            ref = lambda sc: x.sum(1) * sc  # noqa
        else:
            def user(t, u, scale=1, *, opt="d"):  # noqa
                got.update(scale=scale, opt=opt)
                return np.asarray((t + u) * scale)
            ad = einx.numpy.adapt_numpylike_elementwise(functools.partial(user, scale=2))
            call = lambda **kw: ad("a b, a b", x, x, **kw)  # noqa
            ref = lambda sc: (x + x) * sc  # noqa
        for kw, want_scale in (({}, 2), ({"scale": 3}, 3), ({"scale": 5, "opt": "o"}, 5), ({"scale": 3}, 3), ({}, 2)):
            got.clear()
            o = harness.outcome(lambda: call(**kw))
            d = {"op": f"adapted {adapter} (functools.partial)", "description": "a [b]" if adapter == "reduce" else "a b, a b", "shapes": [[2, 3]], "kwargs": {k: repr(v) for k, v in kw.items()}, "adapter": adapter}
            if o[0] != "ok":
                out.append(("exception", d, f"{o[1:]}"[:200]))
            elif got.get("scale") != want_scale or not np.allclose(o[1], ref(want_scale)) or got.get("opt") != kw.get("opt", "d"):
                out.append(("kwarg-not-verbatim", d, f"the function behind functools.partial(..., scale=2) called with {kw} received {got} (expected scale={want_scale})"))
            else:
                out.append(("ok", d, None))
    return out


def kw_verbatim():
    """keyword-only options reach the user function verbatim (same type, equal value), cold and on a cache hit, for both numpy adapters"""
    import einx
    out = []
    values = [3, 2.5, True, "mode", None, (1, 2), np.float32(2.0), np.int64(7), -1, 0, False, 1, 0.0,
              [1, 2], (1, [2]), {"k": [1]}, np.asarray([1, 2]), {"k": 1},
              # values that have to survive being printed into the generated source (repaired by fix 5d7ec05)
              "a\\nb", 'q"uote', "new\nline", "tab\there", "it's", "", "\\", "uni\u00e9\U0001F600", float("inf"), -float("inf"), float("nan"), (1, "x\\t"), 1e308, 5e-324, 2 ** 70, -0.0]
    x = np.arange(6.0).reshape(2, 3)
    for adapter in ("reduce", "elementwise"):
        got = {}
        if adapter == "reduce":
            def user(t, axis, *, opt="<the function's own default>"):
                got["opt"] = opt
                return np.asarray(np.sum(t, axis=axis))
            ad, call = einx.numpy.adapt_numpylike_reduce(user), (lambda v: ad("a [b]", x, opt=v))
        else:
            def user(t, u, *, opt="<the function's own default>"):  # noqa
                got["opt"] = opt
                return np.asarray(t + u)
            ad, call = einx.numpy.adapt_numpylike_elementwise(user), (lambda v: ad("a b, a b", x, x, opt=v))
        for v in values + values:  # second round: cache hits
            got.clear()
            o = harness.outcome(lambda: call(v))
            d = {"op": f"adapted {adapter}", "description": "a [b]" if adapter == "reduce" else "a b, a b", "shapes": [[2, 3]], "kwargs": {"opt": repr(v)}, "adapter": adapter}
            if o[0] != "ok":
                out.append(("exception", d, f"{o[1:]}"))
                continue
            r = got.get("opt", "<not called>")
            same = type(r) is type(v) and (np.array_equal(r, v) if isinstance(v, np.ndarray) else (r == v or (isinstance(v, float) and v != v and r != r)))
            if same and isinstance(v, float) and v == 0:
                same = str(r) == str(v)  # sign of zero
            if same:
                out.append(("ok", d, None))
            else:
                mutable = any(isinstance(q, (list, np.ndarray, np.generic)) for q in _leaves(v))
                out.append(("kwarg-frozen" if mutable and _thaw_equal(r, v) else "kwarg-not-verbatim", d, f"keyword-only option opt={v!r} ({type(v).__name__}) arrived as {r!r} ({type(r).__name__})"))
    return out


def _leaves(v):
    yield v
    if isinstance(v, (list, tuple)):
        for q in v:
            yield from _leaves(q)
    elif isinstance(v, dict):
        for q in v.values():
            yield from _leaves(q)


def _thaw_equal(r, v):
    """r equals v up to list/ndarray -> tuple and numpy scalar -> Python scalar conversion (the recorded finding F-kwargs-frozen), nothing else"""
    if isinstance(v, np.ndarray):
        v = v.tolist()
    if isinstance(v, np.generic):
        return type(r) is type(v.item()) and r == v.item()
    if isinstance(v, (list, tuple)):
        return isinstance(r, tuple) and len(r) == len(v) and all(_thaw_equal(a, b) for a, b in zip(r, v))
    if isinstance(v, dict):
        return isinstance(r, dict) and r.keys() == v.keys() and all(_thaw_equal(r[k], v[k]) for k in v)
    return type(r) is type(v) and r == v


def iskwarg_complete():
    """C15.P.iskwarg: _make_iskwarg over the finite domain of parameter kinds, incl. functions sharing a code object through functools.wraps"""
    import inspect
    from einx._src.frontend.impl._util import _make_iskwarg
    fails, n = [], 0

    def deco(g):
        @functools.wraps(g)
        def w(*a, **k):
            return g(*a, **k)
        return w

    def f1(x, axis, *, ddof=0): ...
    def f2(x, axis, *, power=2, eps=0): ...
    def f3(x, axis): ...
    def f4(x, axis, ddof=0): ...
    for fn, kws in ((f1, {"ddof"}), (f2, {"power", "eps"}), (f3, set()), (f4, set()), (deco(f1), {"ddof"}), (deco(f2), {"power", "eps"}), (deco(f3), set()), (deco(f1), {"ddof"})):
        pred = _make_iskwarg(fn)
        for name in ("ddof", "power", "eps", "axis", "x", "a"):
            n += 1
            if bool(pred(name)) != (name in kws):
                fails.append(f"_make_iskwarg({fn.__name__} with keyword-only {sorted(kws)})({name!r}) = {pred(name)}")
    try:
        def f5(x, **kw): ...
        _make_iskwarg(f5)
        fails.append("a var-keyword function is accepted")
    except ValueError:
        n += 1
    return n, fails


def run(tier, seed):
    chk = Check("C15", tier, seed, "other")
    from ..kernels import c01_argfind, c14_dataflow, c15_ensure, c15_split
    from ..kernels.base import run_kernel
    for k in c01_argfind.KERNELS_C15 + c14_dataflow.KERNELS_C15 + c15_ensure.KERNELS + c15_split.KERNELS:
        chk.add_kernel(run_kernel(k, tier))
    n, fails = iskwarg_complete()
    chk.add_rule("C15.P.iskwarg", not fails, [f"{n} (function, name) pairs incl. functools.wraps-decorated functions sharing one code object"], fails[:3])
    m = 8 if tier == "quick" else 400
    res = [x for r in harness.pmap(_work, [(seed, i) for i in range(m)]) for x in r] + extra() + kw_verbatim() + partial_options()
    fails = [r for r in res if r[0] != "ok"]
    seen = set()
    for st, d, detail in fails:
        if st == "kwarg-frozen":
            chk.known_finding("F-kwargs-frozen", "list / ndarray valued keyword-only options reach the adapted function as (nested) tuples (frozen for the cache key) and numpy scalars as Python scalars of equal value, e.g. opt=[1, 2] arrives as (1, 2), opt=np.float32(2) as 2.0")
            continue
        if st in seen:
            continue
        seen.add(st)
        chk.violation(f"C15.B.{st}", f"adapted {d['adapter']} function called as ({d['description']!r}, shapes={d['shapes']}, {d['kwargs']}): {detail}", replay={"kind": "case", "case": d}, found_input=True)
    chk.add_bounded("recording user functions through adapt_numpylike_reduce / adapt_numpylike_elementwise vs the loop interpreter (values, call count, axis=, equal-rank broadcastable arguments, keyword-only forwarding across cache hits, name clashes, wrong outputs)",
                    f"{m} chunks x 24 templates", len(res), len({(r[1]['description'], str(r[1]['shapes'])) for r in res}), failures=fails, samples=[r[1] for r in res[:2]])
    chk.assumptions += ["adapt_with_vmap: no framework with vmap is importable here - NOT decided", "only the numpy adapters"]
    chk.explanation = "contracts on the adapter entry points evaluated at run time with argument-recording user functions (bounded); unbounded: the axis= argument (_expr_to_axis: positions of the bracketed children, all ranks) and the finite keyword-only predicate"
    return chk
