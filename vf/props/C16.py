"""C16 - reproducible across processes, hash seeds, repetitions."""
import json
import os
import subprocess
import sys
from ..report import Check, ROOT
from .. import frame, harness

# set-iteration sites that no syntactic pattern and no P kernel discharges; each is an explicit *assumption* with a bounded stand-in (the multi-seed digest)
ASSUMED_SITES = {
    "einx/_src/namedtensor/stage2/solve.py:axisnames_in_equation:list()": "the list is only compared with a one-element list ([axis_name] != ...): order cannot matter",
}
ASSUMED_SITES["einx/_src/util/solver.py:solve:iter()"] = "next(iter(class_constants)) picks an arbitrary constant only when the class has several different constants, in which case the variables are recorded as contradicting and solve() raises SolveExceptionNoSolution"
KNOWN_SITES = {"einx/_src/util/solver.py:solve:list()": "F-solver-order-hang"}
PROVED_SITES = {"einx/_src/namedtensor/stage1/parse.py:<module>:list()": "C16.P.literals", "einx/_src/frontend/backend.py:_get_by_tensors:list()": "C11.P.priority (result is the set of maximal candidates; it is only used when it is a singleton, otherwise it feeds an exception message)"}


def literals_prefix_free():
    """C16.P.literals: on the real module constant, no literal is a proper prefix of another, so the first match of the lexer's for-loop does not depend on list(set) order.
    '...' vs '->' etc. Decided by exhaustive comparison of the (finite) constant."""
    import einx._src.namedtensor.stage1.parse as P
    lits = list(P._literals)
    bad = [(a, b) for a in lits for b in lits if a != b and b.startswith(a)]
    return lits, bad


def _run_seed(args):
    seed, cseed, n = args
    env = dict(os.environ, PYTHONHASHSEED=str(seed), PYTHONPATH=(os.environ.get("EINX_VERIF_REPO", "") + os.pathsep + ROOT).lstrip(os.pathsep))
    r = subprocess.run([sys.executable, "-m", "vf.props._digest", str(cseed), str(n)], capture_output=True, text=True, env=env, cwd=ROOT, timeout=3000)
    return seed, [json.loads(l) for l in r.stdout.splitlines() if l.startswith("{")], r.stderr[-500:] if r.returncode else ""


def rule_no_global_rng():
    """no use of the global pseudo-random generators (module `random`, `numpy.random`) in einx code (docstring examples are not code)"""
    import ast
    sites, failing = [], []
    for f in frame.all_files():
        t = ast.parse(open(f).read())
        r = frame.rel(f)
        for n in ast.walk(t):
            if isinstance(n, ast.Import) and any(a.name.split(".")[0] == "random" for a in n.names) or isinstance(n, ast.ImportFrom) and (n.module or "").split(".")[0] == "random":
                sites.append(f"{r}:{n.lineno}:import random")
                failing.append(f"{r}:{n.lineno}: imports the global `random` module")
            if isinstance(n, ast.ImportFrom) and (n.module or "") in ("numpy.random",) or isinstance(n, ast.Import) and any(a.name == "numpy.random" for a in n.names):
                failing.append(f"{r}:{n.lineno}: imports numpy.random")
            if isinstance(n, ast.Attribute) and n.attr == "random" and isinstance(n.value, ast.Name) and n.value.id in ("np", "numpy", "_np"):
                sites.append(f"{r}:{n.lineno}:{ast.unparse(n)}")
                failing.append(f"{r}:{n.lineno}: uses numpy's global random state ({ast.unparse(n)})")
    return not failing, sites, failing


def run(tier, seed):
    chk = Check("C16", tier, seed, "other")
    ok, sites, failing = frame.rule_setiter(proved_sites=list(PROVED_SITES) + list(ASSUMED_SITES) + list(KNOWN_SITES))
    chk.add_rule("C16.S.setiter", ok, sites, failing)
    if any(s.startswith("einx/_src/util/solver.py:") and s.endswith(":solve:list()") for s in sites):
        chk.known_finding("F-solver-order-hang", "util/solver.py:solve hands sympy list(set(equations)): completion time of unsolvable systems depends on PYTHONHASHSEED")
    ok, sites, failing = frame.rule_join_order()
    chk.add_rule("C16.S.join_order", ok, sites, failing)
    ok, sites, failing = frame.rule_no_name_order()
    chk.add_rule("C16.S.no_name_order", ok, sites, failing)
    ok, sites, failing = frame.rule_lock_reads()
    chk.add_rule("C16.S.lock_reads", ok, sites, failing, detail="the registry's public methods have one path: lock, delegate to BackendRegistryState, publish - no lock-free or memo-first shortcut")
    from .C06 import ALLOWED_WRITERS
    ok, sites, failing, _inv = frame.rule_shared(ALLOWED_WRITERS)
    chk.add_rule("C16.S.shared", ok, sites, failing, detail="'regardless of how many times or in which order it is repeated': no call-time writes to module-level state other than the registry, "
                 "the functools caches (whose transparency is C06) and thread-locals - a memo kept by einx itself (keyed by id(), __code__, text, ...) makes results depend on call order")
    ok, sites, failing = rule_no_global_rng()
    chk.add_rule("C16.S.no_global_rng", ok, sites, failing, detail="einx draws its internal identifiers from uuid4 (os.urandom): it must neither read nor advance the caller's random / numpy.random streams, "
                 "or a seeded tensor factory returns different values depending on whether the call was traced or served from the cache")
    lits, bad = literals_prefix_free()
    chk.add_rule("C16.P.literals", not bad and len(lits) >= 8, [f"_literals = {sorted(lits)}"], [f"literal {a!r} is a prefix of {b!r}" for a, b in bad], "first-match lexing must not depend on the order of list(set(...))")
    try:
        from ..kernels import c16_takeone
        from ..kernels.base import run_kernel
        for k in c16_takeone.KERNELS:
            chk.add_kernel(run_kernel(k, tier))
    except ImportError:
        pass
    seeds = list(range(8)) if tier == "quick" else list(range(32))
    n = 3 if tier == "quick" else 30
    res = harness.pmap(_run_seed, [(s, seed, n) for s in seeds], procs=min(len(seeds), 16))
    base = None
    diffs, total, graph_nonrepeat = [], 0, []
    for s, rows, err in res:
        if err and not rows:
            chk.checker_errors.append(f"digest child for seed {s} failed: {err}")
            continue
        if base is None:
            base = (s, rows)
            total = len(rows)
            continue
        if len(rows) != len(base[1]):
            chk.checker_errors.append(f"digest child for seed {s} produced {len(rows)} rows instead of {len(base[1])}")
            continue
        for a, b in zip(base[1], rows):
            if a["out"] != b["out"] or a["graph"] != b["graph"]:
                diffs.append((base[0], s, a, b))
        graph_nonrepeat += [r for r in rows if not r["graph_repeat_identical"]]
    seen = set()
    for s0, s1, a, b in diffs:
        key = (a["op"], a["desc"])
        if key in seen:
            continue
        seen.add(key)
        if "timeout" in (a["out"][0], b["out"][0]):
            chk.known_finding("F-solver-order-hang", f"einx.{a['op']}({a['desc']!r}) completes under one hash seed and exceeds the alarm under another")
            continue
        chk.violation("C16.B.seed_independent", f"einx.{a['op']}({a['desc']!r}, shapes={a['shapes']}, {a['kw']}) differs between PYTHONHASHSEED={s0} ({a['out']}, graph {a['graph']}) and {s1} ({b['out']}, graph {b['graph']})",
                      replay={"kind": "case", "case": {"op": a["op"], "description": a["desc"], "shapes": a["shapes"], "seeds": [s0, s1]}}, found_input=True)
    for r in graph_nonrepeat[:3]:
        chk.violation("C16.B.graph_text_repeatable", f"two graph=True requests for einx.{r['op']}({r['desc']!r}) in one process returned different text", replay={"kind": "case", "case": r}, found_input=True)
    # repetition / order independence within one process: the same labelled calls in four orders (forward, reversed, each twice, interleaved + forward)
    hist = {}
    for mode in ("fwd", "rev", "twice", "interleaved"):
        env = dict(os.environ, PYTHONHASHSEED="0", PYTHONPATH=(os.environ.get("EINX_VERIF_REPO", "") + os.pathsep + ROOT).lstrip(os.pathsep))
        r = subprocess.run([sys.executable, "-m", "vf.props._digest", "0", "0", mode], capture_output=True, text=True, env=env, cwd=ROOT, timeout=1200)
        rows = [json.loads(l) for l in r.stdout.splitlines() if l.startswith("{")]
        if r.returncode or not rows:
            chk.checker_errors.append(f"history digest child ({mode}) failed: {r.stderr[-300:]}")
        for row in rows:
            hist.setdefault(row["history_label"], {}).setdefault(json.dumps(row["out"]), []).append(mode)
    hfails = []
    for label, outs in hist.items():
        if len(outs) > 1:
            hfails.append(label)
            chk.violation("C16.B.order_independent", f"the call `{label}` has different outcomes depending on the order / repetition of the calls in one process: { {k: sorted(set(v)) for k, v in outs.items()} }",
                          replay={"kind": "case", "case": {"label": label, "outcomes": {k: sorted(set(v)) for k, v in outs.items()}}}, found_input=True)
    chk.add_bounded("labelled calls with constants / tensor factories evaluated in four orders and repetitions within one process", "10 calls x 4 orders", sum(len(m) for o in hist.values() for m in o.values()), len(hist), failures=hfails)
    chk.add_bounded("digest of results / exception classes / alpha-normalised code across PYTHONHASHSEED", f"{len(seeds)} seeds x {total} calls", total * len(seeds), total, failures=diffs, samples=(base[1][:2] if base else []))
    chk.assumptions += [f"set-iteration site {k}: {v}" for k, v in ASSUMED_SITES.items()] + ["sympy's result for a uniquely solvable system does not depend on the order of equations (trusted; sampled by the digest)", "equality across processes beyond the sampled seeds is not decided"]
    chk.explanation = "determinism obligations on every set-iteration site (syntactic rule with discharge patterns; sites without a pattern need a P proof or are listed as assumptions), plus a bounded digest across hash seeds"
    return chk
