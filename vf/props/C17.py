"""C17 - generated code is loop-free and size-generic."""
import ast
import numpy as np
from ..report import Check
from .. import frame, corpus, harness

ALLOWED_STMT = (ast.Import, ast.ImportFrom, ast.FunctionDef, ast.Assign, ast.AugAssign, ast.Expr, ast.Assert, ast.Return)
FORBIDDEN = (ast.For, ast.While, ast.If, ast.IfExp, ast.ListComp, ast.SetComp, ast.DictComp, ast.GeneratorExp, ast.Lambda, ast.Try, ast.With, ast.AsyncFor, ast.comprehension, ast.Yield, ast.Await, ast.ClassDef)


def skeleton(code):
    t = ast.parse(code)
    bad = [type(n).__name__ for n in ast.walk(t) if isinstance(n, FORBIDDEN)]
    for n in ast.walk(t):
        if isinstance(n, ast.stmt) and not isinstance(n, ALLOWED_STMT):
            bad.append(type(n).__name__)
    ncalls = sum(isinstance(n, ast.Call) for n in ast.walk(t))

    class Z(ast.NodeTransformer):
        def visit_Constant(self, n):
            if isinstance(n.value, int) and not isinstance(n.value, bool):
                return ast.copy_location(ast.Constant(0), n)
            return n

        def visit_UnaryOp(self, n):
            self.generic_visit(n)
            if isinstance(n.op, ast.USub) and isinstance(n.operand, ast.Constant):
                return n.operand
            return n

    return ast.dump(Z().visit(t)), bad, ncalls


def _work(args):
    seed, idx = args
    g = corpus.Gen(seed * 100003 + idx)
    out = []
    for _ in range(16):
        try:
            fam, (names, inst) = g.template()
        except (ValueError, IndexError):
            continue
        base = g.sizes_for(names)
        variants = [base]
        for f in (2, 3, 7):
            variants.append({k: (v if v == 1 else v * f) for k, v in base.items()})
        variants.append({k: (v if v == 1 else v * g.rng.choice([2, 3, 5])) for k, v in base.items()})
        # equalities between axis lengths must not matter either: one assignment with all non-1 lengths equal, one with all of them pairwise distinct
        variants.append({k: (v if v == 1 else 3) for k, v in base.items()})
        variants.append({k: (v if v == 1 else 2 + i) for i, (k, v) in enumerate(sorted(base.items()))})
        variants.append({k: (v if v == 1 else 2 + len(base) - i) for i, (k, v) in enumerate(sorted(base.items()))})  # every pair of axes also in the opposite length order
        texts = []
        case0 = None
        for sz in variants:
            try:
                c = inst(sz, g)
            except Exception as e:  # generator cannot instantiate this size assignment (e.g. coordinates): skip variant
                continue
            case0 = case0 or c
            for be in c.backends:
                o = harness.call_einx(c.op, c.desc, c.tensors, dict(c.kwargs, graph=True), be)
                texts.append((be, sz, c, o))
        by_be = {}
        for be, sz, c, o in texts:
            by_be.setdefault(be, []).append((sz, c, o))
        for be, rows in by_be.items():
            sk0 = None
            for sz, c, o in rows:
                if o[0] != "ok" or not isinstance(o[1], str):
                    if o[0] == "exc" and o[1].endswith("OperationNotSupportedError"):
                        continue
                    out.append(("no-text", dict(c.describe(), backend=be), f"{o[:2]}"))
                    continue
                try:
                    sk, bad, ncalls = skeleton(o[1])
                except SyntaxError as e:
                    out.append(("unparsable", dict(c.describe(), backend=be), str(e)))
                    continue
                if bad:
                    out.append(("control-flow", dict(c.describe(), backend=be, code=o[1]), f"generated code contains {sorted(set(bad))}"))
                if sk0 is None:
                    sk0 = (sk, ncalls, sz, o[1])
                    out.append(("ok", dict(c.describe(), backend=be), None))
                elif sk != sk0[0]:
                    out.append(("size-dependent", dict(c.describe(), backend=be, sizes_a={k: int(v) for k, v in sk0[2].items()}, sizes_b={k: int(v) for k, v in sz.items()}, code_a=sk0[3], code_b=o[1],
                                                       replay={"fn": "vf.props.C17:replay", "args": [seed, idx, c.op, c.desc]}),
                                f"structure of the generated code differs between two size assignments that agree on which axes have length 1 ({sk0[1]} vs {ncalls} calls)"))
                else:
                    out.append(("ok", dict(c.describe(), backend=be), None))
    return out


def huge_sizes():
    """size-genericity does not stop at 2**31: the same descriptions on zero-stride views with a few and with billions of elements (graph=True only, nothing is executed)"""
    out = []
    z = np.zeros(())
    for op, desc, small, big in [("get_at", "a [h], a p -> a p", [(3, 4), (3, 2)], [(3, 2 ** 30), (3, 2)]), ("add_at", "a [h], p, p -> a [h]", [(3, 4), (2,), (2,)], [(3, 2 ** 30), (2,), (2,)]),
                                 ("set_at", "a [h] b, p, p -> a [h] b", [(2, 4, 3), (2,), (2,)], [(2 ** 16, 2 ** 15, 3), (2,), (2,)]), ("get_at", "[h w], p [2] -> p", [(5, 6), (3, 2)], [(2 ** 16, 2 ** 16 + 1), (3, 2)]),
                                 ("sum", "a [b] c", [(2, 3, 4)], [(2 ** 11, 2 ** 11, 2 ** 10)]), ("id", "a (b c) -> (a b) c", [(2, 12)], [(2 ** 10, 2 ** 22)])]:
        texts = []
        for shapes in (small, big):
            ts = [np.broadcast_to(z, s) if i == 0 or op in ("sum", "id") else np.broadcast_to(np.zeros((), dtype=int), s) if i < len(shapes) - (0 if op == "get_at" else 1) else np.broadcast_to(z, s) for i, s in enumerate(shapes)]
            kw = {"c": 4} if op == "id" else {}
            for be in ("numpy", "numpy.numpylike"):
                o = harness.call_einx(op, desc, ts, dict(kw, graph=True), be)
                texts.append((be, shapes, o))
        for be in ("numpy", "numpy.numpylike"):
            rows = [(sh, o) for b, sh, o in texts if b == be]
            d = {"op": op, "description": desc, "shapes": [list(s) for s in big], "kwargs": {}, "backend": be}
            if any(o[0] != "ok" or not isinstance(o[1], str) for _, o in rows):
                if all(o[0] == "exc" and o[1].endswith("OperationNotSupportedError") for _, o in rows):
                    continue
                out.append(("no-text", d, f"{[o[:2] for _, o in rows]}"[:200]))
                continue
            sk = [skeleton(o[1])[0] for _, o in rows]
            out.append(("ok", d, None) if sk[0] == sk[1] else ("size-dependent", dict(d, code_a=rows[0][1][1], code_b=rows[1][1][1]), "structure (or a non-integer literal) of the generated code differs between a tensor of a few and one of billions of elements"))
    return out


def replay(seed, idx, op, desc):
    for r in _work((seed, idx)):
        if r[0] != "ok" and r[1]["op"] == op:
            return f"{r[0]}: einx.{r[1]['op']}({r[1]['description']!r}, backend={r[1].get('backend')!r}): {r[2]}"
    return None


def run(tier, seed):
    chk = Check("C17", tier, seed, "other")
    from ..kernels import c01_numpy_wrappers
    from ..kernels.base import run_kernel
    # 'the number of backend calls is fixed by the description and never grows with tensor sizes': every numpy wrapper is proved to call its numpy function exactly once (n-ary
    # operations: once per operand pair), whatever the VALUES of its arguments are - the kernels of the wrapper layer are re-run here under that reading
    from ..kernels import c01_numpy_wrappers2, c01_preserve_shape, c09_np_elementwise, c09_nary
    wrappers = list(c01_numpy_wrappers.KERNELS) + [q for q in c01_numpy_wrappers2.KERNELS if "np_" in q.id] + [q for q in c01_preserve_shape.KERNELS if "np_" in q.id] + c09_np_elementwise.KERNELS + c09_nary.KERNELS
    for k in wrappers:
        chk.add_kernel(run_kernel(k, tier))
    ok, sites, failing = frame.rule_join_order()
    chk.add_rule("C17.S.join_order", ok, sites, failing)
    ok, sites, failing = frame.rule_template()
    chk.add_rule("C17.S.template", ok, sites, failing)
    n = 10 if tier == "quick" else 400
    res = [x for r in harness.pmap(_work, [(seed, i) for i in range(n)]) for x in r] + huge_sizes()
    fails = [r for r in res if r[0] != "ok"]
    seen = set()
    for st, d, detail in fails:
        k = (d["op"], st)
        if k in seen:
            continue
        seen.add(k)
        chk.violation(f"C17.B.{st}[{d['op']}]", f"einx.{d['op']}({d['description']!r}, shapes={d['shapes']}, backend={d.get('backend')!r}, graph=True): {detail}", replay={"kind": "case", "case": d}, found_input=True)
    chk.add_bounded("AST node types of every generated text; skeleton (integer literals blanked) equal across size assignments agreeing on the length-1 axes",
                    f"{n} chunks x 16 templates x 5 size assignments (x1, x2, x3, x7, random per-axis factor) x backends", len(res), len({(r[1]['op'], r[1]['description']) for r in res}), failures=fails, samples=[r[1] for r in res[:2]])
    chk.assumptions += ["only numpy backends; descriptions beyond the corpus bound are not decided"]
    chk.explanation = "template grammar of the code generator (syntactic rule: no emitter template contains a loop/branch/comprehension keyword) + relational postcondition 'sizes only change integer literals' evaluated on a bounded corpus"
    return chk
