"""child of C06: executes a history of pool calls (indices from argv[1] as JSON) in ONE fresh interpreter and prints the outcome of each"""
import hashlib
import json
import sys
import warnings
import numpy as np

warnings.simplefilter("ignore")


def pool():
    import einx
    A = lambda *s: np.arange(int(np.prod(s)), dtype=float).reshape(s)  # noqa
    x23 = A(2, 3)

    def fac(shape):
        return np.ones(shape)

    def fac_named(shape, name=None):
        return np.full(shape, 2.0)

    def bad_fac(shape):
        return np.ones((7,))

    def raising_fac(shape):
        raise RuntimeError("factory failed")

    def with_blocks():
        with einx.backend.get("numpy.einsum"):
            a = einx.sum("a [b]", x23, graph=True)
            with einx.backend.get("numpy"):
                b = einx.sum("a [b]", x23, graph=True)
            c = einx.sum("a [b]", x23, graph=True)
        d = einx.sum("a [b]", x23, graph=True)
        return [a, b, c, d]

    def with_raise():
        try:
            with einx.backend.get("numpy.einsum"):
                einx.id("a b -> a c", x23)
        except Exception:
            pass
        return einx.sum("a [b]", x23, graph=True)

    def invalid_backend_block():
        """a framework module that imports but whose backend cannot be built: entering its (invalid) backend in a with-block must leave no trace"""
        import sys
        import types
        stub = "jax" not in sys.modules
        if stub:
            sys.modules["jax"] = types.ModuleType("jax")
        try:
            try:
                b = einx.backend.get("jax")
                with b:
                    pass
            except Exception as e:  # noqa
                pass
            return einx.sum("a [b]", x23, graph=True)
        finally:
            if stub:
                sys.modules.pop("jax", None)

    def signed(x, y, *, opt=None):
        return np.asarray(np.copysign(x + y, opt))

    ad_signed = einx.numpy.adapt_numpylike_elementwise(signed)

    def typed(x, y, *, opt=None):
        return np.asarray(x + y + (100.0 if isinstance(opt, bool) else 10.0 if isinstance(opt, int) else 1.0) * (opt if opt is not None else 0))

    ad_typed = einx.numpy.adapt_numpylike_elementwise(typed)

    calls = [
        # keyword options that are == in Python but observably different (sign of zero, bool/int/float): a cache hit must not confuse them
        lambda: ad_signed("a b, a b", x23, x23, opt=0.0),
        lambda: ad_signed("a b, a b", x23, x23, opt=-0.0),
        lambda: ad_signed("a b, a b", x23, x23, opt=np.float32(-0.0)),
        lambda: ad_signed("a b, a b", x23, x23, opt=np.float32(0.0)),
        lambda: ad_signed("a b, a b", x23, x23, opt=[0.0, -0.0][1]),
        lambda: ad_typed("a b, a b", x23, x23, opt=1),
        lambda: ad_typed("a b, a b", x23, x23, opt=True),
        lambda: ad_typed("a b, a b", x23, x23, opt=1.0),
        lambda: einx.id("a b -> a b c", x23, c=2),
        lambda: einx.id("a b -> a b c", x23, c=2.0),
        lambda: einx.id("a b -> a b c", x23, c=True),
        lambda: einx.id("a b -> a b c", x23, c=np.int64(2)),
        lambda: einx.id("a b -> a b c", x23, c=1),
        lambda: einx.id("a b -> a b c", x23, c=1.0),
        lambda: einx.id("a b -> a b c...", x23, c=(2, 2)),
        lambda: einx.id("a b -> a b c...", x23, c=[2, 2]),
        lambda: einx.id("a b -> a b c...", x23, c=np.array([2, 2])),
        lambda: einx.id("a b -> a b c...", x23, c=np.array([2.0, 2.0])),
        lambda: einx.id("a b -> a b c...", x23, c=(2,)),
        lambda: einx.id("a b -> a b c...", x23, c=2),
        lambda: einx.add("a b, b", x23, np.ones(3)),
        lambda: einx.add("a b, b", x23, fac),
        lambda: einx.add("a b, b", x23, fac_named),
        lambda: einx.add("a b, b", x23, bad_fac),
        lambda: einx.add("a b, b", x23, raising_fac),
        lambda: einx.add("a b, ", x23, 1),
        lambda: einx.add("a b, ", x23, 1.0),
        lambda: einx.add("a b, ", x23, True),
        lambda: einx.add("a b, ", x23, np.float64(1.0)),
        lambda: einx.add("a b, ", x23, np.array(1.0)),
        lambda: einx.add("a b, b", x23, [1.0, 2.0, 3.0]),
        # tensors passed BY KEYWORD, in different orders: the keyword part of the cache key is an unordered mapping, the compiled function takes positional inputs
        lambda: einx.where("a, a, a", mask=np.array([True, False, True]), x=np.array([1.0, 2.0, 3.0]), y=np.array([10.0, 20.0, 30.0])),
        lambda: einx.where("a, a, a", y=np.array([10.0, 20.0, 30.0]), x=np.array([1.0, 2.0, 3.0]), mask=np.array([True, False, True])),
        lambda: einx.where("a, a, a", np.array([True, False, True]), y=np.array([10.0, 20.0, 30.0]), x=np.array([1.0, 2.0, 3.0])),
        lambda: einx.where("a, a, a", x=np.array([1.0, 2.0, 3.0]), mask=np.array([True, False, True]), y=np.array([10.0, 20.0, 30.0]), graph=True),
        lambda: einx.sum("a [b]", x23),
        lambda: einx.sum("a [b]", x23, graph=True),
        lambda: einx.sum("a [b]", A(2, 4)),
        lambda: einx.sum("a [b]", x23.astype(np.float32)),
        lambda: einx.sum("a [b]", x23, backend="numpy.einsum", graph=True),
        lambda: einx.sum("a [b", x23),
        lambda: einx.sum("a [b] c", x23),
        lambda: einx.sum("a [b] -> b", x23),
        lambda: einx.id("a b -> (a b)", x23, a=3),
        lambda: einx.get_at("[a] b, c -> c b", x23, np.array([0, 5])),
        lambda: einx.get_at("[a] b, c -> c b", x23, np.array([0, 1])),
        lambda: einx.roll("a [b]", x23, shift=1),
        lambda: einx.roll("a [b]", x23, shift=1.0),
        lambda: einx.roll("a [b]", x23, shift=(1,)),
        lambda: einx.roll("a [b]", x23, shift=[1]),
        lambda: einx.solve_axes("a b", x23),
        lambda: einx.solve_shapes("a (b c)", x23, c=3),
        lambda: einx.matches("a b c", x23),
        lambda: einx.matches("a (b c)", x23, c=(3,)),
        lambda: einx.matches("a (b c)", x23, c=3),
        lambda: einx.solve_axes("(a b)...", A(6, 8), a=2),
        lambda: einx.solve_axes("(a b)...", A(6, 8), a=(2,)),
        with_blocks,
        with_raise,
        lambda: einx.dot("a [b], [b] c -> a c", x23, A(3, 2)),
        lambda: einx.dot("a [b], [b] c -> a c", x23, A(3, 2), backend="numpy.numpylike"),
        lambda: einx.numpy.adapt_numpylike_reduce(np.sum)("a [b]", x23),
        lambda: einx.set_at("[a], b, b", np.zeros(3), np.array([0, 2]), np.array([5.0, 6.0])),
        lambda: einx.backend.get(None, [x23]).name,
        lambda: einx.backend.get("nosuch", [x23]).name,
        invalid_backend_block,
    ]
    return calls


def norm(v):
    import re
    if isinstance(v, str):
        names = {}

        def sub(m):
            w = m.group(0)
            if len(w) <= 2 and w.isalpha() and w.islower() and w not in ("np", "op", "as", "if", "in", "is", "or"):
                return names.setdefault(w, f"v{len(names)}")
            return w

        return ["text", hashlib.sha256(re.sub(r"0x[0-9a-f]+", "0x", re.sub(r"[A-Za-z_][A-Za-z0-9_]*", sub, v)).encode()).hexdigest()[:16]]
    if isinstance(v, (list, tuple)):
        return ["seq", [norm(x) for x in v]]
    if isinstance(v, dict):
        return ["dict", {str(k): norm(x) for k, x in sorted(v.items())}]
    if isinstance(v, (bool, np.bool_)):
        return ["bool", bool(v)]
    a = np.asarray(v)
    return ["array", list(a.shape), a.dtype.kind, hashlib.sha256(np.ascontiguousarray(a).tobytes()).hexdigest()[:16]]


def main():
    hist = json.loads(sys.argv[1])
    calls = pool()
    if hist == "count":
        print(len(calls))
        return
    import signal

    def h(*a):
        raise TimeoutError()

    signal.signal(signal.SIGALRM, h)
    for i in hist:
        signal.alarm(20)
        try:
            r = ["ok", norm(calls[i]())]
        except TimeoutError:
            r = ["timeout"]
        except BaseException as e:  # noqa
            r = ["exc", type(e).__module__ + "." + type(e).__name__]
        finally:
            signal.alarm(0)
        print(json.dumps({"call": i, "outcome": r}), flush=True)


if __name__ == "__main__":
    main()
