"""Shared bounded driver: run corpus cases through the public API on every backend and compare with the loop-notation oracle."""
import numpy as np
from .. import corpus, harness

N_QUICK, N_THOROUGH = 40, 2000  # chunks of 40 templates


def _work(args):
    seed, idx, fams = args
    cs = corpus.corpus(seed * 100003 + idx, 40, fams)
    out = []
    for j, c in enumerate(cs):
        loc = {"fn": "vf.props._corpus_run:replay_case", "args": [seed, idx, fams, j]}
        for be in c.backends:
            o = harness.call_einx(c.op, c.desc, [t.copy() for t in c.tensors], c.kwargs, be)
            if o[0] == "ok":
                try:
                    r = c.compare(o[1])
                except Exception as e:  # oracle crash: checker error, not a verdict
                    out.append(("oracle-error", c.describe(), be, repr(e)[:200]))
                    continue
                out.append(("mismatch" if r else "ok", dict(c.describe(), replay=dict(loc, args=loc["args"] + [be])), be, r))
            elif o[0] == "exc":
                if o[1].endswith("OperationNotSupportedError"):
                    out.append(("notsupported", c.describe(), be, None))
                else:
                    out.append(("exception", dict(c.describe(), replay=dict(loc, args=loc["args"] + [be])), be, f"{o[1]}: {o[2][:150]}"))
            else:
                out.append(("timeout", c.describe(), be, None))
    return out


def run_corpus(seed, tier, fams=None, chunks=None):
    n = chunks or (N_QUICK if tier == "quick" else N_THOROUGH)
    res = [x for r in harness.pmap(_work, [(seed, i, fams) for i in range(n)]) for x in r]
    return res


def replay_case(seed, idx, fams, j, backend):
    """regenerate the (seed, chunk, index) case deterministically and re-run it on the current tree; returns None if it now agrees"""
    c = corpus.corpus(seed * 100003 + idx, 40, fams)[j]
    o = harness.call_einx(c.op, c.desc, [t.copy() for t in c.tensors], c.kwargs, backend)
    if o[0] == "ok":
        r = c.compare(o[1])
        return f"einx.{c.op}({c.desc!r}, shapes={[t.shape for t in c.tensors]}, {c.kwargs}, backend={backend!r}): {r}" if r else None
    if o[0] == "exc" and o[1].endswith("OperationNotSupportedError"):
        return None
    return f"einx.{c.op}({c.desc!r}, shapes={[t.shape for t in c.tensors]}, {c.kwargs}, backend={backend!r}): {o}"
