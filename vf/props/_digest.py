"""child process of C16: prints one JSON line per corpus case with a digest of the outcome under the current PYTHONHASHSEED"""
import hashlib
import json
import re
import sys
import numpy as np
from .. import corpus, harness

EXTRA = [  # calls whose internal decisions iterate sets (anchors of C16): ties in the joined update order, implicit outputs, cse groups
    ("set_at", "[n], i j, j i -> [n]", [np.zeros(3), np.array([[0, 0], [0, 1]]), np.array([[1.0, 2.0], [3.0, 4.0]])], {}),
    ("set_at", "[x], a b, b a -> [x]", [np.zeros(4), np.array([[0, 1], [1, 2]]), np.array([[100.0, 101.0], [200.0, 201.0]])], {}),
    ("set_at", "[x], a b c, c a b, b c a -> [x]", [np.zeros(3), np.zeros((2, 2, 2), dtype=int), np.zeros((2, 2, 2), dtype=int), np.arange(8.0).reshape(2, 2, 2)], {}),
    # ties between composed axes: '(i k)' and '(j l)' are renamed cse.<idx> internally, <idx> follows set iteration order in stage2/cse.py - the winner
    # among duplicate targets must not follow it
    ("set_at", "[n], (i k) (j l), (j l) (i k) -> [n]", [np.zeros(7, dtype="int64"), np.array([[0, 2, 1, 0], [2, 2, 0, 1], [1, 0, 0, 2], [2, 1, 1, 0]]), np.arange(1, 17).reshape(4, 4)], {"i": 2, "j": 2}),
    ("set_at", "[n], (i k) (j l) (p q), (p q) (j l) (i k) -> [n]", [np.zeros(3, dtype="int64"), np.arange(64).reshape(4, 4, 4) % 3, np.arange(1, 65).reshape(4, 4, 4)], {"i": 2, "j": 2, "p": 2}),
    ("add_at", "[n], (i k) (j l), (j l) (i k) -> [n]", [np.zeros(7), np.array([[0, 2, 1, 0], [2, 2, 0, 1], [1, 0, 0, 2], [2, 1, 1, 0]]), np.arange(1.0, 17.0).reshape(4, 4)], {"i": 2, "j": 2}),
    # overlapping common subexpressions ('a b', 'b c', 'a b c'): which one is eliminated must not depend on the hash seed (fixed defect)
    ("id", "(a b c d) -> (a b c d e)", [np.arange(24)], {"d": 2, "e": 3}),
    ("id", "(a b c d) (e f g) -> (e f g) (a b c d)", [np.arange(48).reshape(24, 2)], {"d": 2, "g": 2}),
    ("sum", "(a b c) [d] -> (a b c)", [np.arange(24.0).reshape(12, 2)], {}),
    ("add", "a b, b a", [np.ones((2, 3)), np.ones((3, 2))], {}),
    ("add", "a b, b a", [np.ones((3, 3)), np.arange(9.0).reshape(3, 3)], {}),
    ("add", "a b, (a b)", [np.ones((2, 3)), np.ones(6)], {}),
    ("id", "(a b) (c d), (c d) (a b) -> a b c d, c d a b", [np.arange(36).reshape(6, 6), np.arange(36).reshape(6, 6)], {"a": 2, "c": 3}),
    ("id", "(a b c) (a b), (a b) -> c a b, b a", [np.arange(48).reshape(12, 4), np.arange(4)], {"a": 2, "b": 2}),
    ("dot", "a [b] c, [b] d, c [e], [e] -> a d", [np.arange(12).reshape(2, 2, 3), np.arange(4).reshape(2, 2), np.arange(6).reshape(3, 2), np.arange(2)], {}),
    ("sum", "a [b c] d [e]", [np.arange(48).reshape(2, 2, 3, 2, 2)], {}),
    ("argmax", "a [b c] -> a [2]", [np.array([[[1, 5], [5, 2]], [[3, 3], [0, 3]]])], {}),
]


def norm_code(code):
    """alpha-normalise generated text: variable names are renamed in order of first occurrence"""
    names = {}
    def sub(m):
        w = m.group(0)
        if w in ("import", "def", "return", "as", "from", "assert", "None", "True", "False", "np", "op", "numpy", "axis", "keepdims", "tuple", "isinstance", "shape", "dtype"):
            return w
        if len(w) <= 2 and w.isalpha() and w.islower():
            return names.setdefault(w, f"v{len(names)}")
        return w
    return re.sub(r"[A-Za-z_][A-Za-z0-9_]*", sub, code)


def digest_value(v):
    if isinstance(v, (list, tuple)):
        return [digest_value(x) for x in v]
    a = np.asarray(v)
    if a.dtype.kind == "f":
        a = np.round(a.astype(float), 9)
    return [list(a.shape), a.dtype.kind, hashlib.sha256(np.ascontiguousarray(a).tobytes()).hexdigest()[:16]]


def history_cases():
    """calls whose outcome could depend on WHICH other calls ran before them in the process (constants of generated code, tensor factories): evaluated in different
    orders and repetitions by the parent (mode argument); every label must have one outcome"""
    import einx
    x, y = np.arange(6.0).reshape(2, 3), np.ones((2, 3))

    def my_add(a, b):
        return np.asarray(a + b)

    def my_sub(a, b):
        return np.asarray(a - b)

    def my_mul(a, b, *, k=1.0):
        return np.asarray(a * b * k)

    ad = {f.__name__: einx.numpy.adapt_numpylike_elementwise(f) for f in (my_add, my_sub, my_mul)}
    red = einx.numpy.adapt_numpylike_reduce(lambda t, axis: np.asarray(np.sum(t, axis=axis) * 2))
    return [
        ("adapted my_add", lambda: ad["my_add"]("a b, a b -> a b", x, y)),
        ("adapted my_sub", lambda: ad["my_sub"]("a b, a b -> a b", x, y)),
        ("adapted my_mul k=3", lambda: ad["my_mul"]("a b, a b -> a b", x, y, k=3.0)),
        ("adapted reduce", lambda: red("a [b]", x)),
        ("factory (shape)", lambda: einx.add("a b, b", x, lambda shape: np.full(shape, 2.0))),
        ("factory (shape, name)", lambda: einx.add("a b, b", x, lambda shape, name: np.full(shape, 3.0))),
        ("factory (shape, arg_index)", lambda: einx.add("a b, b", x, lambda shape, arg_index=None: np.full(shape, 5.0 + (arg_index or 0)))),
        ("factory (shape) again", lambda: einx.multiply("a b, a", x, lambda shape: np.full(shape, 7.0))),
        ("plain sum", lambda: einx.sum("a [b]", x)),
        ("plain id", lambda: einx.id("a b -> b a", x)),
    ]


def run_history(mode):
    cases = history_cases()
    order = list(range(len(cases)))
    if mode == "rev":
        order = order[::-1]
    elif mode == "twice":
        order = [i for i in order for _ in range(2)]
    elif mode == "interleaved":
        order = order[::2] + order[1::2] + order
    for i in order:
        label, fn = cases[i]
        o = harness.outcome(fn, 20)
        d = ["ok", digest_value(o[1])] if o[0] == "ok" else (["exc", o[1]] if o[0] == "exc" else ["timeout"])
        print(json.dumps({"history_label": label, "mode": mode, "out": d}))


def main():
    if len(sys.argv) > 3:
        run_history(sys.argv[3])
        return
    cseed, n = int(sys.argv[1]), int(sys.argv[2])
    cases = [(op, d, t, k, ("numpy",)) for op, d, t, k in EXTRA]
    for i in range(n):
        for c in corpus.corpus(cseed * 100003 + i, 40):
            cases.append((c.op, c.desc, c.tensors, c.kwargs, c.backends[:1]))
    for op, desc, ts, kw, bes in cases:
        for be in bes:
            o = harness.call_einx(op, desc, [np.array(t, copy=True) for t in ts], kw, be, seconds=20)
            if o[0] == "ok":
                d = ["ok", digest_value(o[1])]
            elif o[0] == "exc":
                d = ["exc", o[1]]
            else:
                d = ["timeout"]
            g1 = harness.call_einx(op, desc, [np.array(t, copy=True) for t in ts], dict(kw, graph=True), be, seconds=20)
            g2 = harness.call_einx(op, desc, [np.array(t, copy=True) for t in ts], dict(kw, graph=True), be, seconds=20)
            same_text = (g1 == g2)
            gd = hashlib.sha256(norm_code(g1[1]).encode()).hexdigest()[:16] if g1[0] == "ok" and isinstance(g1[1], str) else g1[0]
            print(json.dumps({"op": op, "desc": desc, "shapes": [list(np.shape(t)) for t in ts], "kw": {k: str(v) for k, v in kw.items()}, "be": be, "out": d, "graph": gd, "graph_repeat_identical": same_text}))


if __name__ == "__main__":
    main()
