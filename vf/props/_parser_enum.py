"""Bounded part of C12 (and C03's parser clause): exhaustive token sequences through the real parse_op; round trip; re-spacing; el_op strings."""
import itertools
import numpy as np
from .. import harness

TOKENS = ["a", "b", "1", "0", "(", ")", "[", "]", "...", "->", ",", "+", " ", "|"]
INTERNAL = ("AssertionError", "NameError", "KeyError", "IndexError", "AttributeError", "RecursionError", "UnboundLocalError", "NotImplementedError", "TypeError", "ValueError", "ZeroDivisionError")


def dump(n):
    import einx._src.namedtensor.stage1 as s1
    t = type(n).__name__
    if isinstance(n, s1.Axis):
        return ("Axis", n.name if n.value is None else ("num", int(n.value)))
    if hasattr(n, "children"):
        return (t, tuple(dump(c) for c in n.children))
    if hasattr(n, "inner"):
        return (t, dump(n.inner))
    return (t,)


def parse(s):
    import einx
    import einx._src.namedtensor.stage1 as s1
    o = harness.outcome(lambda: s1.parse_op(s), 5)
    if o[0] == "ok":
        return "ok", o[1], None
    if o[0] == "timeout":
        return "timeout", None, None
    return ("syntax" if o[1] == "einx.errors.SyntaxError" else "internal:" + o[1]), None, o[2]


def respacings(s):
    """redundant spaces by the conservative definition (DESIGN Appendix B): more spaces where one is; spaces around '->' ',' '+';
    spaces directly after an opening / before a closing delimiter"""
    out = []
    if " " in s:
        out.append(s.replace(" ", "  "))
    for lit in ("->", ",", "+"):
        if lit in s:
            out.append(s.replace(lit, f" {lit} "))
    if "(" in s or "[" in s:
        out.append(s.replace("(", "( ").replace("[", "[ "))
    if ")" in s or "]" in s:
        out.append(s.replace(")", " )").replace("]", " ]"))
    return out


def _work(args):
    prefix, k, relations = args
    fails, n, nontrivial = [], 0, 0
    for toks in itertools.product(TOKENS, repeat=k - len(prefix)):
        s = "".join(prefix + toks)
        n += 1
        st, T, msg = parse(s)
        if st == "timeout":
            fails.append(("C12.B.terminates", s, "parse_op did not return within 5 s"))
            continue
        if st.startswith("internal"):
            fails.append(("C12.B.total", s, f"parse_op({s!r}) raised {st[9:]} ({(msg or '')[:60]}) instead of einx.errors.SyntaxError"))
            continue
        if st == "syntax":
            if s not in (msg or ""):
                fails.append(("C12.B.quotes_caller", s, f"SyntaxError for {s!r} does not quote the caller's string"))
            if relations:
                for v in respacings(s):
                    st2, _, _ = parse(v)
                    if st2 != "syntax":
                        fails.append(("C12.B.respacing", s, f"{s!r} is rejected but the re-spaced {v!r} is {st2}"))
            continue
        nontrivial += 1
        if not relations:
            continue
        d = dump(T)
        s2 = str(T)
        st2, T2, msg2 = parse(s2)
        if st2 != "ok" or dump(T2) != d:
            fails.append(("C12.B.roundtrip", s, f"{s!r} parses, prints as {s2!r}, which {'is rejected' if st2 != 'ok' else 'parses to a different structure'}"))
        for v in respacings(s):
            st3, T3, _ = parse(v)
            if st3 != "ok" or dump(T3) != d:
                fails.append(("C12.B.respacing", s, f"{s!r} parses but the re-spaced {v!r} {'is rejected' if st3 != 'ok' else 'parses differently'}"))
    return n, nontrivial, fails[:20]


def structured_strings(depth):
    """expressions built from the grammar (atoms, juxtaposition, parentheses, brackets, '+', ellipsis), nested `depth` times - reaches shapes such as
    '(a b)...' or '[(a b)...] c' that lie beyond the token-sequence bound"""
    level = ["a", "b", "2"]
    seen = list(level)
    for _ in range(depth):
        nxt = []
        for x in level:
            nxt += [f"({x})", f"{x}...", f"{x} c", f"c {x}", f"({x} + d)"]
            if "[" not in x:
                nxt += [f"[{x}]", f"[{x}] c"]
        for x, y in itertools.product(level[:6], repeat=2):
            nxt += [f"{x} {y}", f"({x} {y})", f"({x} + {y})"]
            if "[" not in x + y:
                nxt.append(f"[{x} {y}]")
        nxt = list(dict.fromkeys(nxt))
        seen += nxt
        level = nxt[:60]
    return list(dict.fromkeys(seen))


def structured_roundtrip(depth):
    fails, n, ok = [], 0, 0
    for s in structured_strings(depth):
        n += 1
        st, T, msg = parse(s)
        if st.startswith("internal") or st == "timeout":
            fails.append(("C12.B.total", s, f"parse_op({s!r}) {st}"))
            continue
        if st != "ok":
            continue
        ok += 1
        d, s2 = dump(T), str(T)
        st2, T2, _ = parse(s2)
        if st2 != "ok" or dump(T2) != d:
            fails.append(("C12.B.roundtrip", s, f"{s!r} parses, prints as {s2!r}, which {'is rejected' if st2 != 'ok' else 'parses to a different structure'}"))
    return n, ok, fails


ELOP_DESCS = ["[(a b)...] c", "([a b])... c", "[(a b)...]", "a [(b c)...]", "a [b]", "[a] b", "a [b c]", "[a b]...", "a [b...]", "[a]... b", "[a...]", "a... [b]", "a [b] 1", "(a [b]) c", "a ([b] c)", "[a] [b]", "a [b] [c]", "[a b] c...", "(a [b])...", "[a]...", "a [1]", "[a] 1 b", "a... [b c]", "[...]", "a [...]", "a [0]", "[0] a"]
ELOP_OPS = ["sum", "max", "softmax", "flip", "argmax", "sort", "logsumexp", "roll"]


def elop_strings():
    """no operation fails with a syntax error about text the caller did not write"""
    import einx
    res = []
    for d in ELOP_DESCS:
        nd = 4
        x = np.arange(2 ** nd, dtype=float).reshape((2,) * nd)
        for op in ELOP_OPS:
            kw = {"shift": 1} if op == "roll" else {}
            for shape in ((2, 2), (2, 2, 2), (2, 2, 2, 2)):
                x = np.arange(int(np.prod(shape)), dtype=float).reshape(shape)
                o = harness.call_einx(op, d, [x], kw, "numpy", seconds=10)
                if o[0] == "exc" and o[1] == "einx.errors.SyntaxError" and d not in o[2]:
                    res.append((op, d, shape, o[2][:160]))
                elif o[0] == "exc" and o[1].split(".")[-1] in INTERNAL and not o[1].startswith("einx."):
                    res.append((op, d, shape, f"internal exception {o[1]}: {o[2][:100]}"))
    return res


def is_known_braces(caller_text, message):
    """predicate of the recorded finding F-ellipsis-braces, and nothing wider: the caller wrote a bracket group of >= 2 plain members directly under an
    ellipsis ('[a b]...'), and the text einx complains about contains exactly that group printed with braces ('{a b}...')"""
    import re
    for m in re.finditer(r"\[([^\[\]\(\)\{\}]*)\]\s*\.\.\.", caller_text):
        members = m.group(1).split()
        if len(members) >= 2 and re.search(r"\{\s*" + r"\s+".join(re.escape(x) for x in members) + r"\s*\}\s*\.\.\.", message):
            return True
    return False


def quoted_text_cases():
    """every SyntaxError of a public entry point quotes EXACTLY the caller's description (Expression: "<text>")"""
    import re
    import einx
    out = []
    x = np.zeros((2, 3))
    bad = ["a (", "a [b", "a b)", "a ]", "a (b + c", "a,, (b", "a -> (", "(a b"]
    entries = [("id", lambda d: einx.id(d, x)), ("sum", lambda d: einx.sum(d, x)), ("add", lambda d: einx.add(d, x, x)),
               ("solve_axes", lambda d: einx.solve_axes(d, x)), ("solve_shapes", lambda d: einx.solve_shapes(d, x)), ("check", lambda d: einx.check(d, x) if hasattr(einx, "check") else None)]
    for name, fn in entries:
        for d in bad:
            if name in ("solve_axes", "solve_shapes", "check") and "->" in d:
                continue
            o = harness.outcome(lambda: fn(d), 10)
            if o[0] != "exc" or o[1] != "einx.errors.SyntaxError":
                continue
            m = re.search(r'Expression: "(.*)"', o[2])
            if not m:
                out.append((name, d, None, "no quoted expression in the message"))
            elif m.group(1) != d:
                out.append((name, d, m.group(1), f"einx.{name}({d!r}) quotes {m.group(1)!r}"))
    return out


def add(chk, tier, seed):
    kp = 5 if tier == "quick" else 6  # totality / quoting
    kr = 4 if tier == "quick" else 5  # round trip / re-spacing
    jobs = []
    for k in range(1, kp + 1):
        if k <= 2:
            jobs.append(((), k, k <= kr))
        else:
            for pre in itertools.product(TOKENS, repeat=2):
                jobs.append((pre, k, k <= kr))
    total, nontriv, fails = 0, 0, []
    for n, nt, f in harness.pmap(_work, jobs):
        total += n
        nontriv += nt
        fails += f
    sn, sok, sfails = structured_roundtrip(2 if tier == "quick" else 3)
    total += sn
    nontriv += sok
    fails += sfails
    seen = set()
    for ob, s, detail in fails:
        if "|" in s and False:
            continue
        known = ob == "C12.B.roundtrip" and is_known_braces(s, detail)
        if known:
            chk.known_finding("F-ellipsis-braces", "a bracket group of >= 2 axes under an ellipsis prints with braces, which the parser rejects (e.g. '[a b]...')")
            continue
        if ob in seen:
            continue
        seen.add(ob)
        chk.violation(ob, detail, replay={"kind": "case", "case": {"string": s, "replay": {"fn": "vf.props._parser_enum:replay", "args": [s]}}}, found_input=True)
    chk.add_bounded("exhaustive token sequences over {a b 1 ( ) [ ] ... -> , + space |} through the real parse_op", f"length <= {kp} for totality/quoting, <= {kr} for round trip and re-spacing",
                    total, nontriv, failures=fails, exhaustive=True, samples=["a b -> (a + b)", "[a]..."])
    qt = quoted_text_cases()
    for name, d, quoted, msg in qt:
        if name in ("solve_axes", "solve_shapes", "check") and quoted == d + " ->":
            chk.known_finding("F-solve-arrow-suffix", "syntax errors of solve_axes / solve_shapes / check quote the description with an appended ' ->' (e.g. solve_axes('a (', x) quotes 'a ( ->')")
            continue
        chk.violation("C12.B.quotes_caller_exactly", msg, replay={"kind": "case", "case": {"entry": name, "description": d, "quoted": quoted}}, found_input=True)
    chk.add_bounded("quoted expression of SyntaxErrors raised through public entry points equals the caller's description", "8 malformed descriptions x 6 entry points", 48, 48, failures=qt)
    for op, d, shape, msg in nested_ellipsis_cases():
        if is_known_nested_ellipsis(d, msg):
            chk.known_finding("F-reprint-nested-ellipsis", "a bracketed ellipsis directly under another ellipsis ('[a...]...') is printed as 'a......' when an adapter builds its elementary-operation string, which the parser rejects")
            continue
        chk.violation("C12.B.elop_text", f"einx.{op}({d!r}, shape={shape}) fails with a SyntaxError: {msg[:160]}", replay={"kind": "case", "case": {"op": op, "description": d, "shape": list(shape)}}, found_input=True)
    lg = long_generated_text_cases()
    for ob, s_, detail in lg:
        chk.violation(ob, detail, replay={"kind": "case", "case": {"string": s_}}, found_input=True)
    chk.add_bounded("tensors of rank 40-60 and long size vectors (printed and re-parsed internally), under default and narrow numpy print options", "7 calls x 2 print option settings", 14, 14, failures=lg)
    dn = deep_nesting_cases()
    for ob, s_, detail in dn:
        chk.violation(ob, detail, replay={"kind": "case", "case": {"string": s_}}, found_input=True)
    chk.add_bounded("deeply nested parentheses / brackets (depth 20 ... 3000, balanced and unbalanced) through the real parse_op", "5 depths x 2 delimiters x 4 shapes", 40, 40, failures=dn)
    el = elop_strings()
    for op, d, shape, msg in el:
        if is_known_braces(d, msg):
            chk.known_finding("F-ellipsis-braces", "a bracket group of >= 2 axes under an ellipsis prints with braces, which the parser rejects (e.g. '[a b]...')")
            continue
        chk.violation("C12.B.elop_text", f"einx.{op}({d!r}, shape={shape}) fails with: {msg}", replay={"kind": "case", "case": {"op": op, "description": d, "shape": list(shape)}}, found_input=True)
    chk.add_bounded("el_op strings built by adapters (reduce/preserve_shape/argfind) through the public API", f"{len(ELOP_DESCS)} descriptions x {len(ELOP_OPS)} ops x 3 ranks", len(ELOP_DESCS) * len(ELOP_OPS) * 3, len(ELOP_DESCS) * len(ELOP_OPS), failures=el)


def is_known_nested_ellipsis(caller_text, message):
    """predicate of the recorded finding F-reprint-nested-ellipsis, and nothing wider: the caller wrote a bracketed ellipsis directly under another ellipsis ('[a...]...') and the text
    einx complains about is exactly that axis printed with both ellipses run together ('a......')"""
    import re
    for m in re.finditer(r"\[\s*([A-Za-z_][A-Za-z0-9_]*)\s*\.\.\.\s*\]\s*\.\.\.", caller_text):
        if (m.group(1) + "......") in message:
            return True
    return False


def nested_ellipsis_cases():
    import einx
    out = []
    for op, d, shape in (("sum", "[a...]...", (2, 3)), ("max", "b [a...]...", (2, 3, 4)), ("flip", "[a...]...", (2, 3)), ("sum", "[a...]", (2, 3)), ("sum", "b [a...]", (2, 3, 4))):
        o = harness.outcome(lambda: getattr(einx, op)(d, np.zeros(shape)), 15)
        if o[0] == "exc" and o[1] == "einx.errors.SyntaxError":
            out.append((op, d, shape, o[2]))
    return out


def long_generated_text_cases():
    """'no operation ever fails with a syntax error about text the caller did not write': shapes and size vectors are printed and re-parsed internally - tensors of rank 38-60 and
    constraint vectors with many / many-digit entries must not produce such an error (a printer that wraps long lines, abbreviates with '...' or depends on print options would)"""
    import einx
    out = []
    old = np.get_printoptions()
    try:
        for opts in ({}, {"threshold": 5, "linewidth": 20}):
            np.set_printoptions(**opts)
            cases = [("id", "... -> ...", [np.ones((1,) * 40)], {}), ("id", "... -> ...", [np.ones((1,) * 60)], {}), ("sum", "[...] a", [np.ones((1,) * 45 + (3,))], {}),
                     ("id", "(a b)... -> a... b...", [np.ones((2,) * 12)], {"b": (1,) * 12}), ("solve_axes", "a...", [np.ones((1,) * 50)], {}),
                     ("id", "(a b)... -> a... b...", [np.ones((100000, 100000, 100000)[:0] + (6, 6, 6))], {"a": (3, 2, 1)}), ("solve_shapes", "a... b", [None], {"a": tuple(range(10000, 10030)), "b": 123456789})]
            for op, d, ts, kw in cases:
                o = harness.outcome(lambda: getattr(einx, op)(d, *ts, **kw), 60)
                if o[0] == "exc" and o[1] == "einx.errors.SyntaxError":
                    out.append(("C12.B.quotes_caller_exactly", f"{op} {d!r} rank {getattr(ts[0], 'ndim', None)} print options {opts}", f"einx.{op}({d!r}) on a rank-{getattr(ts[0], 'ndim', '?')} tensor / long size vector fails with a SyntaxError about generated text: {o[2][:120]}"))
                elif o[0] == "exc" and o[1].split(".")[0] not in ("einx",) and o[1] not in ("builtins.ValueError",):
                    out.append(("C12.B.total", f"{op} {d!r} print options {opts}", f"einx.{op}({d!r}) on a high-rank tensor escapes with {o[1]}: {o[2][:100]}"))
    finally:
        np.set_printoptions(**old)
    return out


def deep_nesting_cases():
    """'for every description string parsing terminates and either succeeds or raises SyntaxError': strings whose nesting depth exceeds any recursion budget"""
    out = []
    for depth in (20, 90, 101, 400, 3000):
        for o, c in ("()", "[]"):
            for s in (o * depth + "a" + c * depth, "a " + o * depth + "b c" + c * depth + " -> a b c", o * depth + "a", o * depth + "a" + c * depth + " " + c):
                st, T, msg = parse(s)
                if st.startswith("internal"):
                    out.append(("C12.B.total", s[:40] + f"...[nesting depth {depth}]", f"parse_op on a string with {depth} nested {o!r} escapes with {st[9:]} instead of succeeding or raising SyntaxError"))
                elif st == "ok":
                    st2, T2, _ = parse(str(T))
                    if st2 != "ok" or dump(T2) != dump(T):
                        out.append(("C12.B.roundtrip", s[:40] + f"...[nesting depth {depth}]", f"a string with {depth} nested {o!r} parses but its printed form does not re-parse to the same structure"))
    return out


def replay(s):
    st, T, msg = parse(s)
    if st.startswith("internal"):
        return f"parse_op({s!r}) raised {st[9:]}"
    n, nt, fails = _work((tuple(), 0, True)) if False else (0, 0, [])
    if st == "ok":
        s2 = str(T)
        st2, T2, _ = parse(s2)
        if st2 != "ok" or dump(T2) != dump(T):
            return f"{s!r} prints as {s2!r} which does not re-parse to the same structure"
        for v in respacings(s):
            st3, T3, _ = parse(v)
            if st3 != "ok" or dump(T3) != dump(T):
                return f"{s!r} vs re-spaced {v!r}"
    elif st == "syntax" and s not in (msg or ""):
        return f"SyntaxError for {s!r} does not quote the caller's string"
    return None
