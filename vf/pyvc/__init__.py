from .values import *  # noqa
from .engine import OutOfSubset, Return, Raise, Break, Continue, Path, Obligation, locate
from .exec import Exec
